#!/usr/bin/env python3
"""C10 driver (called by c10.sh after the builds): replay tier, generated tier, crash classification, evidence.

  c10_run.py <quick|thorough> [--replay <file>]

Replay tier   every file of corpus/<target>/ and replays/C10/<target>/ is executed once by the debug+ASan binary
              and once by the plain optimised binary (libFuzzer runs files given on the command line as regression
              inputs); a crashing file is recorded and the batch continues with the files behind it.
Generated     quick: one libFuzzer process per target, -runs=N -seed=S (fixed work) on a fresh copy of the seed
              corpus under work/C10/corpus/<target>; two extra empty-corpus runs. thorough: W workers spread over
              the targets, -max_total_time each, then every new corpus unit is re-run on the optimised build and the
              interesting ones are merged (-merge=1) into work/C10/merged/<target>. Nothing is written to corpus/.
Crash         the input is classified from the log: VERIF-PANIC sig=… (panic location, in-target oracle signature),
              ASan report kind + innermost SDK frame, libFuzzer timeout / out-of-memory / deadly signal. The time budget is
              user CPU time of one input measured in-target (VERIF-SLOW: 10 s optimised build, 30 s ASan build); such
              an input, or one that trips libFuzzer's wall-clock alarm (120 s), is re-run alone on both builds and
              counts only if it exceeds a budget again or still does not return. Signatures of open entries of known_findings.json -> KNOWN-FINDING; everything else ->
              replays/C10/<target>/last-<sha1>.bin + VIOLATION.
"""
import glob
import hashlib
import json
import os
import re
import resource
import shutil
import subprocess
import sys
import time

ROOT = os.environ.get("VERIF_ROOT_DIR", "/verif")
TGT = os.environ.get("VERIF_FUZZ_TARGET_DIR", "/verif/target")
TRIPLE = "x86_64-unknown-linux-gnu"
BIN = {"asan": f"{TGT}/fuzz/{TRIPLE}/release", "rel": f"{TGT}/fuzz-rel/{TRIPLE}/release"}
WORK = f"{ROOT}/work/C10"
CORPUS = f"{ROOT}/corpus"
REPLAYS = f"{ROOT}/replays/C10"
# per-input time budget in CPU seconds, enforced in-target (VERIF-SLOW); libFuzzer's wall-clock alarm is only the
# hang detector and is set 12x higher because wall-clock time means nothing on a machine shared with other jobs
TIMEOUT = int(os.environ.get("VERIF_FUZZ_TIMEOUT", "10"))
WALL = TIMEOUT * 12
MAX_LEN = 1048576
LIMITS = [f"-timeout={WALL}", f"-report_slow_units={WALL}", "-rss_limit_mb=1024", "-malloc_limit_mb=256", "-detect_leaks=0"]

# target: (quick runs as a fraction of VERIF_FUZZ_RUNS, thorough workers out of 16)
TARGETS = {
    "fuzz_read": (1.0, 3),
    "fuzz_store": (1.0, 2),
    "fuzz_sidecar": (1.0, 1),
    "fuzz_ingredient": (0.4, 2),
    "fuzz_archive": (1.0, 1),
    "fuzz_write": (1.0, 2),
    "fuzz_struct": (0.5, 3),
    "fuzz_store_mut": (0.4, 1),
    "fuzz_store_rt": (1.0, 1),
}
EMPTY_CORPUS_TARGETS = ["fuzz_read", "fuzz_store"]


def sha1(b):
    return hashlib.sha1(b).hexdigest()


# user-CPU budget of one input, enforced in-target: TIMEOUT on the optimised build, 3x on the ASan + debug build
CPU_LIMIT = {"asan": 3 * TIMEOUT, "rel": TIMEOUT}


def env_for(extra=None, build="asan"):
    e = dict(os.environ)
    e["ASAN_OPTIONS"] = "detect_odr_violation=0:detect_leaks=0:symbolize=1:allocator_may_return_null=1"
    e["VERIF_FUZZ_STATS_DIR"] = f"{WORK}/stats"
    e["VERIF_ROOT_DIR"] = ROOT
    e["RUST_BACKTRACE"] = "0"
    e["VERIF_FUZZ_CPU_LIMIT"] = str(CPU_LIMIT[build])
    if extra:
        e.update(extra)
    return e


def seed_value():
    try:
        s = int(os.environ.get("VERIF_SEED", "0").strip() or "0")
    except ValueError:
        s = 0
    full = s if s != 0 else 0x5EEDC2FA2026
    s32 = full % 0xFFFFFFFB
    return full & 0x7FFFFFFFFFFFFFFF, (s32 if s32 != 0 else 1)


def load_known():
    known = {}
    try:
        d = json.load(open(f"{ROOT}/known_findings.json"))
    except Exception:
        return known
    for e in d.get("findings", []):
        if e.get("status") == "open" and e.get("property") in ("C10", "C02", "C18"):
            known[e["signature"]] = e
    relocate(known)
    return known


SITE = re.compile(r"^(C10:\w+:)(sdk/src/\S+):(\d+)$")


def relocate(known):
    """Site-keyed findings (`C10:<kind>:<file>:<line>`) carry `src`, the text of that source line when the finding was
    registered. An unrelated edit higher up in the file moves the line: find where that statement is now (same file, same
    text; several entries with the same text keep their order) and accept the moved signature as the same finding.
    Another statement of the file, or the same statement after it was rewritten, is not covered."""
    repo = os.environ.get("VERIF_REPO_DIR", "/repo")
    groups = {}
    for sig, e in list(known.items()):
        m = SITE.match(sig)
        if m and e.get("property") == "C10" and e.get("src"):
            groups.setdefault((m.group(1), m.group(2), e["src"]), []).append((int(m.group(3)), e))
    extra = []
    for (pfx, f, src), ents in groups.items():
        try:
            lines = open(os.path.join(repo, f), errors="replace").read().split("\n")
        except OSError:
            continue
        occ = [i + 1 for i, l in enumerate(lines) if l.strip() == src]
        ents.sort(key=lambda x: x[0])
        if len(occ) == len(ents):
            pairs = list(zip(occ, ents))
        else:
            pairs = [(min(occ, key=lambda o: abs(o - ln)), (ln, e)) for ln, e in ents] if occ else []
        for now, (ln, e) in pairs:
            if now != ln:
                sig = f"{pfx}{f}:{now}"
                if sig not in known:
                    known[sig] = e
                    extra.append(sig)
    # the in-target allow-list reads known_findings.json itself: hand it the moved signatures
    if extra:
        os.environ["VERIF_C10_ALLOW_EXTRA"] = ",".join(extra)
        print("relocated known-finding sites: " + ", ".join(f"{x} (= {known[x]['signature']})" for x in extra))


def registered_names(known_obs):
    """Observations keyed by the registered signature (a moved site reports under the name it is listed with)."""
    merged = {}
    for sig, k in known_obs.items():
        reg = k["entry"].get("signature", sig)
        if not reg.startswith("C10:"):
            reg = sig
        m = merged.setdefault(reg, {"entry": k["entry"], "n": 0})
        m["n"] += k["n"]
    return merged


def known_entry(known, sig):
    if sig in known and known[sig].get("property") == "C10":
        return known[sig]
    for pfx, owner in (("C10:c18-oracle:", "C18:"), ("C10:c02-oracle:", "C02:")):
        if sig.startswith(pfx) and owner + sig[len(pfx):] in known:
            return known[owner + sig[len(pfx):]]
    return None


# ---------------------------------------------------------------------------------------------------
# log parsing
# ---------------------------------------------------------------------------------------------------
FRAME = re.compile(r"^\s*#(\d+) 0x[0-9a-f]+ in (.+?) (/[^\s:]+|[^\s:/][^\s:]*):(\d+)(?::\d+)?\s*$")


def sdk_rel(path):
    if "/.cargo/" in path or path.startswith("/rustc/"):
        return None
    i = path.find("/sdk/src/")
    if i >= 0:
        return path[i + 1:]
    if path.startswith("sdk/src/"):
        return path
    return None


def innermost_sdk_frame(lines):
    """(file, line, func) of the first stack frame inside the SDK sources after an ERROR: line."""
    for ln in lines:
        m = FRAME.match(ln)
        if m:
            rel = sdk_rel(m.group(3))
            if rel and not rel.endswith("verif_hooks.rs"):
                return rel, m.group(4), m.group(2)
    return None


def classify(log_text, target):
    """Returns (kind, signature, one-line description) or None when the log shows no crash."""
    lines = log_text.splitlines()
    m = re.search(r"VERIF-PANIC sig=(\S+) loc=(\S+) msg=(.*)", log_text)
    if m:
        kind = "oracle" if "-oracle:" in m.group(1) else "panic"
        return kind, m.group(1), f"panic at {m.group(2)}: {m.group(3)[:300]}"
    m = re.search(r"VERIF-ALLOC sig=(\S+) size=(\d+)", log_text)
    if m:
        return "oom", m.group(1), f"single allocation request of {int(m.group(2)) >> 20} MB while executing one input (limit 256 MB, input <= 1 MiB)"
    m = re.search(r"VERIF-SLOW sig=(\S+) cpu_s=(\S+)", log_text)
    if m:
        return "slow", m.group(1), f"one input used {m.group(2)} s of user CPU time (budget {CPU_LIMIT['rel']} s optimised / {CPU_LIMIT['asan']} s ASan build)"
    idx = next((i for i, l in enumerate(lines) if "ERROR: " in l and ("libFuzzer" in l or "Sanitizer" in l)), None)
    if idx is None:
        return None
    err = lines[idx]
    tail = lines[idx: idx + 400]
    fr = innermost_sdk_frame(tail)
    if "libFuzzer: timeout" in err:
        where = fr[0] if fr else target
        return "timeout", f"C10:timeout:{where}", err.strip() + (f" in {fr[2]} ({fr[0]}:{fr[1]})" if fr else "")
    if "libFuzzer: out-of-memory" in err:
        # RSS limit hit while an input with a tolerated (known) giant allocation was still running?
        marks = [(i, l) for i, l in enumerate(lines[:idx]) if l.startswith("VERIF-BIGALLOC-")]
        if marks and marks[-1][1].startswith("VERIF-BIGALLOC-BEGIN"):
            mm = re.search(r"sig=(\S+) size=(\d+)", marks[-1][1])
            if mm:
                return "oom", mm.group(1), err.strip() + f" after the known allocation of {int(mm.group(2)) >> 20} MB at this site was let through"
        if "malloc(" in err and fr:
            return "oom", f"C10:oom:{fr[0]}:{fr[1]}", err.strip() + f" allocated in {fr[2]}"
        return "oom", f"C10:oom:rss:{target}", err.strip()
    if "AddressSanitizer" in err:
        m = re.search(r"AddressSanitizer: ([A-Za-z0-9_-]+)", err)
        k = m.group(1) if m else "unknown"
        if k == "stack-overflow":
            return "asan", f"C10:asan:stack-overflow:{fr[0] if fr else target}", err.strip() + (f" in {fr[2]}" if fr else "")
        if k in ("requested-allocation-size-exceeds-maximum-supported-size", "allocation-size-too-big", "out-of-memory"):
            return "oom", f"C10:oom:{fr[0]}:{fr[1]}" if fr else f"C10:oom:asan:{target}", err.strip()
        return "asan", f"C10:asan:{k}:{fr[0]}:{fr[1]}" if fr else f"C10:asan:{k}:{target}", err.strip()
    if "libFuzzer: deadly signal" in err:
        return "abort", f"C10:abort:{fr[0] + ':' + fr[1] if fr else target}", err.strip()
    if "libFuzzer: fuzz target exited" in err:
        return "exit", f"C10:exit:{target}", err.strip()
    if "LeakSanitizer" in err:
        return "leak", f"C10:leak:{target}", err.strip()
    return "other", f"C10:crash:{target}", err.strip()


def final_stats(log_text):
    st = {}
    for k in ("number_of_executed_units", "average_exec_per_sec", "new_units_added", "slowest_unit_time_sec", "peak_rss_mb"):
        m = re.findall(rf"stat::{k}:\s+(\d+)", log_text)
        if m:
            st[k] = int(m[-1])
    m = re.findall(r"^#(\d+)\s+\S+\s+cov: (\d+) ft: (\d+) corp: (\d+)/(\S+)", log_text, re.M)
    if m:
        n, cov, ft, corp, size = m[-1]
        st.update({"last_status_execs": int(n), "cov": int(cov), "ft": int(ft), "corp": int(corp), "corp_bytes": size})
    m = re.findall(r"^#(\d+)\s+INITED", log_text, re.M)
    if m:
        st["inited_at"] = int(m[-1])
    return st


# ---------------------------------------------------------------------------------------------------
# process pool
# ---------------------------------------------------------------------------------------------------
class Proc:
    def __init__(self, tag, cmd, log, env, cwd):
        self.tag, self.cmd, self.log, self.env, self.cwd = tag, cmd, log, env, cwd
        self.p = None
        self.rc = None
        self.t0 = None

    def start(self):
        self.t0 = time.time()
        self.p = subprocess.Popen(self.cmd, stdout=open(self.log, "wb"), stderr=subprocess.STDOUT, env=self.env, cwd=self.cwd)

    def text(self):
        try:
            return open(self.log, "r", errors="replace").read()
        except OSError:
            return ""


def run_pool(procs, parallel, on_done, hard_timeout=None):
    """Run Proc objects, at most `parallel` at a time; on_done(proc) may return new Procs to schedule."""
    queue = list(procs)
    running = []
    while queue or running:
        while queue and len(running) < parallel:
            p = queue.pop(0)
            p.start()
            running.append(p)
        time.sleep(0.2)
        for p in list(running):
            rc = p.p.poll()
            if rc is None and hard_timeout and time.time() - p.t0 > hard_timeout(p):
                p.p.kill()
                p.p.wait()
                rc = -9
                with open(p.log, "ab") as f:
                    f.write(b"\nDRIVER: killed after the hard wall-clock limit\n")
            if rc is not None:
                p.rc = rc
                running.remove(p)
                more = on_done(p) or []
                queue.extend(more)


# ---------------------------------------------------------------------------------------------------
class Driver:
    def __init__(self, tier):
        self.tier = tier
        self.known = load_known()
        self.seed_full, self.seed32 = seed_value()
        self.crashes = []          # dicts
        self.notes = []
        self.inconclusive = []
        self.per_target = {t: {} for t in TARGETS}
        self.replay_execs = 0
        self.fuzz_execs = 0
        self.logn = 0

    def log_path(self, tag):
        self.logn += 1
        return f"{WORK}/logs/{self.logn:04d}-{tag}.log"

    # -- replay tier -------------------------------------------------------------------------------
    def replay_files(self, target):
        files = sorted(glob.glob(f"{CORPUS}/{target}/*")) + sorted(glob.glob(f"{REPLAYS}/{target}/*"))
        return [f for f in files if os.path.isfile(f)]

    def replay_proc(self, target, build, files, strict=False):
        cmd = [f"{BIN[build]}/{target}"] + LIMITS + [f"-artifact_prefix={WORK}/artifacts/{target}/"] + files
        p = Proc(f"replay-{build}-{target}", cmd, self.log_path(f"replay-{build}-{target}"), env_for({"VERIF_FUZZ_STRICT": "1"} if strict else None, build), WORK)
        p.target, p.build, p.files, p.kind = target, build, files, "replay"
        return p

    def on_replay_done(self, p):
        txt = p.text()
        executed = re.findall(r"^Executed (\S+) in \d+ ms", txt, re.M)
        self.replay_execs += len(executed)
        st = self.per_target[p.target].setdefault(f"replay_{p.build}", {"files": 0, "crashes": 0})
        st["files"] += len(executed)
        if p.rc == 0:
            return []
        running = re.findall(r"^Running: (\S+)", txt, re.M)
        culprit = running[-1] if running else None
        c = classify(txt, p.target)
        if c is None:
            self.inconclusive.append(f"{p.tag}: exit code {p.rc} without a recognisable report (see {p.log})")
            return []
        if culprit is None:
            self.inconclusive.append(f"{p.tag}: crash before the first input ({c[1]}; see {p.log})")
            return []
        st["crashes"] += 1
        self.replay_execs += 1
        st["files"] += 1
        self.record_crash(p.target, p.build, culprit, c, p.log, phase="replay")
        rest = p.files[p.files.index(culprit) + 1:] if culprit in p.files else []
        return [self.replay_proc(p.target, p.build, rest)] if rest else []

    # -- crash bookkeeping ---------------------------------------------------------------------------
    def record_crash(self, target, build, input_path, c, log, phase):
        kind, sig, desc = c
        try:
            data = open(input_path, "rb").read()
        except OSError:
            data = b""
        self.crashes.append({"target": target, "build": build, "input": input_path, "sha1": sha1(data), "size": len(data),
                             "kind": kind, "signature": sig, "what": desc, "log": log, "phase": phase})

    def confirm_timeout(self, cr):
        """An input that exceeded the in-target CPU budget (VERIF-SLOW) or tripped libFuzzer's wall-clock alarm is
        re-run alone on both builds with a 5x longer alarm. It counts when one of the two runs exceeds its CPU
        budget again (30 s ASan / 10 s optimised, user time) or still does not return (a real hang)."""
        wall_limit = WALL * 5
        res = {}
        confirmed = False
        for b in ("asan", "rel"):
            cmd = [f"{BIN[b]}/{cr['target']}", f"-timeout={wall_limit}", "-rss_limit_mb=2048", "-detect_leaks=0",
                   f"-artifact_prefix={WORK}/artifacts/confirm-", cr["input"]]
            t0 = time.time()
            log = self.log_path(f"confirm-{b}-{cr['target']}")
            with open(log, "wb") as f:
                try:
                    rc = subprocess.call(cmd, stdout=f, stderr=subprocess.STDOUT, env=env_for(None, b), cwd=WORK, timeout=wall_limit + 120)
                except subprocess.TimeoutExpired:
                    rc = -9
            txt = open(log, errors="replace").read()
            slow = re.search(r"VERIF-SLOW sig=\S+ cpu_s=(\S+)", txt)
            ms = re.search(r"^Executed \S+ in (\d+) ms", txt, re.M)
            res[b] = {"wall_s": round(time.time() - t0, 1), "rc": rc, "cpu_s": slow.group(1) if slow else None, "executed_ms": int(ms.group(1)) if ms else None}
            if slow or rc == -9 or "libFuzzer: timeout" in txt:
                confirmed = True
        cr["confirm"] = res
        return confirmed

    # -- generated tier --------------------------------------------------------------------------------
    def fuzz_proc(self, target, corpus_dir, seed, runs=None, secs=None, tag="fuzz", max_len=MAX_LEN):
        cmd = [f"{BIN['asan']}/{target}", f"-seed={seed}", "-len_control=0", f"-max_len={max_len}", "-print_final_stats=1",
               "-reload=1", f"-artifact_prefix={WORK}/artifacts/{target}/"] + LIMITS
        if runs is not None:
            cmd.append(f"-runs={runs}")
        if secs is not None:
            cmd.append(f"-max_total_time={secs}")
        cmd.append(corpus_dir)
        p = Proc(f"{tag}-{target}", cmd, self.log_path(f"{tag}-{target}"), env_for(), WORK)
        p.target, p.kind, p.corpus_dir, p.seed, p.runs, p.secs, p.ftag, p.max_len = target, "fuzz", corpus_dir, seed, runs, secs, tag, max_len
        p.restarts = 0
        p.deadline = None
        return p

    def on_fuzz_done(self, p):
        txt = p.text()
        st = final_stats(txt)
        execs = st.get("number_of_executed_units", st.get("last_status_execs", 0))
        self.fuzz_execs += execs
        agg = self.per_target[p.target].setdefault(p.ftag, {"execs": 0, "processes": 0, "new_units": 0, "corp": 0, "ft": 0, "cov": 0, "peak_rss_mb": 0, "exec_per_s": [], "crashes": 0})
        agg["execs"] += execs
        agg["processes"] += 1
        agg["new_units"] += st.get("new_units_added", 0)
        agg["corp"] = max(agg["corp"], st.get("corp", 0))
        agg["ft"] = max(agg["ft"], st.get("ft", 0))
        agg["cov"] = max(agg["cov"], st.get("cov", 0))
        agg["peak_rss_mb"] = max(agg["peak_rss_mb"], st.get("peak_rss_mb", 0))
        if "average_exec_per_sec" in st:
            agg["exec_per_s"].append(st["average_exec_per_sec"])
        if p.rc == 0:
            return []
        c = classify(txt, p.target)
        if c is None:
            self.inconclusive.append(f"{p.tag}: exit code {p.rc} without a recognisable report (see {p.log})")
            return []
        m = re.findall(r"Test unit written to (\S+)", txt)
        if not m:
            self.inconclusive.append(f"{p.tag}: crash ({c[1]}) but no artifact was written (see {p.log})")
            return []
        agg["crashes"] += 1
        n_before = len(self.crashes)
        self.record_crash(p.target, "asan", m[-1], c, p.log, phase=p.ftag)
        cr = self.crashes[n_before]
        # decide now whether the campaign may continue behind this crash: only behind known findings and
        # behind timeouts that do not reproduce
        cont = False
        if cr["kind"] in ("timeout", "slow"):
            if not self.confirm_timeout(cr):
                cr["discarded"] = "time budget not exceeded when run alone (machine load)"
                cont = True
        if not cont and known_entry(self.known, cr["signature"]) is not None:
            cont = True
        if not cont or p.restarts >= 20:
            return []
        runs_left = None
        secs_left = None
        if p.runs is not None:
            runs_left = p.runs - execs
            if runs_left < 100:
                return []
        if p.secs is not None:
            secs_left = int(p.secs - (time.time() - p.t0))
            if secs_left < 10:
                return []
        q = self.fuzz_proc(p.target, p.corpus_dir, p.seed + 7919, runs_left, secs_left, p.ftag, p.max_len)
        q.restarts = p.restarts + 1
        return [q]

    # -- evidence ----------------------------------------------------------------------------------------
    def tolerated_counts(self):
        tol = {}
        other = {}
        for f in glob.glob(f"{WORK}/stats/*.json"):
            try:
                d = json.load(open(f))
            except Exception:
                continue
            for k, v in d.get("counts", {}).items():
                if k.startswith("tolerated:"):
                    key = (d.get("target", "?"), k[len("tolerated:"):])
                    tol[key] = tol.get(key, 0) + v
                else:
                    key = f"{d.get('target', '?')}:{k}"
                    other[key] = other.get(key, 0) + v
        return tol, other


def prepare_work():
    for sub in ("corpus", "artifacts", "logs", "stats", "merged", "empty"):
        shutil.rmtree(f"{WORK}/{sub}", ignore_errors=True)
    for sub in ("logs", "stats"):
        os.makedirs(f"{WORK}/{sub}", exist_ok=True)
    for t in TARGETS:
        os.makedirs(f"{WORK}/artifacts/{t}", exist_ok=True)
        os.makedirs(f"{WORK}/merged/{t}", exist_ok=True)
        os.makedirs(f"{WORK}/empty/{t}", exist_ok=True)
        dst = f"{WORK}/corpus/{t}"
        if os.path.isdir(f"{CORPUS}/{t}"):
            shutil.copytree(f"{CORPUS}/{t}", dst)
        else:
            os.makedirs(dst)


def check_bins():
    missing = [f"{BIN[b]}/{t}" for b in BIN for t in TARGETS if not os.access(f"{BIN[b]}/{t}", os.X_OK)]
    return missing


def main():
    t_start = time.time()
    args = sys.argv[1:]
    tier = "quick"
    replay = None
    i = 0
    while i < len(args):
        if args[i] in ("quick", "thorough"):
            tier = args[i]
        elif args[i] == "--replay":
            i += 1
            replay = args[i]
        else:
            print(f"unknown argument {args[i]}")
            return 2
        i += 1
    missing = check_bins()
    if missing:
        print("INCONCLUSIVE: fuzz binaries missing: " + " ".join(missing[:4]))
        return 2
    os.makedirs(WORK, exist_ok=True)
    prepare_work()
    d = Driver(tier)
    ncpu = os.cpu_count() or 4

    if replay is not None:
        return replay_one(d, replay)

    # ---- replay tier ----
    procs = []
    for t in TARGETS:
        files = d.replay_files(t)
        if files:
            for b in ("asan", "rel"):
                procs.append(d.replay_proc(t, b, files))
    run_pool(procs, min(ncpu, 10), d.on_replay_done, hard_timeout=lambda p: 600 + len(p.files) * 30)

    # ---- generated tier ----
    if tier == "quick":
        base_runs = int(os.environ.get("VERIF_FUZZ_RUNS", "5000"))
        procs = []
        for k, (t, (frac, _w)) in enumerate(TARGETS.items()):
            procs.append(d.fuzz_proc(t, f"{WORK}/corpus/{t}", d.seed32 + k, runs=max(100, int(base_runs * frac))))
        for k, t in enumerate(EMPTY_CORPUS_TARGETS):
            procs.append(d.fuzz_proc(t, f"{WORK}/empty/{t}", d.seed32 + 100 + k, runs=max(100, base_runs // 4), tag="fuzz-empty", max_len=4096))
        run_pool(procs, min(ncpu, len(procs)), d.on_fuzz_done, hard_timeout=lambda p: 3600)
    else:
        secs = int(os.environ.get("VERIF_FUZZ_SECS", "600"))
        workers = int(os.environ.get("VERIF_FUZZ_WORKERS", "16"))
        total_w = sum(w for _f, w in TARGETS.values())
        procs = []
        k = 0
        for t, (_f, w) in TARGETS.items():
            n = max(1, round(w * workers / total_w))
            for j in range(n):
                procs.append(d.fuzz_proc(t, f"{WORK}/corpus/{t}", d.seed32 + 1000 * k + j, secs=secs))
            k += 1
        run_pool(procs, len(procs), d.on_fuzz_done, hard_timeout=lambda p: (p.secs or secs) + 600)
        procs = [d.fuzz_proc(t, f"{WORK}/empty/{t}", d.seed32 + 77 + k, secs=max(20, secs // 10), tag="fuzz-empty", max_len=4096) for k, t in enumerate(TARGETS)]
        run_pool(procs, len(procs), d.on_fuzz_done, hard_timeout=lambda p: (p.secs or secs) + 600)
        # re-run every new unit on the optimised build, then merge the interesting ones into work/C10/merged
        procs = []
        for t in TARGETS:
            seeds = set(os.listdir(f"{CORPUS}/{t}")) if os.path.isdir(f"{CORPUS}/{t}") else set()
            new = [f"{WORK}/corpus/{t}/{f}" for f in sorted(os.listdir(f"{WORK}/corpus/{t}")) if f not in seeds]
            new += [f"{WORK}/empty/{t}/{f}" for f in sorted(os.listdir(f"{WORK}/empty/{t}"))]
            d.per_target[t]["new_units_total"] = len(new)
            for i0 in range(0, len(new), 2000):
                procs.append(d.replay_proc(t, "rel", new[i0:i0 + 2000]))
        run_pool(procs, min(ncpu, 10), d.on_replay_done, hard_timeout=lambda p: 600 + len(p.files) * 30)
        procs = []
        for t in TARGETS:
            cmd = [f"{BIN['asan']}/{t}", "-merge=1"] + LIMITS + [f"-artifact_prefix={WORK}/artifacts/{t}/merge-", f"{WORK}/merged/{t}", f"{WORK}/corpus/{t}", f"{WORK}/empty/{t}"]
            p = Proc(f"merge-{t}", cmd, d.log_path(f"merge-{t}"), env_for(), WORK)
            p.target, p.kind = t, "merge"
            procs.append(p)

        def on_merge_done(p):
            d.per_target[p.target]["merged_units"] = len(os.listdir(f"{WORK}/merged/{p.target}"))
            if p.rc != 0:
                d.notes.append(f"merge of {p.target} ended with exit code {p.rc} (see {p.log})")
        run_pool(procs, min(ncpu, 9), on_merge_done, hard_timeout=lambda p: 3600)

    return finish(d, t_start)


def judge(d):
    """Split crashes into known / violations (timeouts are confirmed first). Returns (known_obs, violations)."""
    known_obs = {}
    violations = {}
    for cr in d.crashes:
        if cr.get("discarded"):
            continue
        if cr["kind"] in ("timeout", "slow") and "confirm" not in cr:
            if not d.confirm_timeout(cr):
                cr["discarded"] = "time budget not exceeded when run alone (machine load)"
                d.notes.append(f"slow input {cr['input']} not reproduced alone: {cr['confirm']}")
                continue
        e = known_entry(d.known, cr["signature"])
        if e is not None:
            k = known_obs.setdefault(cr["signature"], {"entry": e, "n": 0})
            k["n"] += 1
        else:
            violations.setdefault(cr["signature"], []).append(cr)
    return known_obs, violations


def save_violation(cr):
    tdir = f"{REPLAYS}/{cr['target']}"
    if os.path.dirname(cr["input"]) == tdir:
        return cr["input"]
    os.makedirs(tdir, exist_ok=True)
    dst = f"{tdir}/last-{cr['sha1'][:16]}.bin"
    try:
        shutil.copyfile(cr["input"], dst)
    except OSError as e:
        print(f"cannot save {dst}: {e}")
    return dst


def finish(d, t_start):
    known_obs, violations = judge(d)
    tol, other_counts = d.tolerated_counts()
    for (target, sig), n in tol.items():
        e = known_entry(d.known, sig)
        k = known_obs.setdefault(sig, {"entry": e or {"what": "(entry vanished)"}, "n": 0})
        k["n"] += n
    known_obs = registered_names(known_obs)
    for sig, k in sorted(known_obs.items()):
        print(f"KNOWN-FINDING: property=C10 {sig} — {k['entry'].get('what', '')[:400]} (observed {k['n']}x)")
    # samples + distinct count from the work corpora
    samples = []
    distinct = 0
    for t in TARGETS:
        pt = d.per_target[t]
        corp = 0
        for tag in ("fuzz", "fuzz-empty"):
            if tag in pt:
                eps = pt[tag].pop("exec_per_s", [])
                pt[tag]["exec_per_s_avg"] = round(sum(eps) / len(eps), 1) if eps else 0
                corp += pt[tag].get("corp", 0)
        pt["corpus_units_with_new_features"] = corp
        distinct += corp
        cdir = f"{WORK}/corpus/{t}"
        seeds = set(os.listdir(f"{CORPUS}/{t}")) if os.path.isdir(f"{CORPUS}/{t}") else set()
        names = sorted(os.listdir(cdir)) if os.path.isdir(cdir) else []
        new = [n for n in names if n not in seeds]
        pt["seed_units"] = len(seeds)
        pt["new_units_on_disk"] = len(new)
        for n in (new[:2] + [x for x in names if x in seeds][:1]):
            b = open(f"{cdir}/{n}", "rb").read()
            samples.append({"target": t, "file": n, "origin": "new" if n in new else "seed", "size": len(b), "sha1": sha1(b), "head_hex": b[:24].hex()})
    if distinct == 0:
        # replay-only situations: distinct inputs executed
        distinct = len({sha1(open(f, "rb").read()) for t in TARGETS for f in d.replay_files(t)})
    evaluations = d.replay_execs + d.fuzz_execs
    viol_list = []
    first_paths = []
    for sig, crs in sorted(violations.items()):
        cr = crs[0]
        path = save_violation(cr)
        first_paths.append(path)
        viol_list.append({"signature": sig, "target": cr["target"], "build": cr["build"], "replay": path, "what": cr["what"], "count": len(crs), "phase": cr["phase"], "confirm": cr.get("confirm")})
    ev = {
        "property_id": "C10",
        "tier": d.tier,
        "seed": d.seed_full,
        "level": "exploration",
        "coverage": {
            "evaluations": int(evaluations),
            "distinct_nontrivial": int(distinct),
            "rule": ("Inputs: coverage-guided mutation (libFuzzer, ASan build with debug assertions and overflow checks, -len_control=0, -max_len=1 MiB, "
                     f"time budget per input in user CPU seconds measured in-target: {CPU_LIMIT['rel']} s on the optimised build, {CPU_LIMIT['asan']} s on the ASan build, candidates re-run alone; wall-clock alarm {WALL} s, -rss_limit_mb=1024, -malloc_limit_mb=256) of a seed corpus of minimised fixtures, synthesised containers of 16 kinds "
                     "(plain / fake store / real signed store / signed), bare manifest stores, sidecars, builder and ingredient archives, through nine in-process "
                     "targets (fuzz_read under all format hints, fuzz_store, fuzz_sidecar, fuzz_ingredient, fuzz_archive, fuzz_write, structure-aware fuzz_struct, "
                     "fuzz_store_mut with the C02 oracle, fuzz_store_rt with the C18 oracle), fresh Context per input (no network, 1 MB decompression limit). "
                     "Every corpus and regression file is also executed by a plain optimised build. evaluations = executed units reported by libFuzzer "
                     "(stat::number_of_executed_units) + files replayed on both builds. Non-trivial / distinct = units libFuzzer kept in its corpus because they "
                     "covered new features (corp count of the final status line, summed over targets); an input counts as failing on a panic, an ASan report, "
                     "exceeding the per-input CPU-time budget, an allocation over the malloc limit or RSS over the limit."),
            "samples": samples[:24],
            "per_target": d.per_target,
            "known_panics_tolerated": [{"target": t, "signature": s, "count": n} for (t, s), n in sorted(tol.items())],
            "known_findings_observed": [{"signature": s, "observed": k["n"]} for s, k in sorted(known_obs.items())],
            "target_counters": other_counts,
            "replayed_files": d.replay_execs,
            "fuzz_executions": d.fuzz_execs,
            "violations": viol_list,
            "discarded_timeouts": [{"input": c["input"], "confirm": c.get("confirm")} for c in d.crashes if c.get("discarded")],
            "notes": d.notes,
            "inconclusive": d.inconclusive,
        },
        "assumptions": [
            "libFuzzer/ASan detect what they detect: panics (hook + abort), memory errors, stack overflow (SEGV), time-outs and allocation limits; silent logic errors are out of scope except for the two in-target oracles",
            "the ASan build is compiled with cfg(fuzzing) (checksum verification of png/miniz/zip is off so that mutation gets past CRCs); the optimised build is compiled without it",
            "per-input limits: 10 s, 1024 MB RSS, 256 MB single allocation for inputs <= 1 MiB and a 1 MB decompression limit",
            "exploration only: absence of crashes in the explored set proves nothing about unexplored inputs",
        ],
        "wall_s": round(time.time() - t_start, 1),
        "violations": len(viol_list),
    }
    os.makedirs(f"{ROOT}/evidence", exist_ok=True)
    with open(f"{ROOT}/evidence/C10.json", "w") as f:
        json.dump(ev, f, indent=1)
    if os.environ.get("VERIF_FUZZ_KEEP", "0") != "1":
        # keep the work area small: only the logs stay (failing inputs were copied to replays/C10 above)
        for sub in ("corpus", "artifacts", "stats", "merged", "empty"):
            shutil.rmtree(f"{WORK}/{sub}", ignore_errors=True)
    print(f"C10 {d.tier}: evaluations={evaluations} distinct_nontrivial={distinct} violations={len(viol_list)} known={len(known_obs)} wall={ev['wall_s']}s")
    for v in viol_list:
        print(f"  violation {v['signature']} [{v['target']}, {v['build']} build, {v['phase']}]: {v['what'][:300]}")
        print(f"VIOLATION property=C10 replay={v['replay']}")
    if viol_list:
        return 1
    if d.inconclusive:
        for w in d.inconclusive:
            print(f"INCONCLUSIVE: {w}")
        return 2
    return 0


def replay_one(d, path):
    path = os.path.abspath(path)
    target = os.path.basename(os.path.dirname(path))
    if target not in TARGETS:
        print(f"cannot infer the fuzz target from {path} (parent directory must be one of {', '.join(TARGETS)})")
        return 2
    if not os.path.isfile(path):
        print(f"no such file {path}")
        return 2
    procs = [d.replay_proc(target, b, [path], strict=True) for b in ("asan", "rel")]
    run_pool(procs, 2, d.on_replay_done, hard_timeout=lambda p: 600)
    known_obs, violations = judge(d)
    known_obs = registered_names(known_obs)
    for sig, k in sorted(known_obs.items()):
        print(f"KNOWN-FINDING: property=C10 {sig} — {k['entry'].get('what', '')[:400]} (observed {k['n']}x)")
    for sig, crs in sorted(violations.items()):
        for cr in crs:
            print(f"  violation {sig} [{cr['target']}, {cr['build']} build]: {cr['what'][:400]}")
        print(f"VIOLATION property=C10 replay={path}")
    if not d.crashes:
        print(f"C10 replay {path}: no failure on either build")
    if violations:
        return 1
    if d.inconclusive:
        for w in d.inconclusive:
            print(f"INCONCLUSIVE: {w}")
        return 2
    return 0


if __name__ == "__main__":
    sys.exit(main())
