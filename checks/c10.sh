#!/bin/bash
# C10 — untrusted input never crashes, hangs or exhausts memory: coverage-guided fuzzing (cargo-fuzz / libFuzzer).
#   c10.sh <quick|thorough> [--replay <file>]
# 1. builds the fuzz targets of /verif/harness/fuzz twice against /repo's current working tree:
#      debug assertions + overflow checks + AddressSanitizer   -> $TGT/fuzz
#      plain optimised build (no debug assertions, no sanitizer) -> $TGT/fuzz-rel
# 2. hands over to c10_run.py (replay tier, generated tier, classification, evidence).
# exit 0 held / KNOWN-FINDING only; 1 + "VIOLATION property=C10 replay=<path>"; 2 inconclusive (e.g. build failure).
# Environment: VERIF_SEED, VERIF_FUZZ_SECS (thorough: seconds per worker, default 600), VERIF_FUZZ_WORKERS (default 16),
#   VERIF_FUZZ_RUNS (quick: runs per target, default 5000), VERIF_FUZZ_NOBUILD=1 (skip step 1),
#   VERIF_FUZZ_KEEP=1 (keep work/C10/{corpus,merged,artifacts} after the run; default: only logs are kept),
#   VERIF_ROOT_DIR (default /verif: known_findings.json, corpus, replays, evidence, work),
#   VERIF_HARNESS_DIR (default /verif/harness), VERIF_FUZZ_TARGET_DIR (default /verif/target).
set -u
TIER="${1:-quick}"; [ $# -gt 0 ] && shift
HERE="$(cd "$(dirname "$0")" && pwd)"
HARNESS="${VERIF_HARNESS_DIR:-/verif/harness}"
TGT="${VERIF_FUZZ_TARGET_DIR:-/verif/target}"
export VERIF_FUZZ_TARGET_DIR="$TGT"
export CARGO_NET_OFFLINE=true
mkdir -p "$TGT"

build() { # <name> <target-dir> <extra cargo-fuzz flags…>
  local name="$1" dir="$2"; shift 2
  local log="$TGT/build-c10-$name.log"
  ( cd "$HARNESS" && RUSTFLAGS="--cfg contentauth_c2pa_rs_verif" \
      cargo +nightly fuzz build --fuzz-dir fuzz --target-dir "$dir" "$@" ) >"$log" 2>&1
  local rc=$?
  if [ $rc -ne 0 ]; then echo "BUILD FAILED for C10 ($name, see $log)"; tail -40 "$log"; fi
  return $rc
}

if [ "${VERIF_FUZZ_NOBUILD:-0}" != "1" ]; then
  [ -f "$HARNESS/fuzz/Cargo.lock" ] || cp "$HARNESS/Cargo.lock" "$HARNESS/fuzz/Cargo.lock"
  # the two builds use different target directories, so they can run side by side
  build asan "$TGT/fuzz" & p1=$!
  build rel "$TGT/fuzz-rel" -O -s none --no-cfg-fuzzing & p2=$!
  wait $p1; r1=$?
  wait $p2; r2=$?
  if [ $r1 -ne 0 ] || [ $r2 -ne 0 ]; then
    echo "INCONCLUSIVE: fuzz build failed"
    exit 2
  fi
fi
exec python3 "$HERE/c10_run.py" "$TIER" "$@"
