#!/usr/bin/env python3
"""Prints a markdown summary of known_findings.json (for DESIGN.md §13.2)."""
import json
d = json.load(open('/verif/known_findings.json'))
fx = [e for e in d['findings'] if e['status'] == 'fixed']
op = [e for e in d['findings'] if e['status'] == 'open']
print("#### Fixed in /repo (one `fix:` commit per defect)\n")
print("| property | signature | commit | what failed |\n|---|---|---|---|")
for e in sorted(fx, key=lambda e: (e['property'], e['signature'])):
    print(f"| {e['property']} | `{e['signature']}` | {e.get('commit','')} | {e['what'][:220].replace('|','/')} |")
print("\n#### Open known findings\n")
print("| property | signature | what fails |\n|---|---|---|")
for e in sorted(op, key=lambda e: (e['property'], e['signature'])):
    print(f"| {e['property']} | `{e['signature']}` | {e['what'][:260].replace('|','/')} |")
