#!/bin/bash
# confirm_mutant.sh <seeded dir> <lib test filter...> — independent confirmation in the scratch worktree /tmp/brk-C13:
# demo passes without the patch, fails with it, and the touched modules' existing tests still pass with it.
D="$1"; shift
W=${CONFIRM_WT:-/tmp/brk-C13}
cd $W || exit 2
git checkout -q -- . ; rm -f sdk/tests/demo_verif.rs
# pick the newest base commit the patch applies to
for base in $(git -C /repo rev-parse HEAD) 7f9f60f92 3957fafb8; do
  git checkout -q --detach $base 2>/dev/null || continue
  if git apply --check "$D/patch.diff" 2>/dev/null; then echo "base $base" > "$D/confirm_base.txt"; break; fi
done
cp "$D/demo.rs" sdk/tests/demo_verif.rs
F="--features ${CONFIRM_FEATURES:-file_io,fetch_remote_manifests}"
cargo test --offline -p c2pa $F --test demo_verif > "$D/confirm_without.txt" 2>&1; r1=$?
git apply "$D/patch.diff" || { echo "patch does not apply"; exit 2; }
# one build for both: the lib unit tests of the touched modules and the demo (the filter matches no demo test name, so
# the demo target is run a second time without filter below, from the same build)
cargo test --offline -p c2pa $F --no-fail-fast --lib --test demo_verif --no-run > "$D/confirm_build_with.txt" 2>&1
cargo test --offline -p c2pa $F --test demo_verif > "$D/confirm_with.txt" 2>&1; r2=$?
cargo test --offline -p c2pa $F --lib -- "$@" > "$D/confirm_tests_with.txt" 2>&1; r3=$?
git checkout -q -- . ; rm -f sdk/tests/demo_verif.rs
echo "$(basename $D): demo_without_exit=$r1 demo_with_exit=$r2 module_tests_with_exit=$r3 $(grep -h 'test result' $D/confirm_tests_with.txt | tail -1)"
