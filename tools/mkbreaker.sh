#!/bin/bash
# mkbreaker.sh <ID> [suffix] — creates the scratch worktree /tmp/brk-<ID><suffix> and writes the prompt to /verif/target/brk-prompt-<ID><suffix>.txt
ID="$1"; SUF="${2:-}"; WT=/tmp/brk-$ID$SUF
git -C /repo worktree add --detach $WT HEAD >/dev/null 2>&1 || { echo "worktree failed"; exit 1; }
mkdir -p $WT/out
/verif/tools/breaker_prompt.py $ID $WT > /verif/target/brk-prompt-$ID$SUF.txt
echo "$WT ready"
