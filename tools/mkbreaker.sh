#!/bin/bash
# mkbreaker.sh <ID> — creates the scratch worktree /tmp/brk-<ID> (+ pre-seeded target) and prints the prompt
ID="$1"; WT=/tmp/brk-$ID
git -C /repo worktree add --detach $WT HEAD >/dev/null 2>&1 || { echo "worktree failed"; exit 1; }
mkdir -p $WT/target/debug $WT/out
# dependencies only (registry crates); workspace crates rebuild in the new path
rsync -a /repo/target/debug/deps /repo/target/debug/build /repo/target/debug/.fingerprint $WT/target/debug/ 2>/dev/null
cp /repo/target/CACHEDIR.TAG $WT/target/ 2>/dev/null
/verif/tools/breaker_prompt.py $ID $WT
