#!/usr/bin/env python3
"""Collects mutlane results (target/lane-*.log) into seeded/RESULTS.md and per-mutant meta 'detected' fields."""
import re, glob, json, os
rows = {}
for f in sorted(glob.glob('/verif/target/lane-*.log')):
    txt = open(f, errors='replace').read()
    # split per mutlane summary line, remember preceding lines
    chunks = re.split(r'(mutlane: patch=\S+ check=\S+ tier=\S+ exit=\d+)', txt)
    for i in range(1, len(chunks), 2):
        m = re.match(r'mutlane: patch=(\S+) check=(\S+) tier=(\S+) exit=(\d+)', chunks[i])
        patch, check, tier, rc = m.groups()
        body = chunks[i-1]
        sigs = sorted(set(re.findall(r'violation (\S+?):? ', body)))
        rows[(patch, check)] = (tier, int(rc), sigs)
out = ["| change | check | tier | exit | violation signatures |", "|---|---|---|---|---|"]
for (patch, check), (tier, rc, sigs) in sorted(rows.items()):
    name = patch.replace('/verif/seeded/', '').replace('/verif/', '').replace('/patch.diff', '')
    out.append(f"| {name} | {check} | {tier} | {rc} | {', '.join(sigs)[:200]} |")
open('/verif/seeded/RESULTS.md', 'w').write("\n".join(out) + "\n")
print("\n".join(out))
