#!/usr/bin/env python3
"""Collects mutlane results (target/lane-*.log) into seeded/RESULTS.md and per-mutant meta 'detected' fields."""
import re, glob, json, os
rows = {}
def _num(f):
    m = re.search(r'(\d+)\.log$', f)
    return int(m.group(1)) if m else 0
# batches are numbered in launch order
for f in sorted(glob.glob('/verif/target/lane-*.log'), key=_num):
    txt = open(f, errors='replace').read()
    # split per mutlane summary line, remember preceding lines
    chunks = re.split(r'(mutlane: patch=\S+ check=\S+ tier=\S+ exit=\d+)', txt)
    for i in range(1, len(chunks), 2):
        m = re.match(r'mutlane: patch=(\S+) check=(\S+) tier=(\S+) exit=(\d+)', chunks[i])
        patch, check, tier, rc = m.groups()
        if '/verif/seeded/' not in patch:
            continue  # trial runs of repair patches, not seeded changes
        body = chunks[i-1]
        sigs = sorted(set(re.findall(r'violation (\S+?):? ', body)))
        rows.setdefault((patch, check), []).append((tier, int(rc), sigs))
out = ["| change | check | runs (exit codes in order; 1 = detected, 0 = missed, 2 = inconclusive) | violation signatures of the last run |", "|---|---|---|---|"]
for (patch, check), hist in sorted(rows.items()):
    name = patch.replace('/verif/seeded/', '').replace('/verif/', '').replace('/patch.diff', '')
    codes = " → ".join(str(h[1]) for h in hist)
    out.append(f"| {name} | {check} | {codes} | {', '.join(hist[-1][2])[:200]} |")
open('/verif/seeded/RESULTS.md', 'w').write("\n".join(out) + "\n")
print("\n".join(out))
