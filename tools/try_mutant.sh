#!/bin/bash
# try_mutant.sh <patch.diff> <ID> [tier] [seed] — applies a seeded change to /repo itself, runs one check, and reverts
# /repo straight afterwards (git checkout -- .). Evidence/replays of the run go to a scratch root so /verif's committed
# evidence is untouched. Log: /verif/target/try-<name>-<ID>.log. One job at a time (flock).
set -u
PATCH="$(readlink -f "$1")"; ID="$2"; TIER="${3:-quick}"; SEED="${4:-1}"
exec 9>/verif/target/.try.lock; flock 9
[ -z "$(git -C /repo status --porcelain --untracked-files=no)" ] || { echo "/repo not clean"; exit 2; }
name="$(basename "$(dirname "$PATCH")")"; log=/verif/target/try-$name-$ID.log
root=/verif/work/try-root; rm -rf $root; mkdir -p $root/evidence
cp /verif/known_findings.json $root/; rsync -a --exclude 'last-*' /verif/replays $root/ 2>/dev/null
git -C /repo apply "$PATCH" || { echo "PATCH DOES NOT APPLY"; exit 2; }
trap 'git -C /repo checkout -q -- .' EXIT
cd /verif
VERIF_ROOT_DIR=$root VERIF_SEED=$SEED ./check $ID $TIER > $log 2>&1; rc=$?
echo "try: patch=$PATCH check=$ID tier=$TIER seed=$SEED exit=$rc $(grep VIOLATION $log | sed 's/ replay=.*//' | sort -u | tr '\n' ' ' | cut -c1-300)"
exit $rc
