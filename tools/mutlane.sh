#!/bin/bash
# mutlane.sh <patch.diff|none> <ID> [tier]  — run one check against a scratch copy of /repo carrying a patch.
# Isolated lane: repo copy /scratch/mut/repo (git worktree of /repo), harness copy /scratch/mut/harness,
# target /scratch/mut/target, verif root /scratch/mut/root (evidence/replays go there, never to /verif).
set -u
L="${MUTLANE_DIR:-/scratch/mut}"
exec 9>$L/.lock; flock 9   # one job per lane at a time
PATCH="$1"; ID="$2"; TIER="${3:-quick}"

bin="$(echo "$ID" | tr 'A-Z' 'a-z')"
cd $L/repo || exit 2
git checkout -q -- . && git clean -fdq -- sdk c2pa_c_ffi cli >/dev/null 2>&1
git checkout -q --detach "$(git -C /repo rev-parse HEAD)" || exit 2
if [ "$PATCH" != "none" ]; then git apply "$PATCH" || { echo "PATCH DOES NOT APPLY"; exit 2; }; fi
mkdir -p $L/harness $L/root
rsync -a --delete --exclude target /verif/harness/ $L/harness/
sed -i "s#/repo/#$L/repo/#g" $L/harness/Cargo.toml
sed -i "s#/verif/target#$L/target#" $L/harness/.cargo/config.toml
rm -rf $L/root/replays $L/root/evidence; mkdir -p $L/root/evidence
cp /verif/known_findings.json $L/root/
rsync -a --exclude 'last-*' /verif/replays $L/root/ 2>/dev/null
if [ "$ID" = "C10" ]; then
  # fuzzing check: its own driver builds the fuzz targets of the harness copy against the lane's repository copy
  sed -i "s#/repo/#$L/repo/#g" $L/harness/fuzz/Cargo.toml
  rsync -a /verif/corpus $L/root/ 2>/dev/null
  VERIF_HARNESS_DIR=$L/harness VERIF_FUZZ_TARGET_DIR=$L/target VERIF_ROOT_DIR=$L/root VERIF_REPO_DIR=$L/repo /verif/checks/c10.sh "$TIER"
  rc=$?
  echo "mutlane: patch=$PATCH check=$ID tier=$TIER exit=$rc"
  exit $rc
fi
cd $L/harness
if ! CARGO_NET_OFFLINE=true cargo build --profile verif --bin "$bin" > $L/build-$bin.log 2>&1; then echo "BUILD FAILED"; tail -20 $L/build-$bin.log; exit 2; fi
VERIF_ROOT_DIR=$L/root VERIF_REPO_DIR=$L/repo $L/target/verif/$bin "$TIER"
rc=$?
echo "mutlane: patch=$PATCH check=$ID tier=$TIER exit=$rc"
exit $rc
