#!/usr/bin/env python3
"""add_known.py <ID> <signature> <what>  — registers an OPEN known finding (idempotent, file-locked)."""
import json, sys, fcntl
pid, sig, what = sys.argv[1], sys.argv[2], sys.argv[3]
p = "/verif/known_findings.json"
with open(p, "r+") as f:
    fcntl.flock(f, fcntl.LOCK_EX)
    d = json.load(f)
    for e in d["findings"]:
        if e.get("property") == pid and e.get("signature") == sig:
            e["what"] = what
            break
    else:
        d["findings"].append({"property": pid, "signature": sig, "status": "open", "what": what})
    f.seek(0); f.truncate()
    json.dump(d, f, indent=1)
print("ok")
