#!/bin/bash
# confirm_unit.sh <seeded dir> <worktree> <src file rel> <test filter> — confirmation for demos that are unit tests to be
# pasted at the end of a module's `tests` block (crate-private functions): demo passes without the patch, fails with it.
D="$1"; W="$2"; SRC="$3"; FIL="$4"
cd $W || exit 2; git checkout -q -- .
ins() { python3 - "$W/$SRC" "$D/demo.rs" <<'PY'
import sys
src, demo = sys.argv[1], sys.argv[2]
s = open(src).read().rstrip()
assert s.endswith('}')
open(src, 'w').write(s[:-1] + open(demo).read() + "\n}\n")
PY
}
ins; cargo test --offline -p c2pa --lib -- "$FIL" > "$D/confirm_without.txt" 2>&1; r1=$?
git checkout -q -- .; git apply "$D/patch.diff" || exit 2; ins
cargo test --offline -p c2pa --lib -- "$FIL" > "$D/confirm_with.txt" 2>&1; r2=$?
git checkout -q -- .; git apply "$D/patch.diff"
cargo test --offline -p c2pa --lib -- jumbf::labels:: claim:: > "$D/confirm_tests_with.txt" 2>&1; r3=$?
git checkout -q -- .
echo "$(basename $D): demo_without_exit=$r1 demo_with_exit=$r2 module_tests_with_exit=$r3 $(grep -h 'test result' $D/confirm_tests_with.txt | tail -1)"
