#!/usr/bin/env python3
"""mark_fixed.py <ID> <signature> <commit> [<what>] — turn an entry into a 'fixed' record (or add one)."""
import json, sys, fcntl
pid, sig, commit = sys.argv[1:4]
what = sys.argv[4] if len(sys.argv) > 4 else None
p = "/verif/known_findings.json"
with open(p, "r+") as f:
    fcntl.flock(f, fcntl.LOCK_EX)
    d = json.load(f)
    for e in d["findings"]:
        if e.get("property") == pid and e.get("signature") == sig:
            break
    else:
        e = {"property": pid, "signature": sig, "what": what or ""}
        d["findings"].append(e)
    if what:
        e["what"] = what
    e["status"] = "fixed"
    e["commit"] = commit
    e["line"] = f"fixed: property={pid} {commit} {e['what']}"
    f.seek(0); f.truncate()
    json.dump(d, f, indent=1)
print("ok")
