#!/usr/bin/env python3
"""Regenerates /verif/MANIFEST.json from tools/checks.json (one entry per claimed property) and
properties.jsonl (every property without an entry is listed under not_applicable with the reason given
in tools/not_claimed.json, or a default)."""
import json, os, subprocess, sys
root = "/verif"
props = [json.loads(l) for l in open(f"{root}/properties.jsonl")]
checks = json.load(open(f"{root}/tools/checks.json"))
import glob
for f in sorted(glob.glob(f"{root}/tools/checks.d/*.json")):
    checks.update(json.load(open(f)))
notc = json.load(open(f"{root}/tools/not_claimed.json")) if os.path.exists(f"{root}/tools/not_claimed.json") else {}
hooks_commits = json.load(open(f"{root}/tools/hook_commits.json"))
ready = set(open(f"{root}/tools/ready.txt").read().split())
out_checks, na = [], []
for p in props:
    pid = p["id"]
    c = checks.get(pid)
    have = os.path.exists(f"{root}/harness/src/bin/{pid.lower()}.rs") or os.path.exists(f"{root}/checks/{pid.lower()}.sh")
    if c and have and pid in ready:
        e = {
            "property_id": pid,
            "quick_cmd": f"./check {pid} quick",
            "thorough_cmd": f"./check {pid} thorough",
            "evidence_file": f"/verif/evidence/{pid}.json",
            "replay_cmd_template": f"./check {pid} quick --replay {{path}}",
            "engine": c.get("engine", "verif-harness"),
            "level_claimed": {"category": c["level"], "text": c["text"], "design_ref": f"DESIGN.md §6 {pid}"},
            "level_note": c["note"],
            "technique": c["technique"],
        }
        out_checks.append(e)
    else:
        na.append({"property_id": pid, "reason": notc.get(pid, "no check built yet in this framework (planned in DESIGN.md §6); not claimed")})
m = {
    "version": 1,
    "setup_cmd": "cd /verif && ./setup.sh",
    "hooks": {
        "guard": "contentauth_c2pa_rs_verif",
        "enable": "RUSTFLAGS='--cfg contentauth_c2pa_rs_verif' (set in /verif/harness/.cargo/config.toml [build] rustflags); harness depends on /repo/sdk and /repo/c2pa_c_ffi by path",
        "baseline_off_cmd": "cd /repo && cargo nextest run --workspace --no-fail-fast --tool-config-file pb:/w/lib/nextest.toml --profile pb --test-threads 8 --offline",
        "source_commits": hooks_commits,
        "add_only": True,
    },
    "engines": [
        {"name": "verif-harness", "path": "/verif/harness", "serves_properties": [c["property_id"] for c in out_checks if c["engine"] == "verif-harness"],
         "kind_free_text": "Rust crate: one binary per property on a shared core (proptest value trees with shrinking driven by a seeded runner, exhaustive enumerators, reference models/oracles, evidence + replay writer)"},
        {"name": "cargo-fuzz", "path": "/verif/harness/fuzz", "serves_properties": [c["property_id"] for c in out_checks if c["engine"] == "cargo-fuzz"],
         "kind_free_text": "cargo-fuzz 0.13 / libFuzzer project (nightly, AddressSanitizer + a plain optimised build) with nine in-process targets, driven by /verif/checks/c10.sh + c10_run.py (replay tier, seed-pinned campaigns, crash classification against known findings, evidence writer)"},
    ],
    "checks": out_checks,
    "not_applicable": na,
    "notes": "Every check: ./check <ID> quick|thorough [--replay file]; rebuilds its binary from /repo's working tree with the hooks cfg on. Known findings: /verif/known_findings.json. Seeds: VERIF_SEED (0/absent = fixed default).",
}
json.dump(m, open(f"{root}/MANIFEST.json", "w"), indent=1)
print("checks:", len(out_checks), "not claimed:", len(na))
