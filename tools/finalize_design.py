#!/usr/bin/env python3
"""Regenerates the generated parts of DESIGN.md (§13.4 table from seeded/RESULTS.md)."""
import subprocess, re
subprocess.run(['/verif/tools/sens_table.py'], capture_output=True)
tab = open('/verif/seeded/RESULTS.md').read()
p = '/verif/DESIGN.md'
s = open(p).read()
s = re.sub(r'<!-- SENS-TABLE-BEGIN -->.*?<!-- SENS-TABLE-END -->', '<!-- SENS-TABLE-BEGIN -->\nAll lane runs (generated):\n\n' + tab + '\n<!-- SENS-TABLE-END -->', s, flags=re.S)
open(p, 'w').write(s)
print("ok")
