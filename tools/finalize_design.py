#!/usr/bin/env python3
"""Regenerates the generated parts of DESIGN.md (§13.4 table from seeded/RESULTS.md)."""
import subprocess, re
subprocess.run(['/verif/tools/sens_table.py'], capture_output=True)
tab = open('/verif/seeded/RESULTS.md').read()
p = '/verif/DESIGN.md'
s = open(p).read()
s = re.sub(r'<!-- SENS-TABLE-BEGIN -->.*?<!-- SENS-TABLE-END -->', '<!-- SENS-TABLE-BEGIN -->\nAll lane runs (generated):\n\n' + tab + '\n<!-- SENS-TABLE-END -->', s, flags=re.S)

def sweep(path):
    d = {}
    try:
        for l in open(path):
            m = re.match(r'(C\d+) seed=(\d+) tier=(\w+) exit=(\d+) secs=(\d+) (\d+) known', l)
            if m and m.group(4) == '0':
                d[m.group(1)] = (int(m.group(5)), int(m.group(6)), m.group(2))
    except FileNotFoundError:
        pass
    return d
import glob, os
q = {}
for f in sorted(glob.glob('/verif/target/sweep-seed*.log'), key=os.path.getmtime):
    q.update(sweep(f))
t = sweep('/verif/target/sweep-thorough.log')
rows = ["| check | quick s (seed) | known | thorough s (seed) |", "|---|---|---|---|"]
for i in range(1, 41):
    c = f"C{i:02d}"
    if c == "C10":
        continue
    a = q.get(c); b = t.get(c)
    rows.append(f"| {c} | {a[0] if a else '-'} ({a[2] if a else '-'}) | {a[1] if a else '-'} | {b[0] if b else '-'} ({b[2] if b else '-'}) |")
tq = sum(v[0] for v in q.values()); tt = sum(v[0] for v in t.values())
rows.append(f"| sum | {tq} |  | {tt} |")
s = re.sub(r'<!-- COST-TABLE-BEGIN -->.*?<!-- COST-TABLE-END -->', '<!-- COST-TABLE-BEGIN -->\n' + "\n".join(rows) + '\n<!-- COST-TABLE-END -->', s, flags=re.S)
open(p, 'w').write(s)
print("ok")
