#!/usr/bin/env python3
"""Runs the repository's baseline (guard OFF) and checks that every stable_pass test of BASELINE.json passed.
usage: baseline_check.py [--no-run]   (uses /repo/target/nextest/pb/junit.xml)"""
import json, subprocess, sys, xml.etree.ElementTree as ET
if "--no-run" not in sys.argv:
    subprocess.run("cd /repo && cargo nextest run --workspace --no-fail-fast --tool-config-file pb:/w/lib/nextest.toml --profile pb --test-threads 8 --offline > /verif/target/baseline-run.log 2>&1", shell=True)
sp = set(json.load(open('/root/.vp/BASELINE.json'))['stable_pass'])
t = ET.parse('/repo/target/nextest/pb/junit.xml')
passed, failed = set(), set()
for ts in t.getroot().iter('testsuite'):
    suite = ts.get('name')
    for tc in ts.iter('testcase'):
        name = f"{suite}::{tc.get('name')}"
        bad = any(c.tag in ('failure', 'error') for c in tc)
        (failed if bad else passed).add(name)
missing = sorted(s for s in sp if s not in passed)
print(f"passed={len(passed)} failed={len(failed)} stable_pass={len(sp)} stable_pass_not_passed={len(missing)}")
for m in missing[:40]:
    print("  NOT PASSED:", m, "(failed)" if m in failed else "(not run)")
sys.exit(1 if missing else 0)
