#!/bin/bash
# sweep.sh <seed> [tier] — runs every accepted check once, prints id, exit code and wall time.
SEED="${1:-1}"; TIER="${2:-quick}"
cd /verif
for id in $(cat tools/ready.txt); do
  s=$(date +%s)
  VERIF_SEED=$SEED ./check $id $TIER > /verif/target/sweep-$id.log 2>&1; rc=$?
  e=$(date +%s)
  echo "$id seed=$SEED tier=$TIER exit=$rc secs=$((e-s)) $(grep -c KNOWN-FINDING /verif/target/sweep-$id.log) known $(grep -m1 VIOLATION /verif/target/sweep-$id.log | cut -c1-120)"
done
