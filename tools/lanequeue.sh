#!/bin/bash
# lanequeue.sh <lane dir> <log> <jobs file>   — jobs file: one "<patch> <ID> [tier]" per line, run in order in that lane
L="$1"; LOG="$2"; JOBS="$3"
while read -r patch id tier; do
  [ -z "$patch" ] && continue
  s=$(date +%s)
  MUTLANE_DIR=$L /verif/tools/mutlane.sh "$patch" "$id" "${tier:-quick}" 2>&1 | tail -4 | cut -c1-260 >> "$LOG"
  echo "  (lane $L, $(( $(date +%s)-s )) s)" >> "$LOG"
done < "$JOBS"
echo "QUEUE DONE" >> "$LOG"
