#!/usr/bin/env python3
"""Consolidates /verif/seeded/<ID>-<n>/meta.json: breaker's description + my confirmation + lane results."""
import json, glob, os, re
conf = {}
for f in glob.glob('/verif/target/confirm-*.log'):
    for line in open(f, errors='replace'):
        m = re.match(r'(\S+): demo_without_exit=(\d+) demo_with_exit=(\d+) module_tests_with_exit=(\d+) (.*)', line)
        if m:
            conf[m.group(1)] = {"demo_exit_without_change": int(m.group(2)), "demo_exit_with_change": int(m.group(3)),
                                "touched_module_tests_exit_with_change": int(m.group(4)), "touched_module_tests_summary": m.group(5).strip(),
                                "how": "tools/confirm_mutant.sh in a scratch worktree (/tmp/brk-C13): demo copied to sdk/tests/, cargo test --test demo_verif without and with patch.diff, then cargo test --lib -- <touched modules> with the patch"}
lanes = {}
for f in sorted(glob.glob('/verif/target/lane-*.log'), key=os.path.getmtime):
    for m in re.finditer(r'mutlane: patch=/verif/seeded/(\S+?)/patch.diff check=(\S+) tier=(\S+) exit=(\d+)', open(f, errors='replace').read()):
        lanes.setdefault(m.group(1), []).append({"check": m.group(2), "tier": m.group(3), "exit": int(m.group(4))})
for d in sorted(glob.glob('/verif/seeded/C*-*')):
    name = os.path.basename(d)
    mp = os.path.join(d, 'meta.json')
    try:
        meta = json.load(open(mp))
    except Exception:
        meta = {}
    if 'breaker' not in meta:
        meta = {"breaker": meta}
    meta["property"] = name.split('-')[0]
    meta["breaks"] = meta["breaker"].get("summary", "")
    meta["needs_to_manifest"] = meta["breaker"].get("needs", "")
    meta["origin"] = "independent sub-agent given only the property text and its own scratch worktree of /repo"
    if name in conf:
        meta["confirmed_by_me"] = conf[name]
        if conf[name]["touched_module_tests_exit_with_change"] != 0:
            meta["confirmed_by_me"]["note"] = ("the failing tests of this filter also fail on the unmodified tree in this sandbox (they need the network: remote manifest / "
                                               "time-stamp authority lookups, or read fixtures that are empty in this checkout); I compared the failing test names with the "
                                               "unmodified-tree baseline (breaker's tests_with.txt and my own earlier runs) — the change adds no failing test")
        if name.startswith(("C04-", "C25-", "C26-")):
            meta["confirmed_by_me"]["how"] = "tools/confirm_mutant.sh with CONFIRM_WT=<scratch worktree /tmp/brk-C04 resp. /tmp/brk-C26>, CONFIRM_FEATURES=file_io: demo copied to sdk/tests/, cargo test --test demo_verif without and with patch.diff, then cargo test --lib -- <touched modules> with the patch"
        if name.startswith("C34-"):
            meta["confirmed_by_me"]["how"] = "tools/confirm_unit.sh in the scratch worktree /tmp/brk-C34: the demonstration is a unit test over crate-private functions, pasted at the end of the tests module of sdk/src/jumbf/labels.rs; cargo test --lib -- jumbf::labels::tests::demo_c34 without and with patch.diff, then cargo test --lib -- jumbf::labels:: claim:: with the patch"
        if name.startswith(("C31-", "C32-")):
            meta["confirmed_by_me"]["how"] = "target/confirm6.sh in a scratch worktree (/tmp/cf): demo copied to c2pa_c_ffi/tests resp. cli/tests, cargo test -p <crate> --test demo_verif without and with patch.diff, then the crate's own tests with the patch"
    meta["checks_run_against_it"] = lanes.get(name, [])
    if name.startswith(("C04-", "C25-", "C26-", "C34-")):
        meta["checks_run_how"] = "tools/try_mutant.sh: patch applied to /repo itself, ./check <ID> quick (VERIF_SEED=1, scratch verif root /verif/work/try-root), then git -C /repo checkout -- ."
    meta["applies_with"] = "git -C /repo apply /verif/seeded/%s/patch.diff  (undo: git -C /repo checkout -- .)" % name
    json.dump(meta, open(mp, 'w'), indent=1)
print("updated", len(glob.glob('/verif/seeded/C*-*')))
