#!/usr/bin/env python3
"""breaker_prompt.py <ID> <worktree> — prints the prompt for an independent 'breaker' sub-agent (property text only)."""
import json, sys
pid, wt = sys.argv[1], sys.argv[2]
p = next(json.loads(l) for l in open('/verif/properties.jsonl') if json.loads(l)['id'] == pid)
cgu = 100 + int(pid[1:]); pidl = pid.lower()
print(f"""You are testing how well a verification suite detects regressions in the Rust SDK contentauth/c2pa-rs. You work ONLY inside your own scratch git worktree of the repository at {wt} (already created; ALWAYS run cargo with the environment variable `CARGO_TARGET_DIR=/tmp/brk-target` — a shared target directory pre-seeded with compiled dependencies, so builds are incremental; other agents use it too, so cargo may wait for its lock, which is normal; always pass `--offline`; the machine has no network). Do not read or write anything under /verif or /repo, and do not look for existing verification tooling — your change must be independent of it.

The property of the SDK under study:

  Title: {p['title']}
  Statement: {p['statement']}
  Scope: {p['quantifier']['text']}
  Code involved (starting points): {', '.join(p['anchors']['files'])}

Your job: produce TWO different, realistic code changes (as a maintainer might introduce by mistake during a refactor, an optimisation or a feature addition — not sabotage that is obvious at a glance) to the SDK sources in your worktree, each of which BREAKS the property above while (a) the crate still compiles without new warnings-as-errors, and (b) the existing test suite still passes. Prefer changes that need something specific to manifest — an unusual input, a particular size or boundary, a multi-step sequence of operations, a particular configuration, an error/fault at a particular point, or two cooperating sites that each look fine alone — rather than ones that ordinary use would expose at once. Keep each change small (a few lines to a few dozen lines) and confined to the library code (no test edits, no Cargo changes).

For EACH of the two changes deliver, in a directory {wt}/out/<n>/ (n = 1, 2):
  1. `patch.diff` — `git diff` of the change against the worktree's HEAD (apply one change at a time: reset the tree with `git checkout -- .` between them).
  2. A demonstration: a new Rust integration test file `demo.rs` (to be dropped into `sdk/tests/`; keep a copy in out/<n>/) or a small example program, using only the SDK's public API (fixtures are in sdk/tests/fixtures), that PASSES on the unmodified tree and FAILS with your change applied. Run it both ways and keep the two outputs as `demo_without.txt` / `demo_with.txt`.
  3. Evidence that existing tests still pass WITH the change: at least run the unit/integration tests of the modules you touched and closely related ones, e.g. `cargo test --offline -p c2pa --lib <module_path>` and any relevant `--test` targets (and `-p c2patool` / `-p c2pa-c-ffi` if you touched those crates); save the summary lines as `tests_with.txt`. (The full workspace suite takes ~15 minutes; run it if you can afford it — `cargo test --offline -p c2pa --lib` alone is ~5 minutes — otherwise say exactly what you ran. Some tests need the network and fail on the unmodified tree too: compare against the unmodified tree before blaming your change.)
  4. `meta.json`: {{"property": "{pid}", "summary": "...what the change does...", "needs": "...what specific input/sequence/configuration makes it manifest...", "files": [...], "ran": ["commands you ran"]}}.

IMPORTANT about the shared target directory: the `c2pa` artifacts of different worktrees collide there (same artifact hash), so (1) give your builds their own artifact hash by adding `--config profile.dev.package.c2pa.codegen-units={cgu} --config profile.test.package.c2pa.codegen-units={cgu}` to EVERY cargo command, and (2) name your demo test files uniquely when you run them (`sdk/tests/demo_{pidl}_1.rs`, `demo_{pidl}_2.rs`; the copies you deliver are still called demo.rs). Never kill processes you did not start (no pkill by name).

Build hints: first build in the worktree with `cd {wt} && CARGO_TARGET_DIR=/tmp/brk-target cargo build --offline -p c2pa` (incremental thanks to the pre-seeded target dir; if cargo insists on rebuilding everything, let it — about 6–8 minutes). Feature flags: tests for file-based APIs need `--features file_io`. Other agents share this 16-core machine: run at most one cargo command at a time.

Finish with a short report: for each change, what it breaks, why the existing tests do not notice, and how the demonstration triggers it.""")
