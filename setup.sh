#!/bin/bash
# Builds everything the checks need, offline, from files on disk (harness + /repo with the hooks cfg on).
# Each check rebuilds incrementally by itself afterwards; this only pre-warms the three build trees.
set -e
export CARGO_NET_OFFLINE=true
mkdir -p /verif/target
# 1. one binary per property (+ shared lib)
( cd /verif/harness && cargo build --profile verif --bins 2>&1 | tail -3 )
# 2. c2patool for C32 (plain build, no hooks cfg; invoked from /repo so the harness cargo config is not picked up)
( cd /repo && env -u RUSTFLAGS cargo build --offline -p c2patool --manifest-path /repo/Cargo.toml --target-dir /verif/target/c2patool 2>&1 | tail -2 ) || echo "c2patool pre-build failed (C32 will retry)"
# 3. fuzz targets for C10: ASan + debug assertions, and a plain optimised build
[ -f /verif/harness/fuzz/Cargo.lock ] || cp /verif/harness/Cargo.lock /verif/harness/fuzz/Cargo.lock
( cd /verif/harness && RUSTFLAGS="--cfg contentauth_c2pa_rs_verif" cargo +nightly fuzz build --fuzz-dir fuzz --target-dir /verif/target/fuzz 2>&1 | tail -2 ) &
( cd /verif/harness && RUSTFLAGS="--cfg contentauth_c2pa_rs_verif" cargo +nightly fuzz build --fuzz-dir fuzz --target-dir /verif/target/fuzz-rel -O -s none --no-cfg-fuzzing 2>&1 | tail -2 ) &
wait
echo "setup done"
