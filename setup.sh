#!/bin/bash
# Builds every check binary offline from files on disk (harness + /repo with hooks on).
set -e
export CARGO_NET_OFFLINE=true
cd /verif/harness
cargo build --profile verif --bins 2>&1 | tail -5
