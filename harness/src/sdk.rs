//! Thin helpers over the public c2pa API shared by many checks: fixtures, signers, contexts,
//! sign/read wrappers, verdict tuples and report normalisation.

use std::io::Cursor;

use c2pa::{
    create_signer, validation_results::ValidationState, Builder, BuilderIntent, Context, DigitalSourceType,
    Reader, Signer, SigningAlg,
};
use serde_json::{json, Value};

pub const FIXTURES: &str = "/repo/sdk/tests/fixtures";

/// Root of the repository under test (`/repo`; `VERIF_REPO_DIR` overrides it for scratch-copy sensitivity runs).
pub fn repo_dir() -> String {
    std::env::var("VERIF_REPO_DIR").unwrap_or_else(|_| "/repo".to_string())
}

/// Cargo target dir for binaries built from the repository itself (c2patool): per repository root.
pub fn repo_target_dir() -> String {
    match std::env::var("VERIF_REPO_DIR") {
        Ok(d) => format!("{d}/../c2patool-target"),
        Err(_) => "/verif/target/c2patool".to_string(),
    }
}

pub fn fixture(name: &str) -> Vec<u8> {
    std::fs::read(format!("{FIXTURES}/{name}")).unwrap_or_else(|e| panic!("fixture {name}: {e}"))
}

pub const ALGS: [&str; 7] = ["ed25519", "es256", "es384", "es512", "ps256", "ps384", "ps512"];

pub fn signing_alg(name: &str) -> SigningAlg {
    match name {
        "es256" => SigningAlg::Es256,
        "es384" => SigningAlg::Es384,
        "es512" => SigningAlg::Es512,
        "ps256" => SigningAlg::Ps256,
        "ps384" => SigningAlg::Ps384,
        "ps512" => SigningAlg::Ps512,
        "ed25519" => SigningAlg::Ed25519,
        other => panic!("unknown alg {other}"),
    }
}

/// (certificate chain PEM, private key PEM) of the repository's test credential for `alg`.
pub fn credential(alg: &str) -> (Vec<u8>, Vec<u8>) {
    (
        fixture(&format!("certs/{alg}.pub")),
        fixture(&format!("certs/{alg}.pem")),
    )
}

/// Fixture signer without a time-stamp authority.
pub fn signer(alg: &str) -> Box<dyn Signer + Send + Sync> {
    let (c, k) = credential(alg);
    create_signer::from_keys(&c, &k, signing_alg(alg), None).expect("fixture signer")
}

/// PEM bundle of the test roots (anchors for "Trusted").
pub fn test_anchors() -> String {
    String::from_utf8(fixture("certs/trust/test_cert_root_bundle.pem")).unwrap()
}

/// Settings JSON with the fixture roots as trust anchors and network fetches off.
pub fn base_settings(trusted: bool) -> Value {
    let mut v = json!({
        "verify": { "remote_manifest_fetch": false, "ocsp_fetch": false },
        "builder": { "thumbnail": { "enabled": false } }
    });
    if trusted {
        v["trust"] = json!({ "trust_anchors": test_anchors() });
    }
    v
}

/// Recursive JSON merge (objects key-wise, everything else replaces).
pub fn merge(base: &mut Value, over: &Value) {
    match (base, over) {
        (Value::Object(b), Value::Object(o)) => {
            for (k, v) in o {
                merge(b.entry(k.clone()).or_insert(Value::Null), v);
            }
        }
        (b, o) => *b = o.clone(),
    }
}

pub fn context_with(settings: &Value) -> Context {
    Context::new()
        .with_settings(settings.to_string())
        .unwrap_or_else(|e| panic!("settings rejected: {e}"))
}

/// Default test context: fixture anchors trusted, no network.
pub fn context() -> Context {
    context_with(&base_settings(true))
}

/// Minimal v2 definition with a title and a Create intent handled by the caller.
pub fn simple_definition(title: &str) -> Value {
    json!({
        "title": title,
        "claim_generator_info": [{ "name": "verif-harness", "version": "0.1" }],
        "assertions": [
            { "label": "org.verif.note", "data": { "note": "hello", "n": 1 } }
        ]
    })
}

/// Sign `src` (format = mime or extension) with `definition`, returning the signed asset bytes.
pub fn sign_with(
    ctx: Context,
    definition: &Value,
    intent: Option<BuilderIntent>,
    signer: &dyn Signer,
    format: &str,
    src: &[u8],
) -> c2pa::Result<Vec<u8>> {
    let mut b = Builder::from_context(ctx).with_definition(definition.to_string())?;
    if let Some(i) = intent {
        b.set_intent(i);
    }
    let mut s = Cursor::new(src.to_vec());
    let mut d = Cursor::new(Vec::new());
    b.sign(signer, format, &mut s, &mut d)?;
    Ok(d.into_inner())
}

/// Sign with the default context, a Create intent and the ed25519 fixture signer.
pub fn sign_simple(format: &str, src: &[u8], title: &str) -> c2pa::Result<Vec<u8>> {
    sign_with(
        context(),
        &simple_definition(title),
        Some(BuilderIntent::Create(DigitalSourceType::Empty)),
        signer("ed25519").as_ref(),
        format,
        src,
    )
}

pub fn read_with(ctx: Context, format: &str, bytes: &[u8]) -> c2pa::Result<Reader> {
    Reader::from_context(ctx).with_stream(format, Cursor::new(bytes.to_vec()))
}

pub fn read(format: &str, bytes: &[u8]) -> c2pa::Result<Reader> {
    read_with(context(), format, bytes)
}

pub fn state_rank(s: ValidationState) -> u8 {
    match s {
        ValidationState::Invalid => 0,
        ValidationState::Valid => 1,
        ValidationState::Trusted => 2,
    }
}

pub fn state_name(s: ValidationState) -> &'static str {
    match s {
        ValidationState::Invalid => "Invalid",
        ValidationState::Valid => "Valid",
        ValidationState::Trusted => "Trusted",
    }
}

/// (state, sorted list of "kind:code:url") — the verdict tuple of DESIGN §4.7.
#[derive(Clone, Debug, PartialEq, Eq, Hash, serde::Serialize, serde::Deserialize)]
pub struct Verdict {
    pub state: String,
    pub codes: Vec<String>,
}

pub fn verdict(r: &Reader) -> Verdict {
    let mut codes = vec![];
    if let Some(res) = r.validation_results() {
        let mut add = |prefix: &str, sc: &c2pa::validation_results::StatusCodes| {
            for s in sc.success() {
                codes.push(format!("{prefix}S:{}:{}", s.code(), s.url().unwrap_or("")));
            }
            for s in sc.informational() {
                codes.push(format!("{prefix}I:{}:{}", s.code(), s.url().unwrap_or("")));
            }
            for s in sc.failure() {
                codes.push(format!("{prefix}F:{}:{}", s.code(), s.url().unwrap_or("")));
            }
        };
        if let Some(a) = res.active_manifest() {
            add("", a);
        }
        if let Some(d) = res.ingredient_deltas() {
            for idv in d {
                add(&format!("[{}]", idv.ingredient_assertion_uri()), idv.validation_deltas());
            }
        }
    }
    codes.sort();
    Verdict {
        state: state_name(r.validation_state()).to_string(),
        codes,
    }
}

/// Failure codes only (active manifest + deltas), sorted.
pub fn failure_codes(r: &Reader) -> Vec<String> {
    let mut v = vec![];
    if let Some(res) = r.validation_results() {
        if let Some(a) = res.active_manifest() {
            v.extend(a.failure().iter().map(|s| s.code().to_string()));
        }
        if let Some(d) = res.ingredient_deltas() {
            for idv in d {
                v.extend(idv.validation_deltas().failure().iter().map(|s| s.code().to_string()));
            }
        }
    }
    v.sort();
    v
}

pub fn is_valid_or_trusted(r: &Reader) -> bool {
    state_rank(r.validation_state()) >= 1
}

/// Report of a reader as JSON with only the validation time removed ("same-bytes" mode: two reads of
/// the same store must agree on everything else).
pub fn report_same_bytes(r: &Reader) -> Value {
    let mut v: Value = serde_json::from_str(&r.json()).unwrap_or(Value::Null);
    strip_keys(&mut v, &["validation_time", "validationTime"]);
    let mut d: Value = serde_json::from_str(&r.detailed_json()).unwrap_or(Value::Null);
    strip_keys(&mut d, &["validation_time", "validationTime"]);
    json!({ "json": v, "detailed": d })
}

pub fn strip_keys(v: &mut Value, keys: &[&str]) {
    match v {
        Value::Object(m) => {
            for k in keys {
                m.remove(*k);
            }
            for (_, x) in m.iter_mut() {
                strip_keys(x, keys);
            }
        }
        Value::Array(a) => {
            for x in a {
                strip_keys(x, keys);
            }
        }
        _ => {}
    }
}

/// "Cross-run" normalisation: manifest URNs renamed M0, M1 … in order of first appearance, instance ids,
/// times, salts/hashes/signature-dependent values blanked. For comparing two *different signing runs*.
pub fn report_cross_run(r: &Reader) -> Value {
    let txt = r.json();
    let mut v: Value = serde_json::from_str(&txt).unwrap_or(Value::Null);
    // Collect manifest URNs in a deterministic order: the active manifest first, then a depth-first walk over
    // `ingredients[].active_manifest`, then whatever is left sorted by label. (`json()` serialises the manifests
    // from a HashMap, so "order of first appearance in the text" would differ between two reads.)
    let mut urns: Vec<String> = vec![];
    {
        let manifests = v["manifests"].as_object().cloned().unwrap_or_default();
        let mut stack: Vec<String> = vec![];
        if let Some(a) = v["active_manifest"].as_str() {
            stack.push(a.to_string());
        }
        while let Some(l) = stack.pop() {
            if urns.contains(&l) {
                continue;
            }
            urns.push(l.clone());
            if let Some(ings) = manifests.get(&l).and_then(|m| m["ingredients"].as_array()) {
                for ing in ings.iter().rev() {
                    if let Some(t) = ing["active_manifest"].as_str() {
                        stack.push(t.to_string());
                    }
                }
            }
        }
        let mut rest: Vec<String> = manifests.keys().filter(|k| !urns.contains(k)).cloned().collect();
        rest.sort();
        urns.extend(rest);
    }
    // any other urn:c2pa:/urn:uuid: strings (not manifest labels) in order of appearance
    let mut i = 0;
    let bytes = txt.as_bytes();
    while i < bytes.len() {
        if txt.is_char_boundary(i) && (txt[i..].starts_with("urn:c2pa:") || txt[i..].starts_with("urn:uuid:")) {
            let end = txt[i..]
                .find(|c: char| c == '"' || c == '/' || c == '\\' || c == ' ')
                .map(|e| i + e)
                .unwrap_or(bytes.len());
            let u = txt[i..end].to_string();
            if !urns.contains(&u) {
                urns.push(u);
            }
            i = end;
        } else {
            i += 1;
        }
    }
    // longer first so that prefixes do not clash
    let mut order: Vec<(usize, String)> = urns.iter().cloned().enumerate().collect();
    order.sort_by_key(|(_, u)| std::cmp::Reverse(u.len()));
    fn walk(v: &mut Value, order: &[(usize, String)]) {
        match v {
            Value::String(s) => {
                for (i, u) in order {
                    if s.contains(u.as_str()) {
                        *s = s.replace(u.as_str(), &format!("M{i}"));
                    }
                }
            }
            Value::Array(a) => a.iter_mut().for_each(|x| walk(x, order)),
            Value::Object(m) => {
                let keys: Vec<String> = m.keys().cloned().collect();
                for k in keys {
                    let mut val = m.remove(&k).unwrap();
                    walk(&mut val, order);
                    let mut nk = k.clone();
                    for (i, u) in order {
                        if nk.contains(u.as_str()) {
                            nk = nk.replace(u.as_str(), &format!("M{i}"));
                        }
                    }
                    m.insert(nk, val);
                }
            }
            _ => {}
        }
    }
    walk(&mut v, &order);
    blank_keys(
        &mut v,
        &[
            "instance_id", "instanceID", "instanceId", "time", "when", "validation_time", "hash", "pad", "pad1", "pad2",
            "signature", "serial_number", "validationTime", "salt",
        ],
    );
    v
}

pub fn blank_keys(v: &mut Value, keys: &[&str]) {
    match v {
        Value::Object(m) => {
            for (k, x) in m.iter_mut() {
                if keys.contains(&k.as_str()) {
                    *x = Value::String("<blank>".into());
                } else {
                    blank_keys(x, keys);
                }
            }
        }
        Value::Array(a) => a.iter_mut().for_each(|x| blank_keys(x, keys)),
        _ => {}
    }
}

/// Locate `needle` inside `hay` (first occurrence).
pub fn find_sub(hay: &[u8], needle: &[u8]) -> Option<usize> {
    if needle.is_empty() || needle.len() > hay.len() {
        return None;
    }
    hay.windows(needle.len()).position(|w| w == needle)
}

/// The manifest store bytes embedded in an asset (via the public jumbf_io API).
pub fn store_of(format: &str, asset: &[u8]) -> c2pa::Result<Vec<u8>> {
    c2pa::jumbf_io::load_jumbf_from_memory(format, asset)
}

/// Formats the SDK can write, as (label, extension/mime to pass, small fixture file name).
pub fn writable_fixtures() -> Vec<(&'static str, &'static str, &'static str)> {
    vec![
        ("jpeg", "image/jpeg", "no_manifest.jpg"),
        ("png", "image/png", "libpng-test.png"),
        ("gif", "image/gif", "sample1.gif"),
        ("webp", "image/webp", "test.webp"),
        ("wav", "audio/wav", "sample1.wav"),
        ("avi", "video/avi", "test.avi"),
        ("tiff", "image/tiff", "test.tiff"),
        ("svg", "image/svg+xml", "sample1.svg"),
        ("mp3", "audio/mpeg", "sample1.mp3"),
        ("flac", "audio/flac", "sample1.flac"),
        ("jxl", "image/jxl", "sample1.jxl"),
        ("mp4", "video/mp4", "video1_no_manifest.mp4"),
        ("avif", "image/avif", "sample1.avif"),
        ("heic", "image/heic", "sample1.heic"),
        ("m4a", "audio/mp4", "sample1.m4a"),
        ("c2pa", "application/c2pa", ""),
    ]
}
