//! Stream wrappers for chunking / fault-injection checks (DESIGN §3.5).
//!
//! * [`Chunky`]   — hands out / accepts only `1..=k` bytes per `read` / `write` (piece sizes from a
//!   [`SplitMix64`]); seeks and flushes pass through. Results of a correct caller must not change.
//! * [`Faulty`]   — counts every I/O call and injects exactly one fault (an `io::Error` of a chosen kind,
//!   or a premature `Ok(0)`) at the n-th call (of any kind, or of one kind). With no plan it is a pure
//!   call counter: a dry run tells how many calls the fault-free operation makes.
//! * [`Counting`] — records the op trace (kind, argument, result) into a shared log.
//!
//! All three implement `Read`, `Write`, `Seek` whenever the inner stream does, and are `Send` when the
//! inner stream is. The statistics live behind an `Arc`, so they stay readable after the wrapper has been
//! moved into (and dropped by) the SDK: take a handle with `.stats()` / `.log()` first.

use std::{
    io::{self, Read, Seek, SeekFrom, Write},
    sync::{
        atomic::{AtomicBool, AtomicU64, Ordering},
        Arc, Mutex,
    },
};

use serde::{Deserialize, Serialize};

use crate::rng::SplitMix64;

// ------------------------------------------------------------------------------------------------
// Chunky
// ------------------------------------------------------------------------------------------------

/// Returns / accepts between 1 and `max_piece` bytes per `read` / `write` call.
pub struct Chunky<R> {
    inner: R,
    rng: SplitMix64,
    max_piece: usize,
}

impl<R> Chunky<R> {
    /// Pieces of `1..=max_piece` bytes (`max_piece == 1` ⇒ always exactly one byte), sizes drawn from `seed`.
    pub fn new(inner: R, max_piece: usize, seed: u64) -> Self {
        Chunky { inner, rng: SplitMix64::new(seed), max_piece: max_piece.max(1) }
    }

    /// `max_piece` itself is drawn from `rng` (1..=64, small values favoured); piece sizes from a fork of it.
    pub fn random(inner: R, rng: &mut SplitMix64) -> Self {
        let max_piece = match rng.below(4) {
            0 => 1 + rng.usize(4),
            1 => 1 + rng.usize(16),
            _ => 1 + rng.usize(64),
        };
        Chunky { inner, rng: rng.fork(), max_piece }
    }

    pub fn max_piece(&self) -> usize {
        self.max_piece
    }

    pub fn get_ref(&self) -> &R {
        &self.inner
    }

    pub fn get_mut(&mut self) -> &mut R {
        &mut self.inner
    }

    pub fn into_inner(self) -> R {
        self.inner
    }

    fn piece(&mut self, want: usize) -> usize {
        if want == 0 {
            return 0;
        }
        let cap = want.min(self.max_piece);
        1 + self.rng.usize(cap)
    }
}

impl<R: Read> Read for Chunky<R> {
    fn read(&mut self, buf: &mut [u8]) -> io::Result<usize> {
        let n = self.piece(buf.len());
        self.inner.read(&mut buf[..n])
    }
}

impl<R: Write> Write for Chunky<R> {
    fn write(&mut self, buf: &[u8]) -> io::Result<usize> {
        let n = self.piece(buf.len());
        self.inner.write(&buf[..n])
    }

    fn flush(&mut self) -> io::Result<()> {
        self.inner.flush()
    }
}

impl<R: Seek> Seek for Chunky<R> {
    fn seek(&mut self, pos: SeekFrom) -> io::Result<u64> {
        self.inner.seek(pos)
    }
}

// ------------------------------------------------------------------------------------------------
// Faulty
// ------------------------------------------------------------------------------------------------

#[derive(Clone, Copy, Debug, PartialEq, Eq, Hash, Serialize, Deserialize)]
pub enum OpKind {
    Read,
    Write,
    Seek,
    Flush,
}

impl OpKind {
    pub fn name(self) -> &'static str {
        match self {
            OpKind::Read => "read",
            OpKind::Write => "write",
            OpKind::Seek => "seek",
            OpKind::Flush => "flush",
        }
    }
}

/// What the faulted call returns.
#[derive(Clone, Copy, Debug, PartialEq, Eq, Hash, Serialize, Deserialize)]
pub enum FaultKind {
    Other,
    UnexpectedEof,
    Interrupted,
    WriteZero,
    PermissionDenied,
    BrokenPipe,
    TimedOut,
    InvalidData,
    /// `Ok(0)` from a read (premature end of file) or a write (nothing accepted). Not applicable to
    /// seek / flush: there the call passes through and the fault counts as *not fired*.
    ShortZero,
}

impl FaultKind {
    pub fn name(self) -> &'static str {
        match self {
            FaultKind::Other => "Other",
            FaultKind::UnexpectedEof => "UnexpectedEof",
            FaultKind::Interrupted => "Interrupted",
            FaultKind::WriteZero => "WriteZero",
            FaultKind::PermissionDenied => "PermissionDenied",
            FaultKind::BrokenPipe => "BrokenPipe",
            FaultKind::TimedOut => "TimedOut",
            FaultKind::InvalidData => "InvalidData",
            FaultKind::ShortZero => "ShortZero",
        }
    }

    pub fn io_kind(self) -> Option<io::ErrorKind> {
        Some(match self {
            FaultKind::Other => io::ErrorKind::Other,
            FaultKind::UnexpectedEof => io::ErrorKind::UnexpectedEof,
            FaultKind::Interrupted => io::ErrorKind::Interrupted,
            FaultKind::WriteZero => io::ErrorKind::WriteZero,
            FaultKind::PermissionDenied => io::ErrorKind::PermissionDenied,
            FaultKind::BrokenPipe => io::ErrorKind::BrokenPipe,
            FaultKind::TimedOut => io::ErrorKind::TimedOut,
            FaultKind::InvalidData => io::ErrorKind::InvalidData,
            FaultKind::ShortZero => return None,
        })
    }
}

/// One planned fault.
#[derive(Clone, Copy, Debug, PartialEq, Eq, Hash, Serialize, Deserialize)]
pub struct FaultPlan {
    /// 0-based index of the call to fault, counted over all calls (`only == None`) or over the calls of
    /// one kind (`only == Some(kind)`).
    pub at: u64,
    pub only: Option<OpKind>,
    pub kind: FaultKind,
    /// false: exactly that one call is faulted (a transient fault); true: that call and every later
    /// call of a kind the fault applies to (a device that stays broken / a file that stays truncated).
    pub sticky: bool,
}

impl FaultPlan {
    pub fn nth(at: u64, kind: FaultKind) -> Self {
        FaultPlan { at, only: None, kind, sticky: false }
    }

    pub fn nth_of(at: u64, op: OpKind, kind: FaultKind) -> Self {
        FaultPlan { at, only: Some(op), kind, sticky: false }
    }

    pub fn sticky(mut self) -> Self {
        self.sticky = true;
        self
    }
}

/// Call counters of a [`Faulty`] stream (shared handle).
#[derive(Default, Debug)]
pub struct FaultStats {
    reads: AtomicU64,
    writes: AtomicU64,
    seeks: AtomicU64,
    flushes: AtomicU64,
    fired: AtomicU64,
    /// kind of the first call that was faulted: 0 none, 1 read, 2 write, 3 seek, 4 flush
    fired_on: AtomicU64,
    /// bytes delivered by reads / accepted by writes
    bytes_read: AtomicU64,
    bytes_written: AtomicU64,
    /// some read returned Ok(0) *naturally* (the consumer saw the real end of the stream)
    saw_eof: AtomicBool,
}

impl FaultStats {
    pub fn new_shared() -> Arc<FaultStats> {
        Arc::new(FaultStats::default())
    }

    pub fn reads(&self) -> u64 {
        self.reads.load(Ordering::SeqCst)
    }

    pub fn writes(&self) -> u64 {
        self.writes.load(Ordering::SeqCst)
    }

    pub fn seeks(&self) -> u64 {
        self.seeks.load(Ordering::SeqCst)
    }

    pub fn flushes(&self) -> u64 {
        self.flushes.load(Ordering::SeqCst)
    }

    /// Total number of I/O calls seen so far.
    pub fn ops(&self) -> u64 {
        self.reads() + self.writes() + self.seeks() + self.flushes()
    }

    pub fn count_of(&self, k: OpKind) -> u64 {
        match k {
            OpKind::Read => self.reads(),
            OpKind::Write => self.writes(),
            OpKind::Seek => self.seeks(),
            OpKind::Flush => self.flushes(),
        }
    }

    /// How many calls were actually faulted (0 = the planned call was never reached or not applicable).
    pub fn fired(&self) -> u64 {
        self.fired.load(Ordering::SeqCst)
    }

    /// Kind of the first faulted call.
    pub fn fired_on(&self) -> Option<OpKind> {
        match self.fired_on.load(Ordering::SeqCst) {
            1 => Some(OpKind::Read),
            2 => Some(OpKind::Write),
            3 => Some(OpKind::Seek),
            4 => Some(OpKind::Flush),
            _ => None,
        }
    }

    pub fn bytes_read(&self) -> u64 {
        self.bytes_read.load(Ordering::SeqCst)
    }

    pub fn bytes_written(&self) -> u64 {
        self.bytes_written.load(Ordering::SeqCst)
    }

    pub fn saw_eof(&self) -> bool {
        self.saw_eof.load(Ordering::SeqCst)
    }
}

/// Counts every call and injects the planned fault.
pub struct Faulty<R> {
    inner: R,
    plan: Option<FaultPlan>,
    stats: Arc<FaultStats>,
}

impl<R> Faulty<R> {
    /// Pure counter (dry run): never fails.
    pub fn dry(inner: R) -> Self {
        Faulty { inner, plan: None, stats: Arc::new(FaultStats::default()) }
    }

    pub fn new(inner: R, plan: FaultPlan) -> Self {
        Faulty { inner, plan: Some(plan), stats: Arc::new(FaultStats::default()) }
    }

    pub fn with_plan(inner: R, plan: Option<FaultPlan>) -> Self {
        Faulty { inner, plan, stats: Arc::new(FaultStats::default()) }
    }

    /// Like `with_plan`, counting into a caller-supplied handle (e.g. one that a progress callback also reads).
    pub fn with_stats(inner: R, plan: Option<FaultPlan>, stats: Arc<FaultStats>) -> Self {
        Faulty { inner, plan, stats }
    }

    /// Shared handle on the counters (stays valid after the stream was moved / dropped).
    pub fn stats(&self) -> Arc<FaultStats> {
        self.stats.clone()
    }

    pub fn get_ref(&self) -> &R {
        &self.inner
    }

    pub fn get_mut(&mut self) -> &mut R {
        &mut self.inner
    }

    pub fn into_inner(self) -> R {
        self.inner
    }

    /// Count the call; tell whether it is to be faulted, and how.
    fn tick(&mut self, op: OpKind) -> Option<FaultKind> {
        let all_before = self.stats.ops();
        let ctr = match op {
            OpKind::Read => &self.stats.reads,
            OpKind::Write => &self.stats.writes,
            OpKind::Seek => &self.stats.seeks,
            OpKind::Flush => &self.stats.flushes,
        };
        let kind_before = ctr.fetch_add(1, Ordering::SeqCst);
        let plan = self.plan?;
        let idx = match plan.only {
            None => all_before,
            Some(k) if k == op => kind_before,
            Some(_) => return None,
        };
        let hit = if plan.sticky { idx >= plan.at } else { idx == plan.at };
        if !hit {
            return None;
        }
        if plan.kind == FaultKind::ShortZero && !matches!(op, OpKind::Read | OpKind::Write) {
            return None;
        }
        if self.stats.fired.fetch_add(1, Ordering::SeqCst) == 0 {
            let code = match op {
                OpKind::Read => 1,
                OpKind::Write => 2,
                OpKind::Seek => 3,
                OpKind::Flush => 4,
            };
            self.stats.fired_on.store(code, Ordering::SeqCst);
        }
        Some(plan.kind)
    }
}

fn injected(kind: FaultKind, op: OpKind) -> io::Error {
    io::Error::new(
        kind.io_kind().unwrap_or(io::ErrorKind::Other),
        format!("injected {} fault on {}", kind.name(), op.name()),
    )
}

impl<R: Read> Read for Faulty<R> {
    fn read(&mut self, buf: &mut [u8]) -> io::Result<usize> {
        match self.tick(OpKind::Read) {
            Some(FaultKind::ShortZero) => Ok(0),
            Some(k) => Err(injected(k, OpKind::Read)),
            None => {
                let n = self.inner.read(buf)?;
                if n == 0 && !buf.is_empty() {
                    self.stats.saw_eof.store(true, Ordering::SeqCst);
                }
                self.stats.bytes_read.fetch_add(n as u64, Ordering::SeqCst);
                Ok(n)
            }
        }
    }
}

impl<R: Write> Write for Faulty<R> {
    fn write(&mut self, buf: &[u8]) -> io::Result<usize> {
        match self.tick(OpKind::Write) {
            Some(FaultKind::ShortZero) => Ok(0),
            Some(k) => Err(injected(k, OpKind::Write)),
            None => {
                let n = self.inner.write(buf)?;
                self.stats.bytes_written.fetch_add(n as u64, Ordering::SeqCst);
                Ok(n)
            }
        }
    }

    fn flush(&mut self) -> io::Result<()> {
        match self.tick(OpKind::Flush) {
            Some(k) => Err(injected(k, OpKind::Flush)),
            None => self.inner.flush(),
        }
    }
}

impl<R: Seek> Seek for Faulty<R> {
    fn seek(&mut self, pos: SeekFrom) -> io::Result<u64> {
        match self.tick(OpKind::Seek) {
            Some(k) => Err(injected(k, OpKind::Seek)),
            None => self.inner.seek(pos),
        }
    }
}

// ------------------------------------------------------------------------------------------------
// Counting
// ------------------------------------------------------------------------------------------------

/// One recorded call.
#[derive(Clone, Debug, PartialEq, Eq, Serialize, Deserialize)]
pub struct OpRecord {
    pub op: OpKind,
    /// read/write: requested length; seek: the offset argument (see `whence`); flush: 0
    pub arg: i64,
    /// seek only: 0 Start, 1 Current, 2 End
    pub whence: u8,
    /// Ok: bytes transferred / new position; Err: the error kind's debug name
    pub result: Result<u64, String>,
}

/// Shared op log of a [`Counting`] stream.
#[derive(Default, Debug)]
pub struct OpLog {
    ops: Mutex<Vec<OpRecord>>,
    total: AtomicU64,
    cap: usize,
}

impl OpLog {
    /// Number of calls seen (also beyond the recording cap).
    pub fn len(&self) -> u64 {
        self.total.load(Ordering::SeqCst)
    }

    pub fn is_empty(&self) -> bool {
        self.len() == 0
    }

    /// The recorded trace (at most `cap` first calls).
    pub fn trace(&self) -> Vec<OpRecord> {
        self.ops.lock().unwrap().clone()
    }

    pub fn count_of(&self, k: OpKind) -> usize {
        self.ops.lock().unwrap().iter().filter(|o| o.op == k).count()
    }

    fn push(&self, r: OpRecord) {
        self.total.fetch_add(1, Ordering::SeqCst);
        let mut g = self.ops.lock().unwrap();
        if g.len() < self.cap {
            g.push(r);
        }
    }
}

/// Records the op trace; never changes behaviour.
pub struct Counting<R> {
    inner: R,
    log: Arc<OpLog>,
}

impl<R> Counting<R> {
    /// Records up to one million calls.
    pub fn new(inner: R) -> Self {
        Self::with_cap(inner, 1_000_000)
    }

    pub fn with_cap(inner: R, cap: usize) -> Self {
        Counting { inner, log: Arc::new(OpLog { ops: Mutex::new(vec![]), total: AtomicU64::new(0), cap }) }
    }

    pub fn log(&self) -> Arc<OpLog> {
        self.log.clone()
    }

    pub fn get_ref(&self) -> &R {
        &self.inner
    }

    pub fn get_mut(&mut self) -> &mut R {
        &mut self.inner
    }

    pub fn into_inner(self) -> R {
        self.inner
    }
}

fn res_of<T: Into<u64> + Copy>(r: &io::Result<T>) -> Result<u64, String> {
    match r {
        Ok(n) => Ok((*n).into()),
        Err(e) => Err(format!("{:?}", e.kind())),
    }
}

impl<R: Read> Read for Counting<R> {
    fn read(&mut self, buf: &mut [u8]) -> io::Result<usize> {
        let r = self.inner.read(buf);
        let rr = r.as_ref().map(|n| *n as u64).map_err(|e| format!("{:?}", e.kind()));
        self.log.push(OpRecord { op: OpKind::Read, arg: buf.len() as i64, whence: 0, result: rr });
        r
    }
}

impl<R: Write> Write for Counting<R> {
    fn write(&mut self, buf: &[u8]) -> io::Result<usize> {
        let r = self.inner.write(buf);
        let rr = r.as_ref().map(|n| *n as u64).map_err(|e| format!("{:?}", e.kind()));
        self.log.push(OpRecord { op: OpKind::Write, arg: buf.len() as i64, whence: 0, result: rr });
        r
    }

    fn flush(&mut self) -> io::Result<()> {
        let r = self.inner.flush();
        let rr = r.as_ref().map(|_| 0u64).map_err(|e| format!("{:?}", e.kind()));
        self.log.push(OpRecord { op: OpKind::Flush, arg: 0, whence: 0, result: rr });
        r
    }
}

impl<R: Seek> Seek for Counting<R> {
    fn seek(&mut self, pos: SeekFrom) -> io::Result<u64> {
        let r = self.inner.seek(pos);
        let (arg, whence) = match pos {
            SeekFrom::Start(p) => (p as i64, 0),
            SeekFrom::Current(d) => (d, 1),
            SeekFrom::End(d) => (d, 2),
        };
        self.log.push(OpRecord { op: OpKind::Seek, arg, whence, result: res_of(&r) });
        r
    }
}

#[cfg(test)]
mod tests {
    use std::io::Cursor;

    use super::*;

    #[test]
    fn chunky_roundtrip() {
        let data: Vec<u8> = (0..1000u32).map(|i| i as u8).collect();
        for k in [1usize, 2, 3, 7, 64] {
            let mut c = Chunky::new(Cursor::new(data.clone()), k, 42);
            let mut out = vec![];
            c.read_to_end(&mut out).unwrap();
            assert_eq!(out, data);
            let mut w = Chunky::new(Cursor::new(Vec::new()), k, 43);
            w.write_all(&data).unwrap();
            assert_eq!(w.into_inner().into_inner(), data);
        }
    }

    #[test]
    fn faulty_counts_and_fires() {
        let data = vec![7u8; 100];
        let mut f = Faulty::dry(Cursor::new(data.clone()));
        let st = f.stats();
        let mut b = [0u8; 10];
        f.read(&mut b).unwrap();
        f.seek(SeekFrom::Start(0)).unwrap();
        f.read(&mut b).unwrap();
        assert_eq!((st.ops(), st.reads(), st.seeks(), st.fired()), (3, 2, 1, 0));
        let mut f = Faulty::new(Cursor::new(data.clone()), FaultPlan::nth(1, FaultKind::Other));
        let st = f.stats();
        f.read(&mut b).unwrap();
        assert!(f.seek(SeekFrom::Start(0)).is_err());
        f.read(&mut b).unwrap();
        assert_eq!((st.fired(), st.fired_on()), (1, Some(OpKind::Seek)));
        let mut f = Faulty::new(Cursor::new(data), FaultPlan::nth_of(1, OpKind::Read, FaultKind::ShortZero));
        f.read(&mut b).unwrap();
        f.seek(SeekFrom::Start(0)).unwrap();
        assert_eq!(f.read(&mut b).unwrap(), 0);
        assert_eq!(f.read(&mut b).unwrap(), 10);
    }

    #[test]
    fn counting_trace() {
        let mut c = Counting::new(Cursor::new(vec![1u8; 10]));
        let log = c.log();
        let mut b = [0u8; 4];
        c.read(&mut b).unwrap();
        c.seek(SeekFrom::End(-2)).unwrap();
        c.write(&[1, 2, 3]).unwrap();
        c.flush().unwrap();
        let t = log.trace();
        assert_eq!(t.len(), 4);
        assert_eq!(t[1], OpRecord { op: OpKind::Seek, arg: -2, whence: 2, result: Ok(8) });
        assert_eq!(t[2].result, Ok(3));
    }
}
