//! Sound-by-construction asset synthesisers and byte mutators (DESIGN §3.1, §3.4).
//!
//! Every synthesiser emits a structurally valid asset of one container kind together with its
//! ground-truth structure: named regions in file order (contiguous, covering the file) and, for
//! BMFF / TIFF, the table of absolute offsets stored in the file with the bytes they address.
//! Only structures that the SDK's handler for the format accepts are produced (validated by
//! `toolkit_selftest`); the image / audio payloads are random (nothing in the SDK decodes them
//! when thumbnails are off).
//!
//! Region naming: `"<unit>[<n>].<field>"` (e.g. `IDAT[2].crc`, `APP1[0].len`, `moov/trak[0]/mdia/minf/stbl/stco.data`);
//! everything up to the last `.` names the structural unit, the suffix the field inside it.

use serde::{Deserialize, Serialize};

use crate::rng::SplitMix64;

#[derive(Clone, Debug, PartialEq, Eq, Hash, Serialize, Deserialize)]
pub struct Region {
    pub name: String,
    pub start: usize,
    pub len: usize,
}

impl Region {
    pub fn end(&self) -> usize {
        self.start + self.len
    }
    /// Unit part of the name (up to the last '.').
    pub fn unit(&self) -> &str {
        match self.name.rfind('.') {
            Some(i) => &self.name[..i],
            None => &self.name,
        }
    }
}

/// An absolute file offset stored in the file: `width` bytes at `entry_pos` (big endian for BMFF,
/// file byte order for TIFF) hold `target`; `target_len` bytes at `target` are what it addresses.
#[derive(Clone, Debug, PartialEq, Eq, Hash, Serialize, Deserialize)]
pub struct OffsetRef {
    pub table: String,
    pub entry_pos: usize,
    pub width: u8,
    pub target: usize,
    pub target_len: usize,
}

#[derive(Clone, Debug)]
pub struct Synth {
    /// mime type the SDK accepts
    pub format: &'static str,
    pub ext: &'static str,
    pub bytes: Vec<u8>,
    pub regions: Vec<Region>,
    pub offsets: Vec<OffsetRef>,
    pub desc: String,
}

pub const KINDS: &[&str] = &[
    "jpeg", "png", "gif", "wav", "webp", "avi", "tiff", "svg", "mp3", "flac", "jxl", "mp4", "mov", "heic",
    "avif", "m4a",
];

/// The sidecar kind (a manifest store alone); accepted by `synth` but not part of `KINDS` because it
/// has no media to sign.
pub const SIDECAR: &str = "c2pa";

/// (mime, extension) for a kind.
pub fn kind_format(kind: &str) -> (&'static str, &'static str) {
    match kind {
        "jpeg" => ("image/jpeg", "jpg"),
        "png" => ("image/png", "png"),
        "gif" => ("image/gif", "gif"),
        "wav" => ("audio/wav", "wav"),
        "webp" => ("image/webp", "webp"),
        "avi" => ("video/avi", "avi"),
        "tiff" => ("image/tiff", "tiff"),
        "svg" => ("image/svg+xml", "svg"),
        "mp3" => ("audio/mpeg", "mp3"),
        "flac" => ("audio/flac", "flac"),
        "jxl" => ("image/jxl", "jxl"),
        "mp4" => ("video/mp4", "mp4"),
        "mov" => ("video/quicktime", "mov"),
        "heic" => ("image/heic", "heic"),
        "avif" => ("image/avif", "avif"),
        "m4a" => ("audio/mp4", "m4a"),
        "c2pa" => ("application/c2pa", "c2pa"),
        other => panic!("vh::assets: unknown kind {other}"),
    }
}

/// Random instance of `kind`; payload sizes around `size_hint` bytes (0 ⇒ a default drawn from 300..6000).
pub fn synth(kind: &str, rng: &mut SplitMix64, size_hint: usize) -> Synth {
    let size = if size_hint == 0 { rng.range(300, 6000) as usize } else { size_hint };
    let mut cx = Cx { r: rng, simple: false, size, store: None };
    dispatch(kind, &mut cx)
}

/// The simplest fixed instance of `kind`.
pub fn synth_default(kind: &str) -> Synth {
    let mut rng = SplitMix64::new(0);
    let mut cx = Cx { r: &mut rng, simple: true, size: 256, store: None };
    dispatch(kind, &mut cx)
}

/// Like `synth`, but the asset already carries `store` in the format's manifest container, at a
/// position drawn from the positions the format allows (region unit name `C2PA…`). For BMFF the C2PA
/// `uuid` box takes part in the box-order permutation, so `mdat` may precede it.
/// Supported: jpeg, png, gif, wav, webp, avi, jxl, mp4, mov, heic, avif, m4a, mp3, flac, c2pa
/// (tiff and svg fall back to `synth`, i.e. no store).
pub fn synth_with_store(kind: &str, rng: &mut SplitMix64, size_hint: usize, store: &[u8]) -> Synth {
    let size = if size_hint == 0 { rng.range(300, 6000) as usize } else { size_hint };
    let mut cx = Cx { r: rng, simple: false, size, store: Some(store.to_vec()) };
    dispatch(kind, &mut cx)
}

fn dispatch(kind: &str, cx: &mut Cx) -> Synth {
    let (format, ext) = kind_format(kind);
    let mut w = W::default();
    match kind {
        "jpeg" => gen_jpeg(cx, &mut w),
        "png" => gen_png(cx, &mut w),
        "gif" => gen_gif(cx, &mut w),
        "wav" | "webp" | "avi" => gen_riff(cx, &mut w, kind),
        "tiff" => gen_tiff(cx, &mut w),
        "svg" => gen_svg(cx, &mut w),
        "mp3" => gen_mp3(cx, &mut w),
        "flac" => gen_flac(cx, &mut w),
        "jxl" => gen_jxl(cx, &mut w),
        "mp4" | "mov" | "heic" | "avif" | "m4a" => gen_bmff(cx, &mut w, kind),
        "c2pa" => {
            let s = match &cx.store {
                Some(s) => s.clone(),
                None => {
                    let n = if cx.simple { 64 } else { 38 + cx.size };
                    fake_store(n, cx.r)
                }
            };
            w.put("C2PA.data", &s);
            w.note("sidecar");
        }
        _ => unreachable!(),
    }
    debug_assert!(regions_cover(&w.regions, w.b.len()), "regions of {kind} not contiguous");
    Synth { format, ext, bytes: w.b, regions: w.regions, offsets: w.offsets, desc: format!("{kind}: {}", w.notes.join(", ")) }
}

/// True when `regions` are contiguous, in order and cover `0..len`.
pub fn regions_cover(regions: &[Region], len: usize) -> bool {
    let mut at = 0;
    for r in regions {
        if r.start != at {
            return false;
        }
        at += r.len;
    }
    at == len
}

/// A "well-formed store" for `save_jumbf_to_memory`: a JUMBF superbox whose description box carries the
/// C2PA manifest-store UUID and label, followed by random bytes; the outer length equals `total_len`.
pub fn fake_store(total_len: usize, rng: &mut SplitMix64) -> Vec<u8> {
    assert!(total_len >= 29, "fake_store: total_len must be >= 29");
    let mut v = Vec::with_capacity(total_len.max(38));
    v.extend_from_slice(&(total_len as u32).to_be_bytes());
    v.extend_from_slice(b"jumb");
    let jumd_len = 30usize.min(total_len - 8);
    v.extend_from_slice(&(jumd_len as u32).to_be_bytes());
    v.extend_from_slice(b"jumd");
    v.extend_from_slice(&C2PA_STORE_UUID);
    v.push(0x03);
    v.extend_from_slice(b"c2pa\0");
    if total_len > v.len() {
        let rest = rng.bytes(total_len - v.len());
        v.extend_from_slice(&rest);
    }
    v.truncate(total_len);
    v
}

pub const C2PA_STORE_UUID: [u8; 16] =
    [0x63, 0x32, 0x70, 0x61, 0x00, 0x11, 0x00, 0x10, 0x80, 0x00, 0x00, 0xAA, 0x00, 0x38, 0x9B, 0x71];

pub const BMFF_C2PA_UUID: [u8; 16] =
    [0xd8, 0xfe, 0xc3, 0xd6, 0x1b, 0x0e, 0x48, 0x3c, 0x92, 0x97, 0x58, 0x28, 0x87, 0x7e, 0xc4, 0x81];

pub const BMFF_XMP_UUID: [u8; 16] =
    [0xbe, 0x7a, 0xcf, 0xcb, 0x97, 0xa9, 0x42, 0xe8, 0x9c, 0x71, 0x99, 0x94, 0x91, 0xe3, 0xaf, 0xac];

// ------------------------------------------------------------------------------------------------
// byte mutators (DESIGN §3.4)
// ------------------------------------------------------------------------------------------------

#[derive(Clone, Debug, PartialEq, Eq, Hash, Serialize, Deserialize)]
pub enum Mutation {
    Flip { pos: usize, bit: u8 },
    Set { pos: usize, val: u8 },
    Insert { pos: usize, bytes: Vec<u8> },
    Delete { pos: usize, len: usize },
    Truncate { pos: usize },
    Append { bytes: Vec<u8> },
    /// Insert a copy of `start..start+len` directly after it.
    Duplicate { start: usize, len: usize },
    /// Exchange two non-overlapping spans (a before b).
    Swap { a_start: usize, a_len: usize, b_start: usize, b_len: usize },
}

/// Apply `m`; positions and lengths are clamped to the input (a mutation never panics).
pub fn apply(bytes: &[u8], m: &Mutation) -> Vec<u8> {
    let n = bytes.len();
    let mut v = bytes.to_vec();
    match m {
        Mutation::Flip { pos, bit } => {
            if *pos < n {
                v[*pos] ^= 1 << (bit & 7);
            }
        }
        Mutation::Set { pos, val } => {
            if *pos < n {
                v[*pos] = *val;
            }
        }
        Mutation::Insert { pos, bytes: ins } => {
            let p = (*pos).min(n);
            v.splice(p..p, ins.iter().copied());
        }
        Mutation::Delete { pos, len } => {
            let p = (*pos).min(n);
            let e = p.saturating_add(*len).min(n);
            v.drain(p..e);
        }
        Mutation::Truncate { pos } => v.truncate((*pos).min(n)),
        Mutation::Append { bytes: tail } => v.extend_from_slice(tail),
        Mutation::Duplicate { start, len } => {
            let s = (*start).min(n);
            let e = s.saturating_add(*len).min(n);
            let copy = bytes[s..e].to_vec();
            v.splice(e..e, copy);
        }
        Mutation::Swap { a_start, a_len, b_start, b_len } => {
            let a0 = (*a_start).min(n);
            let a1 = a0.saturating_add(*a_len).min(n);
            let b0 = (*b_start).max(a1).min(n);
            let b1 = b0.saturating_add(*b_len).min(n);
            let mut out = Vec::with_capacity(n);
            out.extend_from_slice(&bytes[..a0]);
            out.extend_from_slice(&bytes[b0..b1]);
            out.extend_from_slice(&bytes[a1..b0]);
            out.extend_from_slice(&bytes[a0..a1]);
            out.extend_from_slice(&bytes[b1..]);
            v = out;
        }
    }
    v
}

/// `(start, len)` of the span of the *original* bytes the mutation touches; pure insertions return
/// the insertion point with `len == 0`. Clamped the same way as `apply`.
pub fn changed_span(m: &Mutation, orig_len: usize) -> (usize, usize) {
    let n = orig_len;
    match m {
        Mutation::Flip { pos, .. } | Mutation::Set { pos, .. } => {
            if *pos < n {
                (*pos, 1)
            } else {
                (n, 0)
            }
        }
        Mutation::Insert { pos, .. } => ((*pos).min(n), 0),
        Mutation::Delete { pos, len } => {
            let p = (*pos).min(n);
            (p, p.saturating_add(*len).min(n) - p)
        }
        Mutation::Truncate { pos } => {
            let p = (*pos).min(n);
            (p, n - p)
        }
        Mutation::Append { .. } => (n, 0),
        Mutation::Duplicate { start, len } => {
            let s = (*start).min(n);
            (s.saturating_add(*len).min(n), 0)
        }
        Mutation::Swap { a_start, a_len, b_start, b_len } => {
            let a0 = (*a_start).min(n);
            let a1 = a0.saturating_add(*a_len).min(n);
            let b0 = (*b_start).max(a1).min(n);
            let b1 = b0.saturating_add(*b_len).min(n);
            (a0, b1 - a0)
        }
    }
}

/// True when the mutation leaves the bytes unchanged (e.g. Set to the same value, empty insert).
pub fn is_noop(bytes: &[u8], m: &Mutation) -> bool {
    apply(bytes, m) == bytes
}

/// Stratified byte positions: every region boundary ±2, every byte of regions of at most 16 bytes
/// (headers, lengths, CRCs), plus `payload_samples` positions sampled from the larger regions.
/// Sorted, de-duplicated, all `< len`.
pub fn stratified_positions(regions: &[Region], len: usize, rng: &mut SplitMix64, payload_samples: usize) -> Vec<usize> {
    let mut v: Vec<usize> = vec![];
    let mut push = |p: i64, v: &mut Vec<usize>| {
        if p >= 0 && (p as usize) < len {
            v.push(p as usize);
        }
    };
    let mut big: Vec<&Region> = vec![];
    for r in regions {
        for d in -2i64..=2 {
            push(r.start as i64 + d, &mut v);
            push(r.end() as i64 + d, &mut v);
        }
        if r.len <= 16 {
            for p in r.start..r.end() {
                push(p as i64, &mut v);
            }
        } else {
            big.push(r);
        }
    }
    if len > 0 {
        for d in 0..3i64 {
            push(d, &mut v);
            push(len as i64 - 1 - d, &mut v);
        }
    }
    if !big.is_empty() {
        for i in 0..payload_samples {
            // round-robin over the large regions so that every one of them is hit
            let r = big[i % big.len()];
            push((r.start + rng.usize(r.len)) as i64, &mut v);
        }
    } else if len > 0 {
        for _ in 0..payload_samples {
            push(rng.usize(len) as i64, &mut v);
        }
    }
    v.sort_unstable();
    v.dedup();
    v
}

/// A random mutation of `bytes` guided by the region map (all eight classes).
pub fn random_mutation(bytes: &[u8], regions: &[Region], rng: &mut SplitMix64) -> Mutation {
    let n = bytes.len().max(1);
    let pos = if !regions.is_empty() && rng.chance(1, 2) {
        let r = rng.pick(regions);
        let d = rng.range(0, 4) as i64 - 2;
        ((if rng.bool() { r.start } else { r.end() }) as i64 + d).clamp(0, n as i64 - 1) as usize
    } else {
        rng.usize(n)
    };
    match rng.below(8) {
        0 => Mutation::Flip { pos, bit: rng.below(8) as u8 },
        1 => {
            let cur = bytes.get(pos).copied().unwrap_or(0);
            let val = *rng.pick(&[0u8, 0xFF, cur.wrapping_add(1), cur.wrapping_sub(1)]);
            Mutation::Set { pos, val }
        }
        2 => {
            let k = rng.range(1, 9) as usize;
            Mutation::Insert { pos, bytes: rng.bytes(k) }
        }
        3 => Mutation::Delete { pos, len: rng.range(1, 9) as usize },
        4 => Mutation::Truncate { pos },
        5 => {
            let k = rng.range(1, 17) as usize;
            Mutation::Append { bytes: rng.bytes(k) }
        }
        6 => {
            if regions.is_empty() {
                Mutation::Duplicate { start: pos, len: rng.range(1, 16) as usize }
            } else {
                let r = rng.pick(regions);
                Mutation::Duplicate { start: r.start, len: r.len }
            }
        }
        _ => {
            if regions.len() >= 2 {
                let i = rng.usize(regions.len() - 1);
                let j = i + 1 + rng.usize(regions.len() - 1 - i);
                let (a, b) = (&regions[i], &regions[j]);
                Mutation::Swap { a_start: a.start, a_len: a.len, b_start: b.start, b_len: b.len }
            } else {
                let a = rng.usize(n);
                Mutation::Swap { a_start: a, a_len: 1, b_start: a + 1 + rng.usize(8), b_len: 1 }
            }
        }
    }
}

// ------------------------------------------------------------------------------------------------
// generator plumbing
// ------------------------------------------------------------------------------------------------

struct Cx<'a> {
    r: &'a mut SplitMix64,
    /// synth_default: every optional knob off, every count minimal
    simple: bool,
    size: usize,
    /// pre-existing manifest store to embed (synth_with_store)
    store: Option<Vec<u8>>,
}

impl Cx<'_> {
    fn chance(&mut self, num: u64, den: u64) -> bool {
        if self.simple {
            false
        } else {
            self.r.chance(num, den)
        }
    }
    /// lo..=hi, `lo` when simple
    fn range(&mut self, lo: usize, hi: usize) -> usize {
        if self.simple || hi <= lo {
            lo
        } else {
            self.r.range(lo as u64, hi as u64) as usize
        }
    }
    fn pick<T: Copy>(&mut self, xs: &[T]) -> T {
        if self.simple {
            xs[0]
        } else {
            xs[self.r.usize(xs.len())]
        }
    }
    fn bytes(&mut self, n: usize) -> Vec<u8> {
        self.r.bytes(n)
    }
    /// payload length around `approx` (half … one and a half), at least `min`
    fn around(&mut self, approx: usize, min: usize) -> usize {
        let a = approx.max(min).max(1);
        if self.simple {
            return a;
        }
        (self.r.range((a / 2) as u64, (a + a / 2) as u64) as usize).max(min)
    }
    fn shuffle<T>(&mut self, v: &mut [T]) {
        if self.simple {
            return;
        }
        for i in (1..v.len()).rev() {
            let j = self.r.usize(i + 1);
            v.swap(i, j);
        }
    }
    fn ascii(&mut self, n: usize) -> Vec<u8> {
        const A: &[u8] = b"abcdefghijklmnopqrstuvwxyz ABCDEFGHIJKLMNOPQRSTUVWXYZ0123456789-_";
        (0..n).map(|_| A[self.r.usize(A.len())]).collect()
    }
    fn xmp(&mut self) -> Vec<u8> {
        let pad = if self.simple { 0 } else { self.r.usize(40) };
        let title = String::from_utf8(self.ascii(8)).unwrap();
        format!(
            "<?xpacket begin=\"\u{feff}\" id=\"W5M0MpCehiHzreSzNTczkc9d\"?><x:xmpmeta xmlns:x=\"adobe:ns:meta/\"><rdf:RDF xmlns:rdf=\"http://www.w3.org/1999/02/22-rdf-syntax-ns#\"><rdf:Description rdf:about=\"\" xmlns:dc=\"http://purl.org/dc/elements/1.1/\" dc:title=\"{title}\"/></rdf:RDF></x:xmpmeta>{}<?xpacket end=\"w\"?>",
            " ".repeat(pad)
        )
        .into_bytes()
    }
}

#[derive(Default)]
struct W {
    b: Vec<u8>,
    regions: Vec<Region>,
    offsets: Vec<OffsetRef>,
    notes: Vec<String>,
    counts: std::collections::BTreeMap<String, usize>,
}

impl W {
    fn pos(&self) -> usize {
        self.b.len()
    }
    fn put(&mut self, name: impl Into<String>, bytes: &[u8]) {
        if bytes.is_empty() {
            return;
        }
        self.regions.push(Region { name: name.into(), start: self.b.len(), len: bytes.len() });
        self.b.extend_from_slice(bytes);
    }
    fn note(&mut self, s: impl Into<String>) {
        self.notes.push(s.into());
    }
    /// `name[n]` with a per-name running counter
    fn unit(&mut self, name: &str) -> String {
        let c = self.counts.entry(name.to_string()).or_insert(0);
        let s = format!("{name}[{c}]");
        *c += 1;
        s
    }
}

fn be16(v: usize) -> [u8; 2] {
    (v as u16).to_be_bytes()
}
fn be32(v: usize) -> [u8; 4] {
    (v as u32).to_be_bytes()
}
fn le32(v: usize) -> [u8; 4] {
    (v as u32).to_le_bytes()
}
fn le16(v: usize) -> [u8; 2] {
    (v as u16).to_le_bytes()
}

// ------------------------------------------------------------------------------------------------
// JPEG
// ------------------------------------------------------------------------------------------------

fn jpeg_seg(w: &mut W, name: &str, marker: u8, data: &[u8]) {
    assert!(data.len() + 2 <= 65535);
    let u = w.unit(name);
    w.put(format!("{u}.marker"), &[0xFF, marker]);
    w.put(format!("{u}.len"), &be16(data.len() + 2));
    w.put(format!("{u}.data"), data);
}

/// APP11 segments carrying `store` the way ISO 19566-5 / C2PA prescribe (what the SDK writes).
fn jpeg_c2pa_segments(w: &mut W, store: &[u8], en: u16, chunk: usize) {
    for (i, part) in store.chunks(chunk).enumerate() {
        let mut d = vec![0x4A, 0x50];
        d.extend_from_slice(&en.to_be_bytes());
        d.extend_from_slice(&((i + 1) as u32).to_be_bytes());
        if i > 0 {
            d.extend_from_slice(&store[..8]);
        }
        d.extend_from_slice(part);
        jpeg_seg(w, "C2PA-APP11", 0xEB, &d);
    }
}

fn entropy(cx: &mut Cx, n: usize, restart: bool) -> Vec<u8> {
    let mut v = Vec::with_capacity(n + n / 64 + 8);
    let mut rst = 0u8;
    let interval = if restart { cx.range(24, 200) } else { usize::MAX };
    let mut since = 0usize;
    let raw = cx.bytes(n);
    for (i, b) in raw.iter().enumerate() {
        // make 0xFF (byte stuffing) reasonably frequent
        let b = if !cx.simple && i % 37 == 5 { 0xFF } else { *b };
        v.push(b);
        if b == 0xFF {
            v.push(0x00);
        }
        since += 1;
        if since >= interval && i + 1 < raw.len() {
            v.push(0xFF);
            v.push(0xD0 + rst);
            rst = (rst + 1) & 7;
            since = 0;
        }
    }
    if v.is_empty() {
        v.push(0x55);
    }
    v
}

fn gen_jpeg(cx: &mut Cx, w: &mut W) {
    w.put("SOI", &[0xFF, 0xD8]);
    // application / comment segments
    #[derive(Clone, Copy, PartialEq)]
    enum A {
        Jfif,
        Jfxx,
        Exif,
        Xmp,
        Icc,
        App13,
        Adobe,
        Com,
        OtherApp11Short,
        OtherApp11Jumbf,
        AppN,
        C2pa,
    }
    let mut apps: Vec<A> = vec![];
    let jfif = cx.simple || cx.chance(3, 4);
    if cx.chance(1, 3) {
        apps.push(A::Exif);
    }
    if cx.chance(1, 3) {
        apps.push(A::Xmp);
    }
    if cx.chance(1, 4) {
        apps.push(A::Icc);
    }
    if cx.chance(1, 6) {
        apps.push(A::App13);
    }
    if cx.chance(1, 6) {
        apps.push(A::Adobe);
    }
    for _ in 0..cx.range(0, 2) {
        apps.push(A::Com);
    }
    if cx.chance(1, 8) {
        apps.push(A::OtherApp11Short);
    }
    if cx.chance(1, 8) {
        apps.push(A::OtherApp11Jumbf);
    }
    if cx.chance(1, 6) {
        apps.push(A::AppN);
    }
    if jfif && cx.chance(1, 6) {
        apps.push(A::Jfxx);
    }
    if cx.store.is_some() {
        apps.push(A::C2pa);
    }
    cx.shuffle(&mut apps);
    if jfif {
        // JFIF first (as the standard demands) except for a small share of files
        if cx.chance(1, 10) && !apps.is_empty() {
            let at = cx.range(0, apps.len());
            apps.insert(at, A::Jfif);
        } else {
            apps.insert(0, A::Jfif);
        }
    }
    let payload = cx.size;
    for a in apps {
        match a {
            A::Jfif => {
                let mut d = b"JFIF\0".to_vec();
                d.extend_from_slice(&[1, cx.pick(&[1u8, 2]), cx.pick(&[0u8, 1, 2]), 0, 72, 0, 72, 0, 0]);
                jpeg_seg(w, "APP0", 0xE0, &d);
            }
            A::Jfxx => {
                let mut d = b"JFXX\0".to_vec();
                d.push(0x10);
                let n = cx.range(0, 40);
                d.extend(cx.bytes(n));
                jpeg_seg(w, "APP0", 0xE0, &d);
            }
            A::Exif => {
                let mut d = b"Exif\0\0".to_vec();
                d.extend_from_slice(b"II*\0\x08\0\0\0\x01\0\x12\x01\x03\0\x01\0\0\0\x01\0\0\0\0\0\0\0");
                let n = cx.range(0, 60);
                d.extend(cx.bytes(n));
                jpeg_seg(w, "APP1", 0xE1, &d);
                w.note("exif");
            }
            A::Xmp => {
                let mut d = b"http://ns.adobe.com/xap/1.0/\0".to_vec();
                d.extend(cx.xmp());
                jpeg_seg(w, "APP1", 0xE1, &d);
                w.note("xmp");
            }
            A::Icc => {
                let mut d = b"ICC_PROFILE\0\x01\x01".to_vec();
                let n = cx.range(16, 200);
                d.extend(cx.bytes(n));
                jpeg_seg(w, "APP2", 0xE2, &d);
            }
            A::App13 => {
                let mut d = b"Photoshop 3.0\08BIM".to_vec();
                let n = cx.range(4, 60);
                d.extend(cx.bytes(n));
                jpeg_seg(w, "APP13", 0xED, &d);
            }
            A::Adobe => {
                jpeg_seg(w, "APP14", 0xEE, b"Adobe\0\x64\0\0\0\0\x01");
            }
            A::Com => {
                let n = cx.range(0, 80);
                let d = cx.ascii(n);
                jpeg_seg(w, "COM", 0xFE, &d);
            }
            A::OtherApp11Short => {
                // APP11 too short to be a JUMBF carrier (the SDK ignores contents of <= 16 bytes)
                let n = cx.range(0, 16);
                let d = cx.bytes(n);
                jpeg_seg(w, "APP11", 0xEB, &d);
                w.note("app11-short");
            }
            A::OtherApp11Jumbf => {
                // a JUMBF box of another type in APP11 (box instance number different from C2PA's)
                let mut d = vec![0x4A, 0x50, 0x00, 0x07, 0, 0, 0, 1];
                let n = cx.range(24, 90);
                let mut bx = be32(8 + 8 + 16 + 1 + n).to_vec();
                bx.extend_from_slice(b"jumb");
                bx.extend_from_slice(&be32(8 + 16 + 1));
                bx.extend_from_slice(b"jumd");
                bx.extend_from_slice(b"xmpjumbf\0\x11\0\x10\x80\0\0\xAA");
                bx.push(0);
                bx.extend(cx.bytes(n));
                d.extend(bx);
                jpeg_seg(w, "APP11", 0xEB, &d);
                w.note("app11-other-jumbf");
            }
            A::AppN => {
                let m = cx.pick(&[0xE3u8, 0xE4, 0xE5, 0xE6, 0xE7, 0xE8, 0xE9, 0xEA, 0xEC, 0xEF]);
                let n = cx.range(0, 50);
                let d = cx.bytes(n);
                jpeg_seg(w, &format!("APP{}", m - 0xE0), m, &d);
            }
            A::C2pa => {
                let store = cx.store.clone().unwrap();
                let chunk = if store.len() > 200 && cx.chance(1, 3) { cx.range(100, store.len() - 1) } else { 64000 };
                jpeg_c2pa_segments(w, &store, 0x0211, chunk);
                w.note("c2pa");
            }
        }
    }
    // tables and frame header; DQT / DHT / DRI / COM in random order, SOF anywhere among them
    let progressive = cx.chance(1, 4);
    let ncomp = cx.pick(&[3usize, 1]);
    let restart = cx.chance(1, 3);
    #[derive(Clone, Copy)]
    enum T {
        Dqt,
        Dht,
        Sof,
        Dri,
        Com,
    }
    let mut tabs = vec![T::Dqt, T::Sof, T::Dht];
    if cx.chance(1, 2) {
        tabs.push(T::Dqt);
    }
    for _ in 0..cx.range(0, 3) {
        tabs.push(T::Dht);
    }
    if restart {
        tabs.push(T::Dri);
    }
    if cx.chance(1, 6) {
        tabs.push(T::Com);
    }
    cx.shuffle(&mut tabs);
    let (iw, ih) = (cx.range(8, 640), cx.range(8, 480));
    for t in tabs {
        match t {
            T::Dqt => {
                let mut d = vec![cx.pick(&[0u8, 1])];
                d.extend((0..64).map(|i| (i as u8 % 60) + 1));
                jpeg_seg(w, "DQT", 0xDB, &d);
            }
            T::Dht => {
                let mut d = vec![cx.pick(&[0x00u8, 0x10, 0x01, 0x11])];
                let counts = [0u8, 1, 5, 1, 1, 1, 1, 1, 1, 0, 0, 0, 0, 0, 0, 0];
                d.extend_from_slice(&counts);
                d.extend(0u8..12);
                jpeg_seg(w, "DHT", 0xC4, &d);
            }
            T::Sof => {
                let mut d = vec![8];
                d.extend_from_slice(&be16(ih));
                d.extend_from_slice(&be16(iw));
                d.push(ncomp as u8);
                for c in 0..ncomp {
                    d.extend_from_slice(&[c as u8 + 1, if c == 0 { 0x22 } else { 0x11 }, if c == 0 { 0 } else { 1 }]);
                }
                jpeg_seg(w, if progressive { "SOF2" } else { "SOF0" }, if progressive { 0xC2 } else { 0xC0 }, &d);
            }
            T::Dri => {
                jpeg_seg(w, "DRI", 0xDD, &be16(cx.range(1, 64)));
            }
            T::Com => {
                let d = cx.ascii(12);
                jpeg_seg(w, "COM", 0xFE, &d);
            }
        }
    }
    let nscans = if progressive { cx.range(2, 4) } else { 1 };
    for s in 0..nscans {
        if s > 0 && cx.chance(1, 2) {
            let mut d = vec![0x10];
            d.extend_from_slice(&[0u8, 2, 1, 1, 0, 0, 0, 0, 0, 0, 0, 0, 0, 0, 0, 0]);
            d.extend(0u8..4);
            jpeg_seg(w, "DHT", 0xC4, &d);
        }
        let nc = if s == 0 { ncomp } else { 1 };
        let mut d = vec![nc as u8];
        for c in 0..nc {
            d.extend_from_slice(&[c as u8 + 1, 0x00]);
        }
        d.extend_from_slice(&if progressive { [s as u8, (s as u8 + 5).min(63), 0] } else { [0, 63, 0] });
        jpeg_seg(w, "SOS", 0xDA, &d);
        let n = cx.around(payload / nscans, 4);
        let e = entropy(cx, n, restart);
        let u = w.unit("scan");
        w.put(format!("{u}.data"), &e);
    }
    if restart {
        w.note("restart");
    }
    if progressive {
        w.note("progressive");
    }
    w.put("EOI", &[0xFF, 0xD9]);
    match cx.range(0, 5) {
        1 => {
            let n = cx.range(1, 64);
            let t = cx.bytes(n);
            w.put("trailing.data", &t);
            w.note("trailing");
        }
        2 => {
            // MPF-style second image appended after EOI
            let mut t = vec![0xFF, 0xD8, 0xFF, 0xDB, 0x00, 0x43, 0x00];
            t.extend((0..64).map(|i| i as u8 + 1));
            t.extend_from_slice(&[0xFF, 0xDA, 0x00, 0x08, 0x01, 0x01, 0x00, 0x00, 0x3F, 0x00]);
            let n = cx.range(4, 120);
            t.extend(entropy(cx, n, false));
            t.extend_from_slice(&[0xFF, 0xD9]);
            w.put("trailing.data", &t);
            w.note("second-image");
        }
        _ => {}
    }
}

// ------------------------------------------------------------------------------------------------
// PNG
// ------------------------------------------------------------------------------------------------

pub fn crc32(bytes: &[u8]) -> u32 {
    let mut c = 0xFFFF_FFFFu32;
    for &b in bytes {
        c ^= b as u32;
        for _ in 0..8 {
            c = if c & 1 != 0 { (c >> 1) ^ 0xEDB8_8320 } else { c >> 1 };
        }
    }
    !c
}

fn adler32(bytes: &[u8]) -> u32 {
    let (mut a, mut b) = (1u32, 0u32);
    for &x in bytes {
        a = (a + x as u32) % 65521;
        b = (b + a) % 65521;
    }
    (b << 16) | a
}

/// zlib stream with stored (uncompressed) deflate blocks
fn zlib_stored(raw: &[u8]) -> Vec<u8> {
    let mut v = vec![0x78, 0x01];
    let mut chunks: Vec<&[u8]> = raw.chunks(65535).collect();
    if chunks.is_empty() {
        chunks.push(&[]);
    }
    let last = chunks.len() - 1;
    for (i, c) in chunks.iter().enumerate() {
        v.push(if i == last { 1 } else { 0 });
        v.extend_from_slice(&(c.len() as u16).to_le_bytes());
        v.extend_from_slice(&(!(c.len() as u16)).to_le_bytes());
        v.extend_from_slice(c);
    }
    v.extend_from_slice(&adler32(raw).to_be_bytes());
    v
}

fn png_chunk(w: &mut W, typ: &[u8; 4], data: &[u8]) {
    let name = String::from_utf8_lossy(typ).to_string();
    let u = if typ == b"caBX" { w.unit("C2PA-caBX") } else { w.unit(&name) };
    w.put(format!("{u}.len"), &be32(data.len()));
    w.put(format!("{u}.type"), typ);
    w.put(format!("{u}.data"), data);
    let mut c = typ.to_vec();
    c.extend_from_slice(data);
    w.put(format!("{u}.crc"), &crc32(&c).to_be_bytes());
}

fn gen_png(cx: &mut Cx, w: &mut W) {
    w.put("signature", &[137, 80, 78, 71, 13, 10, 26, 10]);
    let color_type = cx.pick(&[0u8, 2, 3, 6, 4]);
    let channels = match color_type {
        0 | 3 => 1,
        2 => 3,
        4 => 2,
        _ => 4,
    };
    let width = cx.range(1, 48);
    let height = (cx.size / (width * channels + 1)).max(1);
    let store = cx.store.clone();
    // a pre-existing caBX can sit before IHDR (the SDK handles that layout), right after it, or later
    let cabx_pos = if store.is_some() { cx.range(0, 3) } else { 9 };
    if cabx_pos == 0 {
        png_chunk(w, b"caBX", store.as_ref().unwrap());
        w.note("c2pa-before-IHDR");
    }
    let mut ihdr = be32(width).to_vec();
    ihdr.extend_from_slice(&be32(height));
    ihdr.extend_from_slice(&[8, color_type, 0, 0, 0]);
    png_chunk(w, b"IHDR", &ihdr);
    if cabx_pos == 1 {
        png_chunk(w, b"caBX", store.as_ref().unwrap());
        w.note("c2pa-after-IHDR");
    }
    // ancillary chunks before the image data
    let mut pre: Vec<&[u8; 4]> = vec![];
    for (t, num, den) in [
        (b"gAMA", 1, 3),
        (b"cHRM", 1, 6),
        (b"sRGB", 1, 5),
        (b"pHYs", 1, 3),
        (b"tEXt", 1, 2),
        (b"zTXt", 1, 5),
        (b"iTXt", 1, 3),
        (b"tIME", 1, 5),
        (b"vpAg", 1, 8),
        (b"prVt", 1, 8),
    ] {
        if cx.chance(num, den) {
            pre.push(t);
        }
    }
    cx.shuffle(&mut pre);
    let mut later_cabx_done = cabx_pos != 2;
    let emit = |cx: &mut Cx, w: &mut W, t: &[u8; 4]| match t {
        b"gAMA" => png_chunk(w, t, &be32(45455)),
        b"cHRM" => {
            let d = cx.bytes(32);
            png_chunk(w, t, &d)
        }
        b"sRGB" => png_chunk(w, t, &[0]),
        b"pHYs" => png_chunk(w, t, &[0, 0, 0x0B, 0x13, 0, 0, 0x0B, 0x13, 1]),
        b"tEXt" => {
            let mut d = b"Comment\0".to_vec();
            let n = cx.range(0, 60);
            d.extend(cx.ascii(n));
            png_chunk(w, t, &d)
        }
        b"zTXt" => {
            let mut d = b"Description\0\0".to_vec();
            let n = cx.range(1, 40);
            let raw = cx.ascii(n);
            d.extend(zlib_stored(&raw));
            png_chunk(w, t, &d)
        }
        b"iTXt" => {
            let mut d = b"XML:com.adobe.xmp\0\0\0\0\0".to_vec();
            d.extend(cx.xmp());
            png_chunk(w, t, &d);
            w.note("xmp");
        }
        b"tIME" => png_chunk(w, t, &[0x07, 0xE8, 5, 17, 12, 30, 59]),
        b"eXIf" => {
            let mut d = b"II*\0\x08\0\0\0\0\0\0\0\0\0".to_vec();
            let n = cx.range(0, 30);
            d.extend(cx.bytes(n));
            png_chunk(w, t, &d)
        }
        _ => {
            let n = cx.range(0, 33);
            let d = cx.bytes(n);
            png_chunk(w, t, &d)
        }
    };
    for t in pre {
        emit(cx, w, t);
    }
    if color_type == 3 {
        let n = cx.range(1, 16);
        let d = cx.bytes(3 * n);
        png_chunk(w, b"PLTE", &d);
    }
    if !later_cabx_done && cx.chance(1, 2) {
        png_chunk(w, b"caBX", store.as_ref().unwrap());
        w.note("c2pa-before-IDAT");
        later_cabx_done = true;
    }
    // image data: filter byte + row, stored deflate, split over 1..n IDAT chunks
    let mut raw = Vec::with_capacity(height * (width * channels + 1));
    for _ in 0..height {
        raw.push(0);
        raw.extend(cx.bytes(width * channels));
    }
    let z = zlib_stored(&raw);
    let nidat = cx.range(1, 5).min(z.len());
    let mut cuts: Vec<usize> = (0..nidat - 1).map(|_| cx.range(1, z.len() - 1)).collect();
    cuts.push(0);
    cuts.push(z.len());
    cuts.sort_unstable();
    cuts.dedup();
    for p in cuts.windows(2) {
        png_chunk(w, b"IDAT", &z[p[0]..p[1]]);
    }
    w.note(format!("{}x{} ct{} idat{}", width, height, color_type, cuts.len() - 1));
    let mut post: Vec<&[u8; 4]> = vec![];
    for (t, num, den) in [(b"tEXt", 1, 5), (b"eXIf", 1, 5), (b"tIME", 1, 8)] {
        if cx.chance(num, den) {
            post.push(t);
        }
    }
    for t in post {
        emit(cx, w, t);
    }
    if !later_cabx_done {
        png_chunk(w, b"caBX", store.as_ref().unwrap());
        w.note("c2pa-before-IEND");
    }
    png_chunk(w, b"IEND", &[]);
    if cx.chance(1, 5) {
        let n = cx.range(1, 40);
        let t = cx.bytes(n);
        w.put("trailing.data", &t);
        w.note("trailing");
    }
}

// ------------------------------------------------------------------------------------------------
// GIF
// ------------------------------------------------------------------------------------------------

fn sub_blocks(data: &[u8], max: usize) -> Vec<u8> {
    let mut v = vec![];
    for c in data.chunks(max.clamp(1, 255)) {
        v.push(c.len() as u8);
        v.extend_from_slice(c);
    }
    v.push(0);
    v
}

fn gen_gif(cx: &mut Cx, w: &mut W) {
    #[derive(Clone, Copy, PartialEq)]
    enum B {
        Netscape,
        Xmp,
        UnknownApp,
        Comment,
        Image,
        PlainText,
        LoneGce,
        C2pa,
    }
    // extension blocks before the first image (where a C2PA block may live) and between images
    let nimages = cx.range(1, 4);
    let mut lead: Vec<B> = vec![];
    if cx.chance(1, 3) {
        lead.push(B::Netscape);
    }
    if cx.chance(1, 4) {
        lead.push(B::Xmp);
    }
    if cx.chance(1, 4) {
        lead.push(B::UnknownApp);
    }
    if cx.chance(1, 3) {
        lead.push(B::Comment);
    }
    if cx.chance(1, 8) {
        lead.push(B::PlainText);
    }
    if cx.store.is_some() {
        lead.push(B::C2pa);
    }
    cx.shuffle(&mut lead);
    let mut blocks = lead;
    for i in 0..nimages {
        blocks.push(B::Image);
        if i + 1 < nimages || cx.chance(1, 3) {
            if cx.chance(1, 3) {
                blocks.push(B::Comment);
            }
            if cx.chance(1, 8) {
                blocks.push(B::PlainText);
            }
            if cx.chance(1, 8) {
                blocks.push(B::UnknownApp);
            }
            if cx.chance(1, 10) {
                blocks.push(B::LoneGce);
            }
        }
    }
    let only_images = blocks.iter().all(|b| *b == B::Image);
    let v87 = only_images && cx.chance(1, 2);
    w.put("header", if v87 { b"GIF87a" } else { b"GIF89a" });
    let gct = cx.simple || cx.chance(3, 4);
    let gct_bits = cx.range(0, 4);
    let (sw, sh) = (cx.range(1, 300), cx.range(1, 300));
    let mut lsd = le16(sw).to_vec();
    lsd.extend_from_slice(&le16(sh));
    lsd.push(if gct { 0x80 | 0x70 | gct_bits as u8 } else { 0x70 });
    lsd.extend_from_slice(&[0, 0]);
    w.put("LSD", &lsd);
    if gct {
        let t = cx.bytes(3 << (gct_bits + 1));
        w.put("GCT", &t);
    }
    let per_image = cx.size / nimages;
    let mut with_gce = 0;
    for b in blocks {
        match b {
            B::Netscape => {
                let u = w.unit("app-ext");
                let mut d = vec![0x21, 0xFF, 0x0B];
                d.extend_from_slice(b"NETSCAPE2.0");
                w.put(format!("{u}.hdr"), &d);
                w.put(format!("{u}.data"), &[3, 1, 0, 0, 0]);
            }
            B::Xmp => {
                let u = w.unit("app-ext-xmp");
                let mut d = vec![0x21, 0xFF, 0x0B];
                d.extend_from_slice(b"XMP DataXMP");
                w.put(format!("{u}.hdr"), &d);
                // XMP packet written raw, followed by the 258-byte "magic trailer"
                let mut x = cx.xmp();
                x.push(1);
                x.extend((0..=255u8).rev());
                x.push(0);
                w.put(format!("{u}.data"), &x);
                w.note("xmp");
            }
            B::UnknownApp => {
                let u = w.unit("app-ext");
                let mut d = vec![0x21, 0xFF, 0x0B];
                d.extend_from_slice(b"VERIFAPP1.0");
                w.put(format!("{u}.hdr"), &d);
                let n = cx.range(0, 600);
                let p = cx.bytes(n);
                let m = cx.range(1, 255);
                w.put(format!("{u}.data"), &sub_blocks(&p, m));
            }
            B::C2pa => {
                let u = w.unit("C2PA-app-ext");
                let mut d = vec![0x21, 0xFF, 0x0B];
                d.extend_from_slice(b"C2PA_GIF\x01\0\0");
                w.put(format!("{u}.hdr"), &d);
                let s = cx.store.clone().unwrap();
                w.put(format!("{u}.data"), &sub_blocks(&s, 255));
                w.note("c2pa");
            }
            B::Comment => {
                let u = w.unit("comment-ext");
                w.put(format!("{u}.hdr"), &[0x21, 0xFE]);
                let n = cx.range(0, 300);
                let p = cx.ascii(n);
                let m = cx.range(1, 255);
                w.put(format!("{u}.data"), &sub_blocks(&p, m));
            }
            B::PlainText => {
                // NOTE: foreground colour index fixed to 1: the SDK's plain-text parser skips 11 instead of
                // 13 header bytes and so reads the fg index as a sub-block length; 1 keeps both parses aligned.
                let u = w.unit("plain-text-ext");
                let mut d = vec![0x21, 0x01, 0x0C];
                d.extend_from_slice(&le16(cx.range(0, 20)));
                d.extend_from_slice(&le16(cx.range(0, 20)));
                d.extend_from_slice(&le16(cx.range(1, 100)));
                d.extend_from_slice(&le16(cx.range(1, 100)));
                d.extend_from_slice(&[8, 8, 1, cx.range(0, 255) as u8]);
                w.put(format!("{u}.hdr"), &d);
                let n = cx.range(0, 80);
                let p = cx.ascii(n);
                w.put(format!("{u}.data"), &sub_blocks(&p, 255));
                w.note("plain-text");
            }
            B::LoneGce => {
                let u = w.unit("gce");
                w.put(format!("{u}.data"), &[0x21, 0xF9, 0x04, 0x00, 0x0A, 0x00, 0x00, 0x00]);
            }
            B::Image => {
                if !v87 && cx.chance(1, 2) {
                    let u = w.unit("gce");
                    let delay = cx.range(0, 50);
                    let mut d = vec![0x21, 0xF9, 0x04, cx.pick(&[0u8, 1, 4, 9])];
                    d.extend_from_slice(&le16(delay));
                    d.extend_from_slice(&[cx.range(0, 255) as u8, 0]);
                    w.put(format!("{u}.data"), &d);
                    with_gce += 1;
                }
                let u = w.unit("image");
                let lct = cx.chance(1, 3);
                let lct_bits = cx.range(0, 3);
                let mut d = vec![0x2C];
                d.extend_from_slice(&le16(cx.range(0, 10)));
                d.extend_from_slice(&le16(cx.range(0, 10)));
                d.extend_from_slice(&le16(cx.range(1, 200)));
                d.extend_from_slice(&le16(cx.range(1, 200)));
                d.push(if lct { 0x80 | lct_bits as u8 } else { 0 } | if cx.chance(1, 4) { 0x40 } else { 0 });
                w.put(format!("{u}.descriptor"), &d);
                if lct {
                    let t = cx.bytes(3 << (lct_bits + 1));
                    w.put(format!("{u}.LCT"), &t);
                }
                w.put(format!("{u}.lzw-min"), &[cx.range(2, 8) as u8]);
                let n = cx.around(per_image, 1);
                let p = cx.bytes(n);
                let m = cx.pick(&[255usize, 255, 254, 100, 1]);
                w.put(format!("{u}.data"), &sub_blocks(&p, m));
            }
        }
    }
    w.put("trailer", &[0x3B]);
    w.note(format!("{} images{}{}", nimages, if v87 { " 87a" } else { "" }, if with_gce > 0 { " gce" } else { "" }));
    if cx.chance(1, 5) {
        let n = cx.range(1, 40);
        let t = cx.bytes(n);
        w.put("trailing.data", &t);
        w.note("trailing");
    }
}

// ------------------------------------------------------------------------------------------------
// RIFF (WAV, WebP, AVI)
// ------------------------------------------------------------------------------------------------

/// A RIFF chunk tree that is serialised with regions.
enum Rc {
    Data(&'static str, [u8; 4], Vec<u8>),
    List([u8; 4], [u8; 4], Vec<Rc>),
}

fn rc_size(c: &Rc) -> usize {
    match c {
        Rc::Data(_, _, d) => 8 + d.len() + (d.len() & 1),
        Rc::List(_, _, ch) => 12 + ch.iter().map(rc_size).sum::<usize>(),
    }
}

fn rc_write(w: &mut W, c: &Rc, prefix: &str) {
    match c {
        Rc::Data(label, id, d) => {
            let base = if label.is_empty() { String::from_utf8_lossy(id).trim_end().to_string() } else { label.to_string() };
            let u = w.unit(&format!("{prefix}{base}"));
            w.put(format!("{u}.id"), id);
            w.put(format!("{u}.size"), &le32(d.len()));
            w.put(format!("{u}.data"), d);
            if d.len() & 1 == 1 {
                w.put(format!("{u}.pad"), &[0]);
            }
        }
        Rc::List(id, form, ch) => {
            let base = format!("{}-{}", String::from_utf8_lossy(id).trim_end(), String::from_utf8_lossy(form).trim_end());
            let u = w.unit(&format!("{prefix}{base}"));
            w.put(format!("{u}.id"), id);
            w.put(format!("{u}.size"), &le32(rc_size(c) - 8));
            w.put(format!("{u}.form"), form);
            let p = format!("{u}/");
            for k in ch {
                rc_write(w, k, &p);
            }
        }
    }
}

fn gen_riff(cx: &mut Cx, w: &mut W, kind: &str) {
    let mut top: Vec<Rc> = vec![];
    let mut extra_riffs: Vec<Rc> = vec![];
    let form: [u8; 4];
    let junk = |cx: &mut Cx| {
        let n = cx.range(0, 40);
        Rc::Data("", *b"JUNK", vec![0; n])
    };
    match kind {
        "wav" => {
            form = *b"WAVE";
            let ch = cx.pick(&[1usize, 2]);
            let rate = cx.pick(&[8000usize, 44100, 48000]);
            let bits = cx.pick(&[16usize, 8]);
            let mut fmt = le16(1).to_vec();
            fmt.extend_from_slice(&le16(ch));
            fmt.extend_from_slice(&le32(rate));
            fmt.extend_from_slice(&le32(rate * ch * bits / 8));
            fmt.extend_from_slice(&le16(ch * bits / 8));
            fmt.extend_from_slice(&le16(bits));
            if cx.chance(1, 5) {
                fmt.extend_from_slice(&[0, 0]); // cbSize = 0 (18-byte fmt)
            }
            let mut rest: Vec<Rc> = vec![];
            let n = cx.around(cx.size, 1);
            rest.push(Rc::Data("", *b"data", cx.bytes(n)));
            if cx.chance(1, 3) {
                let mut kids = vec![];
                let a = cx.range(1, 21);
                kids.push(Rc::Data("", *b"INAM", cx.ascii(a)));
                if cx.chance(1, 2) {
                    let a = cx.range(1, 21);
                    kids.push(Rc::Data("", *b"IART", cx.ascii(a)));
                }
                if cx.chance(1, 2) {
                    kids.push(Rc::Data("", *b"ISFT", b"verif\0".to_vec()));
                }
                rest.push(Rc::List(*b"LIST", *b"INFO", kids));
            }
            if cx.chance(1, 5) {
                rest.push(Rc::Data("", *b"fact", le32(n).to_vec()));
            }
            if cx.chance(1, 6) {
                rest.push(Rc::Data("", *b"cue ", le32(0).to_vec()));
            }
            if cx.chance(1, 6) {
                rest.push(junk(cx));
            }
            if cx.chance(1, 6) {
                let a = cx.range(1, 50);
                rest.push(Rc::Data("", *b"bext", cx.bytes(a)));
            }
            if cx.chance(1, 5) {
                rest.push(Rc::Data("", *b"_PMX", cx.xmp()));
                w.note("xmp(_PMX)");
            }
            cx.shuffle(&mut rest);
            top.push(Rc::Data("", *b"fmt ", fmt));
            top.extend(rest);
            w.note(format!("{ch}ch {rate}Hz {bits}bit"));
        }
        "webp" => {
            form = *b"WEBP";
            let (iw, ih) = (cx.range(1, 500), cx.range(1, 500));
            let lossless = cx.chance(1, 3);
            let bitstream = |cx: &mut Cx| -> Rc {
                let n = cx.around(cx.size, 16);
                if lossless {
                    let mut d = vec![0x2F];
                    let v = ((iw - 1) as u32) | (((ih - 1) as u32) << 14);
                    d.extend_from_slice(&v.to_le_bytes());
                    d.extend(cx.bytes(n));
                    Rc::Data("", *b"VP8L", d)
                } else {
                    let mut d = vec![0x30, 0x01, 0x00, 0x9D, 0x01, 0x2A];
                    d.extend_from_slice(&le16(iw));
                    d.extend_from_slice(&le16(ih));
                    d.extend(cx.bytes(n));
                    Rc::Data("", *b"VP8 ", d)
                }
            };
            if cx.chance(1, 2) {
                // extended format
                let icc = cx.chance(1, 4);
                let alpha = !lossless && cx.chance(1, 4);
                let exif = cx.chance(1, 3);
                let xmp = cx.chance(1, 3);
                let flags = (icc as u8) << 5 | (alpha as u8) << 4 | (exif as u8) << 3 | (xmp as u8) << 2;
                let mut d = vec![flags, 0, 0, 0];
                d.extend_from_slice(&((iw - 1) as u32).to_le_bytes()[..3]);
                d.extend_from_slice(&((ih - 1) as u32).to_le_bytes()[..3]);
                top.push(Rc::Data("", *b"VP8X", d));
                if icc {
                    let a = cx.range(1, 130);
                    top.push(Rc::Data("", *b"ICCP", cx.bytes(a)));
                }
                if alpha {
                    let a = cx.range(1, 100);
                    top.push(Rc::Data("", *b"ALPH", cx.bytes(a)));
                }
                top.push(bitstream(cx));
                if exif {
                    let a = cx.range(8, 61);
                    top.push(Rc::Data("", *b"EXIF", cx.bytes(a)));
                }
                if xmp {
                    top.push(Rc::Data("", *b"XMP ", cx.xmp()));
                    w.note("xmp");
                }
                if cx.chance(1, 8) {
                    let a = cx.range(0, 21);
                    top.push(Rc::Data("", *b"UNKN", cx.bytes(a)));
                }
                w.note("VP8X");
            } else {
                top.push(bitstream(cx));
            }
            w.note(if lossless { "lossless" } else { "lossy" });
        }
        _ => {
            form = *b"AVI ";
            let nframes = cx.range(1, 6);
            let mut avih = vec![0u8; 56];
            avih[0..4].copy_from_slice(&le32(33333));
            avih[16..20].copy_from_slice(&le32(nframes));
            avih[24..28].copy_from_slice(&le32(1));
            avih[32..36].copy_from_slice(&le32(160));
            avih[36..40].copy_from_slice(&le32(120));
            let mut strh = vec![0u8; 56];
            strh[0..4].copy_from_slice(b"vids");
            strh[4..8].copy_from_slice(b"MJPG");
            strh[20..24].copy_from_slice(&le32(1));
            strh[24..28].copy_from_slice(&le32(30));
            strh[32..36].copy_from_slice(&le32(nframes));
            let mut strf = vec![0u8; 40];
            strf[0..4].copy_from_slice(&le32(40));
            strf[4..8].copy_from_slice(&le32(160));
            strf[8..12].copy_from_slice(&le32(120));
            strf[12..14].copy_from_slice(&le16(1));
            strf[14..16].copy_from_slice(&le16(24));
            strf[16..20].copy_from_slice(b"MJPG");
            let mut strl = vec![Rc::Data("", *b"strh", strh), Rc::Data("", *b"strf", strf)];
            if cx.chance(1, 3) {
                let a = cx.range(1, 16);
                strl.push(Rc::Data("", *b"strn", cx.ascii(a)));
            }
            let mut hdrl = vec![Rc::Data("", *b"avih", avih), Rc::List(*b"LIST", *b"strl", strl)];
            if cx.chance(1, 4) {
                hdrl.push(junk(cx));
            }
            top.push(Rc::List(*b"LIST", *b"hdrl", hdrl));
            if cx.chance(1, 3) {
                let a = cx.range(1, 30);
                top.push(Rc::List(*b"LIST", *b"INFO", vec![Rc::Data("", *b"ISFT", cx.ascii(a))]));
            }
            if cx.chance(1, 3) {
                top.push(junk(cx));
            }
            let mut frames = vec![];
            let mut idx = vec![];
            let mut rel = 4usize;
            for _ in 0..nframes {
                let n = cx.around(cx.size / nframes, 1);
                idx.extend_from_slice(b"00dc");
                idx.extend_from_slice(&le32(0x10));
                idx.extend_from_slice(&le32(rel));
                idx.extend_from_slice(&le32(n));
                rel += 8 + n + (n & 1);
                frames.push(Rc::Data("", *b"00dc", cx.bytes(n)));
            }
            top.push(Rc::List(*b"LIST", *b"movi", frames));
            if cx.chance(2, 3) {
                top.push(Rc::Data("", *b"idx1", idx));
            }
            // OpenDML: further RIFF 'AVIX' chunks after the first RIFF chunk
            for _ in 0..(if cx.chance(1, 4) { cx.range(1, 2) } else { 0 }) {
                let n = cx.range(1, 200);
                extra_riffs.push(Rc::List(*b"RIFF", *b"AVIX", vec![Rc::List(*b"LIST", *b"movi", vec![Rc::Data("", *b"00dc", cx.bytes(n))])]));
                w.note("AVIX");
            }
            w.note(format!("{nframes} frames"));
        }
    }
    if let Some(s) = cx.store.clone() {
        // the C2PA chunk may be anywhere among the children of the first RIFF chunk (the SDK looks at all of them)
        let at = if cx.chance(1, 2) { top.len() } else { cx.range(1, top.len()) };
        top.insert(at, Rc::Data("C2PA", *b"C2PA", s));
        w.note("c2pa");
    }
    let riff = Rc::List(*b"RIFF", form, top);
    rc_write(w, &riff, "");
    for r in &extra_riffs {
        rc_write(w, r, "");
    }
}

include!("assets_more.rs");
