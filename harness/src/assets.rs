//! Sound-by-construction asset synthesisers and byte mutators (DESIGN §3.1, §3.4).
//!
//! Every synthesiser emits a structurally valid asset of one container kind together with its
//! ground-truth structure: named regions in file order (contiguous, covering the file) and, for
//! BMFF / TIFF, the table of absolute offsets stored in the file with the bytes they address.
//! Only structures that the SDK's handler for the format accepts are produced (validated by
//! `toolkit_selftest`: 0 rejections in 3 x 200 instances per kind); the image / audio payloads are
//! random (nothing in the SDK decodes them when thumbnails are off).
//!
//! Entry points: `synth` (random instance), `synth_default` (simplest fixed instance),
//! `synth_with_store` (instance that already carries a manifest store at a generated position),
//! `synth_variant` (spec-valid structures the SDK mis-parses, see `VARIANTS`), `fake_store`,
//! `Mutation` / `apply` / `changed_span` / `stratified_positions` / `random_mutation`.
//!
//! Region naming: `"<unit>[<n>].<field>"` (e.g. `IDAT[2].crc`, `APP1[0].len`,
//! `moov[0]/trak[0]/mdia[0]/minf[0]/stbl[0]/stco[0].data`); everything up to the last `.` names the
//! structural unit (`Region::unit`), the suffix the field inside it. Units that hold a manifest store
//! start with `C2PA`.
//!
//! Knobs per kind (all drawn from the rng; `Synth::desc` records the notable ones):
//! * jpeg: JFIF first / later / absent, JFXX, Exif, XMP, ICC, APP13, APP14, other APPn, COM x0..2, APP11 that is
//!   not C2PA (short, or a JUMBF box of another type), DQT/DHT/SOF/DRI/COM order, SOF0 or progressive SOF2
//!   with 2..4 scans, 1 or 3 components, restart markers, byte stuffing, trailing bytes or an MPF-style second
//!   image after EOI; existing store in 1..n APP11 segments at any position among the APP segments.
//! * png: colour type, 1..5 IDAT (valid stored-deflate zlib stream), gAMA/cHRM/sRGB/pHYs/tEXt/zTXt/iTXt(XMP)/
//!   tIME/private chunks in random order, PLTE, chunks after IDAT, zero-length chunks, trailing bytes after
//!   IEND; existing caBX before IHDR / after IHDR / before IDAT / before IEND.
//! * gif: 87a (images only) or 89a, GCT on/off and size, NETSCAPE / XMP (magic trailer) / unknown application
//!   extensions, comment, plain text (fg index 1, see VARIANTS), graphic control with or without a following
//!   image, 1..4 images with optional local colour tables and interlace flag, sub-block sizes 1..255,
//!   trailing bytes after the trailer; existing C2PA block anywhere before the first image.
//! * wav / webp / avi: chunk order, odd-sized chunks with pad byte, LIST INFO with odd sub-chunks, JUNK, bext,
//!   fact, cue, _PMX (XMP) for WAV; VP8 / VP8L / VP8X(+ICCP, ALPH, EXIF, XMP, unknown) for WebP; hdrl/strl,
//!   movi with odd frames, idx1, INFO, JUNK and 0..2 further RIFF AVIX chunks for AVI; existing C2PA chunk at
//!   any child position of the first RIFF chunk.
//! * tiff: II / MM, 1..3 pages, strips or tiles (1..4), 1 or 3 samples, SHORT or LONG counts, inline and
//!   out-of-line values, ImageDescription, resolutions, Software, XMP (700), Exif IFD, 1..2 SubIFDs, all blobs
//!   (IFDs, values, strips) placed in random file order on word boundaries with optional gaps, trailing
//!   bytes; existing store in the only IFD or in an IFD of its own after the last page.
//! * svg: BOM, XML declaration, comment, DOCTYPE, attribute quoting, shapes / groups (with nested metadata) /
//!   text with entities / CDATA / comments, title, desc, non-ASCII text, 0..1 top-level `<metadata>` (empty,
//!   XMP packet, RDF), separators, trailing comment; existing `c2pa:manifest` first or last in metadata.
//! * mp3: with / without ID3v2.3 or v2.4 tag (text frames Latin-1 or UTF-8, COMM, PRIV, GEOB, APIC, padding),
//!   CBR frames with and without padding bit, ID3v1 trailer; existing C2PA GEOB frame at any frame position.
//! * flac: optional ID3v2 prefix, STREAMINFO + VORBIS_COMMENT / PADDING / APPLICATION / SEEKTABLE / PICTURE in
//!   random order, frames; existing C2PA GEOB frame in the ID3 prefix (where this SDK stores it).
//! * jxl: `JXL ` + ftyp, jxll, jxlc or jxlp x1..3, Exif / xml / non-C2PA jumb / unknown boxes before or after the
//!   codestream, 64-bit largesize header, last box with size 0; existing C2PA jumb before or after.
//! * mp4 / mov / m4a / heic / avif: ftyp brands; moov with 1..3 traks (stco or co64; variant `long-tables`: 1100..4000 chunk offsets per track, fixed or per-sample stsz,
//!   stsc runs, stss, edts, udta with meta/ilst), meta with hdlr/pitm/iloc (v0/v1/v2, offset size 0/4/8,
//!   length size 4/8, base offset size 0/4/8 with relative extents, 1..3 items x 1..2 extents, idat
//!   construction method 1)/iinf/iprp, 1..2 mdat with 32-bit, 64-bit largesize or size-0 headers and
//!   filler bytes, chunks of several tracks interleaved and spread over the mdats, free/skip/wide/XMP-uuid,
//!   **top-level box order a generated permutation** (ftyp first); existing C2PA uuid box anywhere in
//!   that permutation (mdat before or after it).
//!
//! Not generated (gaps): BigTIFF, fragmented BMFF (moof/tfhd/saio/mfra/sidx), QuickTime `meta` without
//! FullBox header, JPEG XL `brob`, ID3v2.2 / unsynchronisation / extended header, PDF.

use serde::{Deserialize, Serialize};

use crate::rng::SplitMix64;

#[derive(Clone, Debug, PartialEq, Eq, Hash, Serialize, Deserialize)]
pub struct Region {
    pub name: String,
    pub start: usize,
    pub len: usize,
}

impl Region {
    pub fn end(&self) -> usize {
        self.start + self.len
    }
    /// Unit part of the name (up to the last '.').
    pub fn unit(&self) -> &str {
        match self.name.rfind('.') {
            Some(i) => &self.name[..i],
            None => &self.name,
        }
    }
}

/// An absolute file offset stored in the file: `width` bytes at `entry_pos` (big endian for BMFF,
/// file byte order for TIFF) hold `target`; `target_len` bytes at `target` are what it addresses.
#[derive(Clone, Debug, PartialEq, Eq, Hash, Serialize, Deserialize)]
pub struct OffsetRef {
    pub table: String,
    pub entry_pos: usize,
    pub width: u8,
    pub target: usize,
    pub target_len: usize,
}

#[derive(Clone, Debug)]
pub struct Synth {
    /// mime type the SDK accepts
    pub format: &'static str,
    pub ext: &'static str,
    pub bytes: Vec<u8>,
    pub regions: Vec<Region>,
    pub offsets: Vec<OffsetRef>,
    pub desc: String,
}

pub const KINDS: &[&str] = &[
    "jpeg", "png", "gif", "wav", "webp", "avi", "tiff", "svg", "mp3", "flac", "jxl", "mp4", "mov", "heic",
    "avif", "m4a",
];

/// The sidecar kind (a manifest store alone); accepted by `synth` but not part of `KINDS` because it
/// has no media to sign.
pub const SIDECAR: &str = "c2pa";

/// (mime, extension) for a kind.
pub fn kind_format(kind: &str) -> (&'static str, &'static str) {
    match kind {
        "jpeg" => ("image/jpeg", "jpg"),
        "png" => ("image/png", "png"),
        "gif" => ("image/gif", "gif"),
        "wav" => ("audio/wav", "wav"),
        "webp" => ("image/webp", "webp"),
        "avi" => ("video/avi", "avi"),
        "tiff" => ("image/tiff", "tiff"),
        "svg" => ("image/svg+xml", "svg"),
        "mp3" => ("audio/mpeg", "mp3"),
        "flac" => ("audio/flac", "flac"),
        "jxl" => ("image/jxl", "jxl"),
        "mp4" => ("video/mp4", "mp4"),
        "mov" => ("video/quicktime", "mov"),
        "heic" => ("image/heic", "heic"),
        "avif" => ("image/avif", "avif"),
        "m4a" => ("audio/mp4", "m4a"),
        "c2pa" => ("application/c2pa", "c2pa"),
        other => panic!("vh::assets: unknown kind {other}"),
    }
}

/// Random instance of `kind`; payload sizes around `size_hint` bytes (0 ⇒ a default drawn from 300..6000).
pub fn synth(kind: &str, rng: &mut SplitMix64, size_hint: usize) -> Synth {
    let size = if size_hint == 0 { rng.range(300, 6000) as usize } else { size_hint };
    let mut cx = Cx { r: rng, simple: false, size, store: None, variant: "" };
    dispatch(kind, &mut cx)
}

/// The simplest fixed instance of `kind`.
pub fn synth_default(kind: &str) -> Synth {
    let mut rng = SplitMix64::new(0);
    let mut cx = Cx { r: &mut rng, simple: true, size: 256, store: None, variant: "" };
    dispatch(kind, &mut cx)
}

/// Like `synth`, but the asset already carries `store` in the format's manifest container, at a
/// position drawn from the positions the format allows (region unit name `C2PA…`). For BMFF the C2PA
/// `uuid` box takes part in the box-order permutation, so `mdat` may precede it.
/// Supported by every kind (TIFF: tag 0xCD41 in the only IFD, or in an IFD of its own appended to a
/// multi-page chain; SVG: `metadata/c2pa:manifest`).
pub fn synth_with_store(kind: &str, rng: &mut SplitMix64, size_hint: usize, store: &[u8]) -> Synth {
    let size = if size_hint == 0 { rng.range(300, 6000) as usize } else { size_hint };
    let mut cx = Cx { r: rng, simple: false, size, store: Some(store.to_vec()), variant: "" };
    dispatch(kind, &mut cx)
}

/// Structures that are valid per the format specification but that the SDK's handler is known to
/// mis-parse; the regular generators avoid them (soundness), checks can use them as finding probes.
pub const VARIANTS: &[(&str, &str)] = &[
    ("gif", "plaintext-fg"),       // plain text extension with a foreground colour index other than 1
    ("heic", "iloc-v1-base-noindex"), // iloc version 1, base_offset_size 4, index_size 0
    ("heic", "iloc-zero-base"),    // iloc base_offset_size 4 with base_offset 0 and absolute extent offsets
    ("avif", "iloc-v1-base-noindex"),
    ("avif", "iloc-zero-base"),
    // not a mis-parse probe: tracks with 1100..4000 chunk offsets (a long recording), so that code walking
    // stco / co64 in blocks is exercised past its first block
    ("mp4", "long-tables"),
    ("m4a", "long-tables"),
];

/// Like `synth`, with one of `VARIANTS` forced on (panics on an unknown (kind, variant) pair).
pub fn synth_variant(kind: &str, rng: &mut SplitMix64, size_hint: usize, variant: &str) -> Synth {
    let v = VARIANTS.iter().find(|(k, v)| *k == kind && *v == variant).unwrap_or_else(|| panic!("vh::assets: no variant {variant} for {kind}")).1;
    let size = if size_hint == 0 { rng.range(300, 6000) as usize } else { size_hint };
    let mut cx = Cx { r: rng, simple: false, size, store: None, variant: v };
    dispatch(kind, &mut cx)
}

fn dispatch(kind: &str, cx: &mut Cx) -> Synth {
    let (format, ext) = kind_format(kind);
    let mut w = W::default();
    match kind {
        "jpeg" => gen_jpeg(cx, &mut w),
        "png" => gen_png(cx, &mut w),
        "gif" => gen_gif(cx, &mut w),
        "wav" | "webp" | "avi" => gen_riff(cx, &mut w, kind),
        "tiff" => gen_tiff(cx, &mut w),
        "svg" => gen_svg(cx, &mut w),
        "mp3" => gen_mp3(cx, &mut w),
        "flac" => gen_flac(cx, &mut w),
        "jxl" => gen_jxl(cx, &mut w),
        "mp4" | "mov" | "heic" | "avif" | "m4a" => gen_bmff(cx, &mut w, kind),
        "c2pa" => {
            let s = match &cx.store {
                Some(s) => s.clone(),
                None => {
                    let n = if cx.simple { 64 } else { 38 + cx.size };
                    fake_store(n, cx.r)
                }
            };
            w.put("C2PA.data", &s);
            w.note("sidecar");
        }
        _ => unreachable!(),
    }
    debug_assert!(regions_cover(&w.regions, w.b.len()), "regions of {kind} not contiguous");
    Synth { format, ext, bytes: w.b, regions: w.regions, offsets: w.offsets, desc: format!("{kind}: {}", w.notes.join(", ")) }
}

/// True when `regions` are contiguous, in order and cover `0..len`.
pub fn regions_cover(regions: &[Region], len: usize) -> bool {
    let mut at = 0;
    for r in regions {
        if r.start != at {
            return false;
        }
        at += r.len;
    }
    at == len
}

/// A "well-formed store" for `save_jumbf_to_memory`: a JUMBF superbox whose description box carries the
/// C2PA manifest-store UUID and label, followed by random bytes; the outer length equals `total_len`.
pub fn fake_store(total_len: usize, rng: &mut SplitMix64) -> Vec<u8> {
    assert!(total_len >= 29, "fake_store: total_len must be >= 29");
    let mut v = Vec::with_capacity(total_len.max(38));
    v.extend_from_slice(&(total_len as u32).to_be_bytes());
    v.extend_from_slice(b"jumb");
    let jumd_len = 30usize.min(total_len - 8);
    v.extend_from_slice(&(jumd_len as u32).to_be_bytes());
    v.extend_from_slice(b"jumd");
    v.extend_from_slice(&C2PA_STORE_UUID);
    v.push(0x03);
    v.extend_from_slice(b"c2pa\0");
    if total_len > v.len() {
        let rest = rng.bytes(total_len - v.len());
        v.extend_from_slice(&rest);
    }
    v.truncate(total_len);
    v
}

pub const C2PA_STORE_UUID: [u8; 16] =
    [0x63, 0x32, 0x70, 0x61, 0x00, 0x11, 0x00, 0x10, 0x80, 0x00, 0x00, 0xAA, 0x00, 0x38, 0x9B, 0x71];

pub const BMFF_C2PA_UUID: [u8; 16] =
    [0xd8, 0xfe, 0xc3, 0xd6, 0x1b, 0x0e, 0x48, 0x3c, 0x92, 0x97, 0x58, 0x28, 0x87, 0x7e, 0xc4, 0x81];

pub const BMFF_XMP_UUID: [u8; 16] =
    [0xbe, 0x7a, 0xcf, 0xcb, 0x97, 0xa9, 0x42, 0xe8, 0x9c, 0x71, 0x99, 0x94, 0x91, 0xe3, 0xaf, 0xac];

// ------------------------------------------------------------------------------------------------
// byte mutators (DESIGN §3.4)
// ------------------------------------------------------------------------------------------------

#[derive(Clone, Debug, PartialEq, Eq, Hash, Serialize, Deserialize)]
pub enum Mutation {
    Flip { pos: usize, bit: u8 },
    Set { pos: usize, val: u8 },
    Insert { pos: usize, bytes: Vec<u8> },
    Delete { pos: usize, len: usize },
    Truncate { pos: usize },
    Append { bytes: Vec<u8> },
    /// Insert a copy of `start..start+len` directly after it.
    Duplicate { start: usize, len: usize },
    /// Exchange two non-overlapping spans (a before b).
    Swap { a_start: usize, a_len: usize, b_start: usize, b_len: usize },
}

/// Apply `m`; positions and lengths are clamped to the input (a mutation never panics).
pub fn apply(bytes: &[u8], m: &Mutation) -> Vec<u8> {
    let n = bytes.len();
    let mut v = bytes.to_vec();
    match m {
        Mutation::Flip { pos, bit } => {
            if *pos < n {
                v[*pos] ^= 1 << (bit & 7);
            }
        }
        Mutation::Set { pos, val } => {
            if *pos < n {
                v[*pos] = *val;
            }
        }
        Mutation::Insert { pos, bytes: ins } => {
            let p = (*pos).min(n);
            v.splice(p..p, ins.iter().copied());
        }
        Mutation::Delete { pos, len } => {
            let p = (*pos).min(n);
            let e = p.saturating_add(*len).min(n);
            v.drain(p..e);
        }
        Mutation::Truncate { pos } => v.truncate((*pos).min(n)),
        Mutation::Append { bytes: tail } => v.extend_from_slice(tail),
        Mutation::Duplicate { start, len } => {
            let s = (*start).min(n);
            let e = s.saturating_add(*len).min(n);
            let copy = bytes[s..e].to_vec();
            v.splice(e..e, copy);
        }
        Mutation::Swap { a_start, a_len, b_start, b_len } => {
            let a0 = (*a_start).min(n);
            let a1 = a0.saturating_add(*a_len).min(n);
            let b0 = (*b_start).max(a1).min(n);
            let b1 = b0.saturating_add(*b_len).min(n);
            let mut out = Vec::with_capacity(n);
            out.extend_from_slice(&bytes[..a0]);
            out.extend_from_slice(&bytes[b0..b1]);
            out.extend_from_slice(&bytes[a1..b0]);
            out.extend_from_slice(&bytes[a0..a1]);
            out.extend_from_slice(&bytes[b1..]);
            v = out;
        }
    }
    v
}

/// `(start, len)` of the span of the *original* bytes the mutation touches; pure insertions return
/// the insertion point with `len == 0`. Clamped the same way as `apply`.
pub fn changed_span(m: &Mutation, orig_len: usize) -> (usize, usize) {
    let n = orig_len;
    match m {
        Mutation::Flip { pos, .. } | Mutation::Set { pos, .. } => {
            if *pos < n {
                (*pos, 1)
            } else {
                (n, 0)
            }
        }
        Mutation::Insert { pos, .. } => ((*pos).min(n), 0),
        Mutation::Delete { pos, len } => {
            let p = (*pos).min(n);
            (p, p.saturating_add(*len).min(n) - p)
        }
        Mutation::Truncate { pos } => {
            let p = (*pos).min(n);
            (p, n - p)
        }
        Mutation::Append { .. } => (n, 0),
        Mutation::Duplicate { start, len } => {
            let s = (*start).min(n);
            (s.saturating_add(*len).min(n), 0)
        }
        Mutation::Swap { a_start, a_len, b_start, b_len } => {
            let a0 = (*a_start).min(n);
            let a1 = a0.saturating_add(*a_len).min(n);
            let b0 = (*b_start).max(a1).min(n);
            let b1 = b0.saturating_add(*b_len).min(n);
            (a0, b1 - a0)
        }
    }
}

/// True when the mutation leaves the bytes unchanged (e.g. Set to the same value, empty insert).
pub fn is_noop(bytes: &[u8], m: &Mutation) -> bool {
    apply(bytes, m) == bytes
}

/// Stratified byte positions: every region boundary ±2, every byte of regions of at most 16 bytes
/// (headers, lengths, CRCs), plus `payload_samples` positions sampled from the larger regions.
/// Sorted, de-duplicated, all `< len`.
pub fn stratified_positions(regions: &[Region], len: usize, rng: &mut SplitMix64, payload_samples: usize) -> Vec<usize> {
    let mut v: Vec<usize> = vec![];
    let push = |p: i64, v: &mut Vec<usize>| {
        if p >= 0 && (p as usize) < len {
            v.push(p as usize);
        }
    };
    let mut big: Vec<&Region> = vec![];
    for r in regions {
        for d in -2i64..=2 {
            push(r.start as i64 + d, &mut v);
            push(r.end() as i64 + d, &mut v);
        }
        if r.len <= 16 {
            for p in r.start..r.end() {
                push(p as i64, &mut v);
            }
        } else {
            big.push(r);
        }
    }
    if len > 0 {
        for d in 0..3i64 {
            push(d, &mut v);
            push(len as i64 - 1 - d, &mut v);
        }
    }
    if !big.is_empty() {
        for i in 0..payload_samples {
            // round-robin over the large regions so that every one of them is hit
            let r = big[i % big.len()];
            push((r.start + rng.usize(r.len)) as i64, &mut v);
        }
    } else if len > 0 {
        for _ in 0..payload_samples {
            push(rng.usize(len) as i64, &mut v);
        }
    }
    v.sort_unstable();
    v.dedup();
    v
}

/// A random mutation of `bytes` guided by the region map (all eight classes).
pub fn random_mutation(bytes: &[u8], regions: &[Region], rng: &mut SplitMix64) -> Mutation {
    let n = bytes.len().max(1);
    let pos = if !regions.is_empty() && rng.chance(1, 2) {
        let r = rng.pick(regions);
        let d = rng.range(0, 4) as i64 - 2;
        ((if rng.bool() { r.start } else { r.end() }) as i64 + d).clamp(0, n as i64 - 1) as usize
    } else {
        rng.usize(n)
    };
    match rng.below(8) {
        0 => Mutation::Flip { pos, bit: rng.below(8) as u8 },
        1 => {
            let cur = bytes.get(pos).copied().unwrap_or(0);
            let val = *rng.pick(&[0u8, 0xFF, cur.wrapping_add(1), cur.wrapping_sub(1)]);
            Mutation::Set { pos, val }
        }
        2 => {
            let k = rng.range(1, 9) as usize;
            Mutation::Insert { pos, bytes: rng.bytes(k) }
        }
        3 => Mutation::Delete { pos, len: rng.range(1, 9) as usize },
        4 => Mutation::Truncate { pos },
        5 => {
            let k = rng.range(1, 17) as usize;
            Mutation::Append { bytes: rng.bytes(k) }
        }
        6 => {
            if regions.is_empty() {
                Mutation::Duplicate { start: pos, len: rng.range(1, 16) as usize }
            } else {
                let r = rng.pick(regions);
                Mutation::Duplicate { start: r.start, len: r.len }
            }
        }
        _ => {
            if regions.len() >= 2 {
                let i = rng.usize(regions.len() - 1);
                let j = i + 1 + rng.usize(regions.len() - 1 - i);
                let (a, b) = (&regions[i], &regions[j]);
                Mutation::Swap { a_start: a.start, a_len: a.len, b_start: b.start, b_len: b.len }
            } else {
                let a = rng.usize(n);
                Mutation::Swap { a_start: a, a_len: 1, b_start: a + 1 + rng.usize(8), b_len: 1 }
            }
        }
    }
}

// ------------------------------------------------------------------------------------------------
// generator plumbing
// ------------------------------------------------------------------------------------------------

struct Cx<'a> {
    r: &'a mut SplitMix64,
    /// synth_default: every optional knob off, every count minimal
    simple: bool,
    size: usize,
    /// pre-existing manifest store to embed (synth_with_store)
    store: Option<Vec<u8>>,
    /// spec-valid structure the SDK is known to mis-parse (synth_variant), "" = none
    variant: &'static str,
}

impl Cx<'_> {
    fn chance(&mut self, num: u64, den: u64) -> bool {
        if self.simple {
            false
        } else {
            self.r.chance(num, den)
        }
    }
    /// lo..=hi, `lo` when simple
    fn range(&mut self, lo: usize, hi: usize) -> usize {
        if self.simple || hi <= lo {
            lo
        } else {
            self.r.range(lo as u64, hi as u64) as usize
        }
    }
    fn pick<T: Copy>(&mut self, xs: &[T]) -> T {
        if self.simple {
            xs[0]
        } else {
            xs[self.r.usize(xs.len())]
        }
    }
    fn bytes(&mut self, n: usize) -> Vec<u8> {
        self.r.bytes(n)
    }
    /// payload length around `approx` (half … one and a half), at least `min`
    fn around(&mut self, approx: usize, min: usize) -> usize {
        let a = approx.max(min).max(1);
        if self.simple {
            return a;
        }
        (self.r.range((a / 2) as u64, (a + a / 2) as u64) as usize).max(min)
    }
    fn shuffle<T>(&mut self, v: &mut [T]) {
        if self.simple {
            return;
        }
        for i in (1..v.len()).rev() {
            let j = self.r.usize(i + 1);
            v.swap(i, j);
        }
    }
    fn ascii(&mut self, n: usize) -> Vec<u8> {
        const A: &[u8] = b"abcdefghijklmnopqrstuvwxyz ABCDEFGHIJKLMNOPQRSTUVWXYZ0123456789-_";
        (0..n).map(|_| A[self.r.usize(A.len())]).collect()
    }
    fn xmp(&mut self) -> Vec<u8> {
        let pad = if self.simple { 0 } else { self.r.usize(40) };
        let title = String::from_utf8(self.ascii(8)).unwrap();
        format!(
            "<?xpacket begin=\"\u{feff}\" id=\"W5M0MpCehiHzreSzNTczkc9d\"?><x:xmpmeta xmlns:x=\"adobe:ns:meta/\"><rdf:RDF xmlns:rdf=\"http://www.w3.org/1999/02/22-rdf-syntax-ns#\"><rdf:Description rdf:about=\"\" xmlns:dc=\"http://purl.org/dc/elements/1.1/\" dc:title=\"{title}\"/></rdf:RDF></x:xmpmeta>{}<?xpacket end=\"w\"?>",
            " ".repeat(pad)
        )
        .into_bytes()
    }
}

#[derive(Default)]
struct W {
    b: Vec<u8>,
    regions: Vec<Region>,
    offsets: Vec<OffsetRef>,
    notes: Vec<String>,
    counts: std::collections::BTreeMap<String, usize>,
}

impl W {
    fn pos(&self) -> usize {
        self.b.len()
    }
    fn put(&mut self, name: impl Into<String>, bytes: &[u8]) {
        if bytes.is_empty() {
            return;
        }
        self.regions.push(Region { name: name.into(), start: self.b.len(), len: bytes.len() });
        self.b.extend_from_slice(bytes);
    }
    fn note(&mut self, s: impl Into<String>) {
        self.notes.push(s.into());
    }
    /// `name[n]` with a per-name running counter
    fn unit(&mut self, name: &str) -> String {
        let c = self.counts.entry(name.to_string()).or_insert(0);
        let s = format!("{name}[{c}]");
        *c += 1;
        s
    }
}

fn be16(v: usize) -> [u8; 2] {
    (v as u16).to_be_bytes()
}
fn be32(v: usize) -> [u8; 4] {
    (v as u32).to_be_bytes()
}
fn le32(v: usize) -> [u8; 4] {
    (v as u32).to_le_bytes()
}
fn le16(v: usize) -> [u8; 2] {
    (v as u16).to_le_bytes()
}

// ------------------------------------------------------------------------------------------------
// JPEG
// ------------------------------------------------------------------------------------------------

fn jpeg_seg(w: &mut W, name: &str, marker: u8, data: &[u8]) {
    assert!(data.len() + 2 <= 65535);
    let u = w.unit(name);
    w.put(format!("{u}.marker"), &[0xFF, marker]);
    w.put(format!("{u}.len"), &be16(data.len() + 2));
    w.put(format!("{u}.data"), data);
}

/// APP11 segments carrying `store` the way ISO 19566-5 / C2PA prescribe (what the SDK writes).
fn jpeg_c2pa_segments(w: &mut W, store: &[u8], en: u16, chunk: usize) {
    for (i, part) in store.chunks(chunk).enumerate() {
        let mut d = vec![0x4A, 0x50];
        d.extend_from_slice(&en.to_be_bytes());
        d.extend_from_slice(&((i + 1) as u32).to_be_bytes());
        if i > 0 {
            d.extend_from_slice(&store[..8]);
        }
        d.extend_from_slice(part);
        jpeg_seg(w, "C2PA-APP11", 0xEB, &d);
    }
}

fn entropy(cx: &mut Cx, n: usize, restart: bool) -> Vec<u8> {
    let mut v = Vec::with_capacity(n + n / 64 + 8);
    let mut rst = 0u8;
    let interval = if restart { cx.range(24, 200) } else { usize::MAX };
    let mut since = 0usize;
    let raw = cx.bytes(n);
    for (i, b) in raw.iter().enumerate() {
        // make 0xFF (byte stuffing) reasonably frequent
        let b = if !cx.simple && i % 37 == 5 { 0xFF } else { *b };
        v.push(b);
        if b == 0xFF {
            v.push(0x00);
        }
        since += 1;
        if since >= interval && i + 1 < raw.len() {
            v.push(0xFF);
            v.push(0xD0 + rst);
            rst = (rst + 1) & 7;
            since = 0;
        }
    }
    if v.is_empty() {
        v.push(0x55);
    }
    v
}

fn gen_jpeg(cx: &mut Cx, w: &mut W) {
    w.put("SOI", &[0xFF, 0xD8]);
    // application / comment segments
    #[derive(Clone, Copy, PartialEq)]
    enum A {
        Jfif,
        Jfxx,
        Exif,
        Xmp,
        Icc,
        App13,
        Adobe,
        Com,
        OtherApp11Short,
        OtherApp11Jumbf,
        AppN,
        C2pa,
    }
    let mut apps: Vec<A> = vec![];
    let jfif = cx.simple || cx.chance(3, 4);
    if cx.chance(1, 3) {
        apps.push(A::Exif);
    }
    if cx.chance(1, 3) {
        apps.push(A::Xmp);
    }
    if cx.chance(1, 4) {
        apps.push(A::Icc);
    }
    if cx.chance(1, 6) {
        apps.push(A::App13);
    }
    if cx.chance(1, 6) {
        apps.push(A::Adobe);
    }
    for _ in 0..cx.range(0, 2) {
        apps.push(A::Com);
    }
    if cx.chance(1, 8) {
        apps.push(A::OtherApp11Short);
    }
    if cx.chance(1, 8) {
        apps.push(A::OtherApp11Jumbf);
    }
    if cx.chance(1, 6) {
        apps.push(A::AppN);
    }
    if jfif && cx.chance(1, 6) {
        apps.push(A::Jfxx);
    }
    if cx.store.is_some() {
        apps.push(A::C2pa);
    }
    cx.shuffle(&mut apps);
    if jfif {
        // JFIF first (as the standard demands) except for a small share of files
        if cx.chance(1, 10) && !apps.is_empty() {
            let at = cx.range(0, apps.len());
            apps.insert(at, A::Jfif);
        } else {
            apps.insert(0, A::Jfif);
        }
    }
    let payload = cx.size;
    for a in apps {
        match a {
            A::Jfif => {
                let mut d = b"JFIF\0".to_vec();
                d.extend_from_slice(&[1, cx.pick(&[1u8, 2]), cx.pick(&[0u8, 1, 2]), 0, 72, 0, 72, 0, 0]);
                jpeg_seg(w, "APP0", 0xE0, &d);
            }
            A::Jfxx => {
                let mut d = b"JFXX\0".to_vec();
                d.push(0x10);
                let n = cx.range(0, 40);
                d.extend(cx.bytes(n));
                jpeg_seg(w, "APP0", 0xE0, &d);
            }
            A::Exif => {
                let mut d = b"Exif\0\0".to_vec();
                d.extend_from_slice(b"II*\0\x08\0\0\0\x01\0\x12\x01\x03\0\x01\0\0\0\x01\0\0\0\0\0\0\0");
                let n = cx.range(0, 60);
                d.extend(cx.bytes(n));
                jpeg_seg(w, "APP1", 0xE1, &d);
                w.note("exif");
            }
            A::Xmp => {
                let mut d = b"http://ns.adobe.com/xap/1.0/\0".to_vec();
                d.extend(cx.xmp());
                jpeg_seg(w, "APP1", 0xE1, &d);
                w.note("xmp");
            }
            A::Icc => {
                let mut d = b"ICC_PROFILE\0\x01\x01".to_vec();
                let n = cx.range(16, 200);
                d.extend(cx.bytes(n));
                jpeg_seg(w, "APP2", 0xE2, &d);
            }
            A::App13 => {
                let mut d = b"Photoshop 3.0\08BIM".to_vec();
                let n = cx.range(4, 60);
                d.extend(cx.bytes(n));
                jpeg_seg(w, "APP13", 0xED, &d);
            }
            A::Adobe => {
                jpeg_seg(w, "APP14", 0xEE, b"Adobe\0\x64\0\0\0\0\x01");
            }
            A::Com => {
                let n = cx.range(0, 80);
                let d = cx.ascii(n);
                jpeg_seg(w, "COM", 0xFE, &d);
            }
            A::OtherApp11Short => {
                // APP11 too short to be a JUMBF carrier (the SDK ignores contents of <= 16 bytes)
                let n = cx.range(0, 16);
                let d = cx.bytes(n);
                jpeg_seg(w, "APP11", 0xEB, &d);
                w.note("app11-short");
            }
            A::OtherApp11Jumbf => {
                // a JUMBF box of another type in APP11 (box instance number different from C2PA's)
                let mut d = vec![0x4A, 0x50, 0x00, 0x07, 0, 0, 0, 1];
                let n = cx.range(24, 90);
                let mut bx = be32(8 + 8 + 16 + 1 + n).to_vec();
                bx.extend_from_slice(b"jumb");
                bx.extend_from_slice(&be32(8 + 16 + 1));
                bx.extend_from_slice(b"jumd");
                bx.extend_from_slice(b"xmpjumbf\0\x11\0\x10\x80\0\0\xAA");
                bx.push(0);
                bx.extend(cx.bytes(n));
                d.extend(bx);
                jpeg_seg(w, "APP11", 0xEB, &d);
                w.note("app11-other-jumbf");
            }
            A::AppN => {
                let m = cx.pick(&[0xE3u8, 0xE4, 0xE5, 0xE6, 0xE7, 0xE8, 0xE9, 0xEA, 0xEC, 0xEF]);
                let n = cx.range(0, 50);
                let d = cx.bytes(n);
                jpeg_seg(w, &format!("APP{}", m - 0xE0), m, &d);
            }
            A::C2pa => {
                let store = cx.store.clone().unwrap();
                let chunk = if store.len() > 200 && cx.chance(1, 3) { cx.range(100, store.len() - 1) } else { 64000 };
                jpeg_c2pa_segments(w, &store, 0x0211, chunk);
                w.note("c2pa");
            }
        }
    }
    // tables and frame header; DQT / DHT / DRI / COM in random order, SOF anywhere among them
    let progressive = cx.chance(1, 4);
    let ncomp = cx.pick(&[3usize, 1]);
    let restart = cx.chance(1, 3);
    #[derive(Clone, Copy)]
    enum T {
        Dqt,
        Dht,
        Sof,
        Dri,
        Com,
    }
    let mut tabs = vec![T::Dqt, T::Sof, T::Dht];
    if cx.chance(1, 2) {
        tabs.push(T::Dqt);
    }
    for _ in 0..cx.range(0, 3) {
        tabs.push(T::Dht);
    }
    if restart {
        tabs.push(T::Dri);
    }
    if cx.chance(1, 6) {
        tabs.push(T::Com);
    }
    cx.shuffle(&mut tabs);
    let (iw, ih) = (cx.range(8, 640), cx.range(8, 480));
    for t in tabs {
        match t {
            T::Dqt => {
                let mut d = vec![cx.pick(&[0u8, 1])];
                d.extend((0..64).map(|i| (i as u8 % 60) + 1));
                jpeg_seg(w, "DQT", 0xDB, &d);
            }
            T::Dht => {
                let mut d = vec![cx.pick(&[0x00u8, 0x10, 0x01, 0x11])];
                let counts = [0u8, 1, 5, 1, 1, 1, 1, 1, 1, 0, 0, 0, 0, 0, 0, 0];
                d.extend_from_slice(&counts);
                d.extend(0u8..12);
                jpeg_seg(w, "DHT", 0xC4, &d);
            }
            T::Sof => {
                let mut d = vec![8];
                d.extend_from_slice(&be16(ih));
                d.extend_from_slice(&be16(iw));
                d.push(ncomp as u8);
                for c in 0..ncomp {
                    d.extend_from_slice(&[c as u8 + 1, if c == 0 { 0x22 } else { 0x11 }, if c == 0 { 0 } else { 1 }]);
                }
                jpeg_seg(w, if progressive { "SOF2" } else { "SOF0" }, if progressive { 0xC2 } else { 0xC0 }, &d);
            }
            T::Dri => {
                jpeg_seg(w, "DRI", 0xDD, &be16(cx.range(1, 64)));
            }
            T::Com => {
                let d = cx.ascii(12);
                jpeg_seg(w, "COM", 0xFE, &d);
            }
        }
    }
    let nscans = if progressive { cx.range(2, 4) } else { 1 };
    for s in 0..nscans {
        if s > 0 && cx.chance(1, 2) {
            let mut d = vec![0x10];
            d.extend_from_slice(&[0u8, 2, 1, 1, 0, 0, 0, 0, 0, 0, 0, 0, 0, 0, 0, 0]);
            d.extend(0u8..4);
            jpeg_seg(w, "DHT", 0xC4, &d);
        }
        let nc = if s == 0 { ncomp } else { 1 };
        let mut d = vec![nc as u8];
        for c in 0..nc {
            d.extend_from_slice(&[c as u8 + 1, 0x00]);
        }
        d.extend_from_slice(&if progressive { [s as u8, (s as u8 + 5).min(63), 0] } else { [0, 63, 0] });
        jpeg_seg(w, "SOS", 0xDA, &d);
        let n = cx.around(payload / nscans, 4);
        let e = entropy(cx, n, restart);
        let u = w.unit("scan");
        w.put(format!("{u}.data"), &e);
    }
    if restart {
        w.note("restart");
    }
    if progressive {
        w.note("progressive");
    }
    w.put("EOI", &[0xFF, 0xD9]);
    match cx.range(0, 5) {
        1 => {
            let n = cx.range(1, 64);
            let t = cx.bytes(n);
            w.put("trailing.data", &t);
            w.note("trailing");
        }
        2 => {
            // MPF-style second image appended after EOI
            let mut t = vec![0xFF, 0xD8, 0xFF, 0xDB, 0x00, 0x43, 0x00];
            t.extend((0..64).map(|i| i as u8 + 1));
            t.extend_from_slice(&[0xFF, 0xDA, 0x00, 0x08, 0x01, 0x01, 0x00, 0x00, 0x3F, 0x00]);
            let n = cx.range(4, 120);
            t.extend(entropy(cx, n, false));
            t.extend_from_slice(&[0xFF, 0xD9]);
            w.put("trailing.data", &t);
            w.note("second-image");
        }
        _ => {}
    }
}

// ------------------------------------------------------------------------------------------------
// PNG
// ------------------------------------------------------------------------------------------------

pub fn crc32(bytes: &[u8]) -> u32 {
    let mut c = 0xFFFF_FFFFu32;
    for &b in bytes {
        c ^= b as u32;
        for _ in 0..8 {
            c = if c & 1 != 0 { (c >> 1) ^ 0xEDB8_8320 } else { c >> 1 };
        }
    }
    !c
}

fn adler32(bytes: &[u8]) -> u32 {
    let (mut a, mut b) = (1u32, 0u32);
    for &x in bytes {
        a = (a + x as u32) % 65521;
        b = (b + a) % 65521;
    }
    (b << 16) | a
}

/// zlib stream with stored (uncompressed) deflate blocks
fn zlib_stored(raw: &[u8]) -> Vec<u8> {
    let mut v = vec![0x78, 0x01];
    let mut chunks: Vec<&[u8]> = raw.chunks(65535).collect();
    if chunks.is_empty() {
        chunks.push(&[]);
    }
    let last = chunks.len() - 1;
    for (i, c) in chunks.iter().enumerate() {
        v.push(if i == last { 1 } else { 0 });
        v.extend_from_slice(&(c.len() as u16).to_le_bytes());
        v.extend_from_slice(&(!(c.len() as u16)).to_le_bytes());
        v.extend_from_slice(c);
    }
    v.extend_from_slice(&adler32(raw).to_be_bytes());
    v
}

fn png_chunk(w: &mut W, typ: &[u8; 4], data: &[u8]) {
    let name = String::from_utf8_lossy(typ).to_string();
    let u = if typ == b"caBX" { w.unit("C2PA-caBX") } else { w.unit(&name) };
    w.put(format!("{u}.len"), &be32(data.len()));
    w.put(format!("{u}.type"), typ);
    w.put(format!("{u}.data"), data);
    let mut c = typ.to_vec();
    c.extend_from_slice(data);
    w.put(format!("{u}.crc"), &crc32(&c).to_be_bytes());
}

fn gen_png(cx: &mut Cx, w: &mut W) {
    w.put("signature", &[137, 80, 78, 71, 13, 10, 26, 10]);
    let color_type = cx.pick(&[0u8, 2, 3, 6, 4]);
    let channels = match color_type {
        0 | 3 => 1,
        2 => 3,
        4 => 2,
        _ => 4,
    };
    let width = cx.range(1, 48);
    let height = (cx.size / (width * channels + 1)).max(1);
    let store = cx.store.clone();
    // a pre-existing caBX can sit before IHDR (the SDK handles that layout), right after it, or later
    let cabx_pos = if store.is_some() { cx.range(0, 2) } else { 9 };
    if cabx_pos == 0 {
        png_chunk(w, b"caBX", store.as_ref().unwrap());
        w.note("c2pa-before-IHDR");
    }
    let mut ihdr = be32(width).to_vec();
    ihdr.extend_from_slice(&be32(height));
    ihdr.extend_from_slice(&[8, color_type, 0, 0, 0]);
    png_chunk(w, b"IHDR", &ihdr);
    if cabx_pos == 1 {
        png_chunk(w, b"caBX", store.as_ref().unwrap());
        w.note("c2pa-after-IHDR");
    }
    // ancillary chunks before the image data
    let mut pre: Vec<&[u8; 4]> = vec![];
    for (t, num, den) in [
        (b"gAMA", 1, 3),
        (b"cHRM", 1, 6),
        (b"sRGB", 1, 5),
        (b"pHYs", 1, 3),
        (b"tEXt", 1, 2),
        (b"zTXt", 1, 5),
        (b"iTXt", 1, 3),
        (b"tIME", 1, 5),
        (b"vpAg", 1, 8),
        (b"prVt", 1, 8),
    ] {
        if cx.chance(num, den) {
            pre.push(t);
        }
    }
    cx.shuffle(&mut pre);
    let mut later_cabx_done = cabx_pos != 2;
    let emit = |cx: &mut Cx, w: &mut W, t: &[u8; 4]| match t {
        b"gAMA" => png_chunk(w, t, &be32(45455)),
        b"cHRM" => {
            let d = cx.bytes(32);
            png_chunk(w, t, &d)
        }
        b"sRGB" => png_chunk(w, t, &[0]),
        b"pHYs" => png_chunk(w, t, &[0, 0, 0x0B, 0x13, 0, 0, 0x0B, 0x13, 1]),
        b"tEXt" => {
            let mut d = b"Comment\0".to_vec();
            let n = cx.range(0, 60);
            d.extend(cx.ascii(n));
            png_chunk(w, t, &d)
        }
        b"zTXt" => {
            let mut d = b"Description\0\0".to_vec();
            let n = cx.range(1, 40);
            let raw = cx.ascii(n);
            d.extend(zlib_stored(&raw));
            png_chunk(w, t, &d)
        }
        b"iTXt" => {
            let mut d = b"XML:com.adobe.xmp\0\0\0\0\0".to_vec();
            d.extend(cx.xmp());
            png_chunk(w, t, &d);
            w.note("xmp");
        }
        b"tIME" => png_chunk(w, t, &[0x07, 0xE8, 5, 17, 12, 30, 59]),
        b"eXIf" => {
            let mut d = b"II*\0\x08\0\0\0\0\0\0\0\0\0".to_vec();
            let n = cx.range(0, 30);
            d.extend(cx.bytes(n));
            png_chunk(w, t, &d)
        }
        _ => {
            let n = cx.range(0, 33);
            let d = cx.bytes(n);
            png_chunk(w, t, &d)
        }
    };
    for t in pre {
        emit(cx, w, t);
    }
    if color_type == 3 {
        let n = cx.range(1, 16);
        let d = cx.bytes(3 * n);
        png_chunk(w, b"PLTE", &d);
    }
    if !later_cabx_done && cx.chance(1, 2) {
        png_chunk(w, b"caBX", store.as_ref().unwrap());
        w.note("c2pa-before-IDAT");
        later_cabx_done = true;
    }
    // image data: filter byte + row, stored deflate, split over 1..n IDAT chunks
    let mut raw = Vec::with_capacity(height * (width * channels + 1));
    for _ in 0..height {
        raw.push(0);
        raw.extend(cx.bytes(width * channels));
    }
    let z = zlib_stored(&raw);
    let nidat = cx.range(1, 5).min(z.len());
    let mut cuts: Vec<usize> = (0..nidat - 1).map(|_| cx.range(1, z.len() - 1)).collect();
    cuts.push(0);
    cuts.push(z.len());
    cuts.sort_unstable();
    cuts.dedup();
    for p in cuts.windows(2) {
        png_chunk(w, b"IDAT", &z[p[0]..p[1]]);
    }
    w.note(format!("{}x{} ct{} idat{}", width, height, color_type, cuts.len() - 1));
    let mut post: Vec<&[u8; 4]> = vec![];
    for (t, num, den) in [(b"tEXt", 1, 5), (b"eXIf", 1, 5), (b"tIME", 1, 8)] {
        if cx.chance(num, den) {
            post.push(t);
        }
    }
    for t in post {
        emit(cx, w, t);
    }
    if !later_cabx_done {
        png_chunk(w, b"caBX", store.as_ref().unwrap());
        w.note("c2pa-before-IEND");
    }
    png_chunk(w, b"IEND", &[]);
    if cx.chance(1, 5) {
        let n = cx.range(1, 40);
        let t = cx.bytes(n);
        w.put("trailing.data", &t);
        w.note("trailing");
    }
}

// ------------------------------------------------------------------------------------------------
// GIF
// ------------------------------------------------------------------------------------------------

fn sub_blocks(data: &[u8], max: usize) -> Vec<u8> {
    let mut v = vec![];
    for c in data.chunks(max.clamp(1, 255)) {
        v.push(c.len() as u8);
        v.extend_from_slice(c);
    }
    v.push(0);
    v
}

fn gen_gif(cx: &mut Cx, w: &mut W) {
    #[derive(Clone, Copy, PartialEq)]
    enum B {
        Netscape,
        Xmp,
        UnknownApp,
        Comment,
        Image,
        PlainText,
        LoneGce,
        C2pa,
    }
    // extension blocks before the first image (where a C2PA block may live) and between images
    let nimages = cx.range(1, 4);
    let mut lead: Vec<B> = vec![];
    if cx.chance(1, 3) {
        lead.push(B::Netscape);
    }
    if cx.chance(1, 4) {
        lead.push(B::Xmp);
    }
    if cx.chance(1, 4) {
        lead.push(B::UnknownApp);
    }
    if cx.chance(1, 3) {
        lead.push(B::Comment);
    }
    if cx.chance(1, 8) || cx.variant == "plaintext-fg" {
        lead.push(B::PlainText);
    }
    if cx.store.is_some() {
        lead.push(B::C2pa);
    }
    cx.shuffle(&mut lead);
    let mut blocks = lead;
    for i in 0..nimages {
        blocks.push(B::Image);
        if i + 1 < nimages || cx.chance(1, 3) {
            if cx.chance(1, 3) {
                blocks.push(B::Comment);
            }
            if cx.chance(1, 8) {
                blocks.push(B::PlainText);
            }
            if cx.chance(1, 8) {
                blocks.push(B::UnknownApp);
            }
            if cx.chance(1, 10) {
                blocks.push(B::LoneGce);
            }
        }
    }
    let only_images = blocks.iter().all(|b| *b == B::Image);
    let v87 = only_images && cx.chance(1, 2);
    w.put("header", if v87 { b"GIF87a" } else { b"GIF89a" });
    let gct = cx.simple || cx.chance(3, 4);
    let gct_bits = cx.range(0, 4);
    let (sw, sh) = (cx.range(1, 300), cx.range(1, 300));
    let mut lsd = le16(sw).to_vec();
    lsd.extend_from_slice(&le16(sh));
    lsd.push(if gct { 0x80 | 0x70 | gct_bits as u8 } else { 0x70 });
    lsd.extend_from_slice(&[0, 0]);
    w.put("LSD", &lsd);
    if gct {
        let t = cx.bytes(3 << (gct_bits + 1));
        w.put("GCT", &t);
    }
    let per_image = cx.size / nimages;
    let mut with_gce = 0;
    for b in blocks {
        match b {
            B::Netscape => {
                let u = w.unit("app-ext");
                let mut d = vec![0x21, 0xFF, 0x0B];
                d.extend_from_slice(b"NETSCAPE2.0");
                w.put(format!("{u}.hdr"), &d);
                w.put(format!("{u}.data"), &[3, 1, 0, 0, 0]);
            }
            B::Xmp => {
                let u = w.unit("app-ext-xmp");
                let mut d = vec![0x21, 0xFF, 0x0B];
                d.extend_from_slice(b"XMP DataXMP");
                w.put(format!("{u}.hdr"), &d);
                // XMP packet written raw, followed by the 258-byte "magic trailer"
                let mut x = cx.xmp();
                x.push(1);
                x.extend((0..=255u8).rev());
                x.push(0);
                w.put(format!("{u}.data"), &x);
                w.note("xmp");
            }
            B::UnknownApp => {
                let u = w.unit("app-ext");
                let mut d = vec![0x21, 0xFF, 0x0B];
                d.extend_from_slice(b"VERIFAPP1.0");
                w.put(format!("{u}.hdr"), &d);
                let n = cx.range(0, 600);
                let p = cx.bytes(n);
                let m = cx.range(1, 255);
                w.put(format!("{u}.data"), &sub_blocks(&p, m));
            }
            B::C2pa => {
                let u = w.unit("C2PA-app-ext");
                let mut d = vec![0x21, 0xFF, 0x0B];
                d.extend_from_slice(b"C2PA_GIF\x01\0\0");
                w.put(format!("{u}.hdr"), &d);
                let s = cx.store.clone().unwrap();
                w.put(format!("{u}.data"), &sub_blocks(&s, 255));
                w.note("c2pa");
            }
            B::Comment => {
                let u = w.unit("comment-ext");
                w.put(format!("{u}.hdr"), &[0x21, 0xFE]);
                let n = cx.range(0, 300);
                let p = cx.ascii(n);
                let m = cx.range(1, 255);
                w.put(format!("{u}.data"), &sub_blocks(&p, m));
            }
            B::PlainText => {
                // NOTE: foreground colour index fixed to 1: the SDK's plain-text parser skips 11 instead of
                // 13 header bytes and so reads the fg index as a sub-block length; 1 keeps both parses aligned.
                let u = w.unit("plain-text-ext");
                let mut d = vec![0x21, 0x01, 0x0C];
                d.extend_from_slice(&le16(cx.range(0, 20)));
                d.extend_from_slice(&le16(cx.range(0, 20)));
                d.extend_from_slice(&le16(cx.range(1, 100)));
                d.extend_from_slice(&le16(cx.range(1, 100)));
                let fg = if cx.variant == "plaintext-fg" { *cx.r.pick(&[0u8, 2, 3, 7, 200]) } else { 1 };
                d.extend_from_slice(&[8, 8, fg, cx.range(0, 255) as u8]);
                w.put(format!("{u}.hdr"), &d);
                let n = cx.range(0, 80);
                let p = cx.ascii(n);
                w.put(format!("{u}.data"), &sub_blocks(&p, 255));
                w.note("plain-text");
            }
            B::LoneGce => {
                let u = w.unit("gce");
                w.put(format!("{u}.data"), &[0x21, 0xF9, 0x04, 0x00, 0x0A, 0x00, 0x00, 0x00]);
            }
            B::Image => {
                if !v87 && cx.chance(1, 2) {
                    let u = w.unit("gce");
                    let delay = cx.range(0, 50);
                    let mut d = vec![0x21, 0xF9, 0x04, cx.pick(&[0u8, 1, 4, 9])];
                    d.extend_from_slice(&le16(delay));
                    d.extend_from_slice(&[cx.range(0, 255) as u8, 0]);
                    w.put(format!("{u}.data"), &d);
                    with_gce += 1;
                }
                let u = w.unit("image");
                let lct = cx.chance(1, 3);
                let lct_bits = cx.range(0, 3);
                let mut d = vec![0x2C];
                d.extend_from_slice(&le16(cx.range(0, 10)));
                d.extend_from_slice(&le16(cx.range(0, 10)));
                d.extend_from_slice(&le16(cx.range(1, 200)));
                d.extend_from_slice(&le16(cx.range(1, 200)));
                d.push(if lct { 0x80 | lct_bits as u8 } else { 0 } | if cx.chance(1, 4) { 0x40 } else { 0 });
                w.put(format!("{u}.descriptor"), &d);
                if lct {
                    let t = cx.bytes(3 << (lct_bits + 1));
                    w.put(format!("{u}.LCT"), &t);
                }
                w.put(format!("{u}.lzw-min"), &[cx.range(2, 8) as u8]);
                let n = cx.around(per_image, 1);
                let p = cx.bytes(n);
                let m = cx.pick(&[255usize, 255, 254, 100, 1]);
                w.put(format!("{u}.data"), &sub_blocks(&p, m));
            }
        }
    }
    w.put("trailer", &[0x3B]);
    w.note(format!("{} images{}{}", nimages, if v87 { " 87a" } else { "" }, if with_gce > 0 { " gce" } else { "" }));
    if cx.chance(1, 5) {
        let n = cx.range(1, 40);
        let t = cx.bytes(n);
        w.put("trailing.data", &t);
        w.note("trailing");
    }
}

// ------------------------------------------------------------------------------------------------
// RIFF (WAV, WebP, AVI)
// ------------------------------------------------------------------------------------------------

/// A RIFF chunk tree that is serialised with regions.
enum Rc {
    Data(&'static str, [u8; 4], Vec<u8>),
    List([u8; 4], [u8; 4], Vec<Rc>),
}

fn rc_size(c: &Rc) -> usize {
    match c {
        Rc::Data(_, _, d) => 8 + d.len() + (d.len() & 1),
        Rc::List(_, _, ch) => 12 + ch.iter().map(rc_size).sum::<usize>(),
    }
}

fn rc_write(w: &mut W, c: &Rc, prefix: &str) {
    match c {
        Rc::Data(label, id, d) => {
            let base = if label.is_empty() { String::from_utf8_lossy(id).trim_end().to_string() } else { label.to_string() };
            let u = w.unit(&format!("{prefix}{base}"));
            w.put(format!("{u}.id"), id);
            w.put(format!("{u}.size"), &le32(d.len()));
            w.put(format!("{u}.data"), d);
            if d.len() & 1 == 1 {
                w.put(format!("{u}.pad"), &[0]);
            }
        }
        Rc::List(id, form, ch) => {
            let base = format!("{}-{}", String::from_utf8_lossy(id).trim_end(), String::from_utf8_lossy(form).trim_end());
            let u = w.unit(&format!("{prefix}{base}"));
            w.put(format!("{u}.id"), id);
            w.put(format!("{u}.size"), &le32(rc_size(c) - 8));
            w.put(format!("{u}.form"), form);
            let p = format!("{u}/");
            for k in ch {
                rc_write(w, k, &p);
            }
        }
    }
}

fn gen_riff(cx: &mut Cx, w: &mut W, kind: &str) {
    let mut top: Vec<Rc> = vec![];
    let mut extra_riffs: Vec<Rc> = vec![];
    let form: [u8; 4];
    let junk = |cx: &mut Cx| {
        let n = cx.range(0, 40);
        Rc::Data("", *b"JUNK", vec![0; n])
    };
    match kind {
        "wav" => {
            form = *b"WAVE";
            let ch = cx.pick(&[1usize, 2]);
            let rate = cx.pick(&[8000usize, 44100, 48000]);
            let bits = cx.pick(&[16usize, 8]);
            let mut fmt = le16(1).to_vec();
            fmt.extend_from_slice(&le16(ch));
            fmt.extend_from_slice(&le32(rate));
            fmt.extend_from_slice(&le32(rate * ch * bits / 8));
            fmt.extend_from_slice(&le16(ch * bits / 8));
            fmt.extend_from_slice(&le16(bits));
            if cx.chance(1, 5) {
                fmt.extend_from_slice(&[0, 0]); // cbSize = 0 (18-byte fmt)
            }
            let mut rest: Vec<Rc> = vec![];
            let n = cx.around(cx.size, 1);
            rest.push(Rc::Data("", *b"data", cx.bytes(n)));
            if cx.chance(1, 3) {
                let mut kids = vec![];
                let a = cx.range(1, 21);
                kids.push(Rc::Data("", *b"INAM", cx.ascii(a)));
                if cx.chance(1, 2) {
                    let a = cx.range(1, 21);
                    kids.push(Rc::Data("", *b"IART", cx.ascii(a)));
                }
                if cx.chance(1, 2) {
                    kids.push(Rc::Data("", *b"ISFT", b"verif\0".to_vec()));
                }
                rest.push(Rc::List(*b"LIST", *b"INFO", kids));
            }
            if cx.chance(1, 5) {
                rest.push(Rc::Data("", *b"fact", le32(n).to_vec()));
            }
            if cx.chance(1, 6) {
                rest.push(Rc::Data("", *b"cue ", le32(0).to_vec()));
            }
            if cx.chance(1, 6) {
                rest.push(junk(cx));
            }
            if cx.chance(1, 6) {
                let a = cx.range(1, 50);
                rest.push(Rc::Data("", *b"bext", cx.bytes(a)));
            }
            if cx.chance(1, 5) {
                rest.push(Rc::Data("", *b"_PMX", cx.xmp()));
                w.note("xmp(_PMX)");
            }
            cx.shuffle(&mut rest);
            top.push(Rc::Data("", *b"fmt ", fmt));
            top.extend(rest);
            w.note(format!("{ch}ch {rate}Hz {bits}bit"));
        }
        "webp" => {
            form = *b"WEBP";
            let (iw, ih) = (cx.range(1, 500), cx.range(1, 500));
            let lossless = cx.chance(1, 3);
            let bitstream = |cx: &mut Cx| -> Rc {
                let n = cx.around(cx.size, 16);
                if lossless {
                    let mut d = vec![0x2F];
                    let v = ((iw - 1) as u32) | (((ih - 1) as u32) << 14);
                    d.extend_from_slice(&v.to_le_bytes());
                    d.extend(cx.bytes(n));
                    Rc::Data("", *b"VP8L", d)
                } else {
                    let mut d = vec![0x30, 0x01, 0x00, 0x9D, 0x01, 0x2A];
                    d.extend_from_slice(&le16(iw));
                    d.extend_from_slice(&le16(ih));
                    d.extend(cx.bytes(n));
                    Rc::Data("", *b"VP8 ", d)
                }
            };
            if cx.chance(1, 2) {
                // extended format
                let icc = cx.chance(1, 4);
                let alpha = !lossless && cx.chance(1, 4);
                let exif = cx.chance(1, 3);
                let xmp = cx.chance(1, 3);
                let flags = (icc as u8) << 5 | (alpha as u8) << 4 | (exif as u8) << 3 | (xmp as u8) << 2;
                let mut d = vec![flags, 0, 0, 0];
                d.extend_from_slice(&((iw - 1) as u32).to_le_bytes()[..3]);
                d.extend_from_slice(&((ih - 1) as u32).to_le_bytes()[..3]);
                top.push(Rc::Data("", *b"VP8X", d));
                if icc {
                    let a = cx.range(1, 130);
                    top.push(Rc::Data("", *b"ICCP", cx.bytes(a)));
                }
                if alpha {
                    let a = cx.range(1, 100);
                    top.push(Rc::Data("", *b"ALPH", cx.bytes(a)));
                }
                top.push(bitstream(cx));
                if exif {
                    let a = cx.range(8, 61);
                    top.push(Rc::Data("", *b"EXIF", cx.bytes(a)));
                }
                if xmp {
                    top.push(Rc::Data("", *b"XMP ", cx.xmp()));
                    w.note("xmp");
                }
                if cx.chance(1, 8) {
                    let a = cx.range(0, 21);
                    top.push(Rc::Data("", *b"UNKN", cx.bytes(a)));
                }
                w.note("VP8X");
            } else {
                top.push(bitstream(cx));
            }
            w.note(if lossless { "lossless" } else { "lossy" });
        }
        _ => {
            form = *b"AVI ";
            let nframes = cx.range(1, 6);
            let mut avih = vec![0u8; 56];
            avih[0..4].copy_from_slice(&le32(33333));
            avih[16..20].copy_from_slice(&le32(nframes));
            avih[24..28].copy_from_slice(&le32(1));
            avih[32..36].copy_from_slice(&le32(160));
            avih[36..40].copy_from_slice(&le32(120));
            let mut strh = vec![0u8; 56];
            strh[0..4].copy_from_slice(b"vids");
            strh[4..8].copy_from_slice(b"MJPG");
            strh[20..24].copy_from_slice(&le32(1));
            strh[24..28].copy_from_slice(&le32(30));
            strh[32..36].copy_from_slice(&le32(nframes));
            let mut strf = vec![0u8; 40];
            strf[0..4].copy_from_slice(&le32(40));
            strf[4..8].copy_from_slice(&le32(160));
            strf[8..12].copy_from_slice(&le32(120));
            strf[12..14].copy_from_slice(&le16(1));
            strf[14..16].copy_from_slice(&le16(24));
            strf[16..20].copy_from_slice(b"MJPG");
            let mut strl = vec![Rc::Data("", *b"strh", strh), Rc::Data("", *b"strf", strf)];
            if cx.chance(1, 3) {
                let a = cx.range(1, 16);
                strl.push(Rc::Data("", *b"strn", cx.ascii(a)));
            }
            let mut hdrl = vec![Rc::Data("", *b"avih", avih), Rc::List(*b"LIST", *b"strl", strl)];
            if cx.chance(1, 4) {
                hdrl.push(junk(cx));
            }
            top.push(Rc::List(*b"LIST", *b"hdrl", hdrl));
            if cx.chance(1, 3) {
                let a = cx.range(1, 30);
                top.push(Rc::List(*b"LIST", *b"INFO", vec![Rc::Data("", *b"ISFT", cx.ascii(a))]));
            }
            if cx.chance(1, 3) {
                top.push(junk(cx));
            }
            let mut frames = vec![];
            let mut idx = vec![];
            let mut rel = 4usize;
            for _ in 0..nframes {
                let n = cx.around(cx.size / nframes, 1);
                idx.extend_from_slice(b"00dc");
                idx.extend_from_slice(&le32(0x10));
                idx.extend_from_slice(&le32(rel));
                idx.extend_from_slice(&le32(n));
                rel += 8 + n + (n & 1);
                frames.push(Rc::Data("", *b"00dc", cx.bytes(n)));
            }
            top.push(Rc::List(*b"LIST", *b"movi", frames));
            if cx.chance(2, 3) {
                top.push(Rc::Data("", *b"idx1", idx));
            }
            // OpenDML: further RIFF 'AVIX' chunks after the first RIFF chunk
            for _ in 0..(if cx.chance(1, 4) { cx.range(1, 2) } else { 0 }) {
                let n = cx.range(1, 200);
                extra_riffs.push(Rc::List(*b"RIFF", *b"AVIX", vec![Rc::List(*b"LIST", *b"movi", vec![Rc::Data("", *b"00dc", cx.bytes(n))])]));
                w.note("AVIX");
            }
            w.note(format!("{nframes} frames"));
        }
    }
    if let Some(s) = cx.store.clone() {
        // the C2PA chunk may be anywhere among the children of the first RIFF chunk (the SDK looks at all of them)
        let at = if cx.chance(1, 2) { top.len() } else { cx.range(1, top.len()) };
        top.insert(at, Rc::Data("C2PA", *b"C2PA", s));
        w.note("c2pa");
    }
    let riff = Rc::List(*b"RIFF", form, top);
    rc_write(w, &riff, "");
    for r in &extra_riffs {
        rc_write(w, r, "");
    }
}

// ------------------------------------------------------------------------------------------------
// TIFF (classic, II / MM, multi-page, strips or tiles in any file order, XMP, Exif IFD, SubIFD)
// ------------------------------------------------------------------------------------------------

#[derive(Clone)]
enum TVal {
    /// value bytes (file byte order), stored inline when <= 4 bytes, else out of line
    Bytes(Vec<u8>),
    /// array of LONG offsets to blobs (strip / tile data)
    Offsets(Vec<usize>),
    /// LONG offsets to child IFD blobs
    Ifds(Vec<usize>),
}

#[derive(Clone)]
struct TEnt {
    tag: u16,
    typ: u16,
    count: u32,
    val: TVal,
}

enum TBlob {
    Raw(Vec<u8>),
    /// an IFD: entries + index of the next IFD blob
    Ifd(Vec<TEnt>, Option<usize>),
    /// out-of-line array of offsets to other blobs
    OffArray(Vec<usize>),
}

struct TB {
    name: String,
    blob: TBlob,
    off: usize,
}

fn tiff_size(b: &TBlob) -> usize {
    match b {
        TBlob::Raw(v) => v.len(),
        TBlob::Ifd(e, _) => 2 + 12 * e.len() + 4,
        TBlob::OffArray(v) => 4 * v.len(),
    }
}

fn gen_tiff(cx: &mut Cx, w: &mut W) {
    let le = cx.pick(&[true, false]);
    let u16b = move |v: usize| if le { (v as u16).to_le_bytes() } else { (v as u16).to_be_bytes() };
    let u32b = move |v: usize| if le { (v as u32).to_le_bytes() } else { (v as u32).to_be_bytes() };
    let npages = cx.pick(&[1usize, 1, 2, 3]);
    let mut blobs: Vec<TB> = vec![];
    let mut page_ifds: Vec<usize> = vec![];

    // builds one image IFD (page or SubIFD) and its data blobs; returns the IFD blob index
    fn image_ifd(
        cx: &mut Cx,
        blobs: &mut Vec<TB>,
        name: &str,
        first_page: bool,
        budget: usize,
        u16b: &dyn Fn(usize) -> [u8; 2],
        u32b: &dyn Fn(usize) -> [u8; 4],
        allow_sub: bool,
    ) -> usize {
        let spp = cx.pick(&[1usize, 3]);
        let width = cx.range(1, 40);
        let tiled = cx.chance(1, 5);
        let nseg = cx.range(1, 4);
        let rows_per = (budget / nseg / (width * spp)).max(1);
        let mut ents: Vec<TEnt> = vec![];
        let short = |tag: u16, v: usize| TEnt { tag, typ: 3, count: 1, val: TVal::Bytes(u16b(v).to_vec()) };
        let long = |tag: u16, v: usize| TEnt { tag, typ: 4, count: 1, val: TVal::Bytes(u32b(v).to_vec()) };
        if cx.chance(1, 3) {
            ents.push(long(254, if first_page { 0 } else { 2 }));
        }
        ents.push(if cx.chance(1, 2) { short(256, width) } else { long(256, width) });
        ents.push(short(257, rows_per * nseg));
        let mut bps = vec![];
        for _ in 0..spp {
            bps.extend_from_slice(&u16b(8));
        }
        ents.push(TEnt { tag: 258, typ: 3, count: spp as u32, val: TVal::Bytes(bps) });
        ents.push(short(259, 1));
        ents.push(short(262, if spp == 3 { 2 } else { 1 }));
        if cx.chance(1, 3) {
            let n = cx.range(1, 40);
            let mut s = cx.ascii(n);
            s.push(0);
            ents.push(TEnt { tag: 270, typ: 2, count: s.len() as u32, val: TVal::Bytes(s) });
        }
        let mut seg_ids = vec![];
        let mut counts = vec![];
        for i in 0..nseg {
            let n = if tiled { width * spp * rows_per } else { width * spp * rows_per };
            let data = cx.bytes(n);
            counts.push(n);
            blobs.push(TB { name: format!("{name}.{}[{i}].data", if tiled { "tile" } else { "strip" }), blob: TBlob::Raw(data), off: 0 });
            seg_ids.push(blobs.len() - 1);
        }
        let short_counts = counts.iter().all(|c| *c < 65536) && cx.chance(1, 2);
        let mut cb = vec![];
        for c in &counts {
            if short_counts {
                cb.extend_from_slice(&u16b(*c));
            } else {
                cb.extend_from_slice(&u32b(*c));
            }
        }
        let counts_ent = |tag: u16| TEnt { tag, typ: if short_counts { 3 } else { 4 }, count: nseg as u32, val: TVal::Bytes(cb.clone()) };
        if tiled {
            ents.push(short(277, spp));
            ents.push(short(322, width));
            ents.push(short(323, rows_per));
            ents.push(TEnt { tag: 324, typ: 4, count: nseg as u32, val: TVal::Offsets(seg_ids.clone()) });
            ents.push(counts_ent(325));
        } else {
            ents.push(TEnt { tag: 273, typ: 4, count: nseg as u32, val: TVal::Offsets(seg_ids.clone()) });
            ents.push(short(277, spp));
            ents.push(short(278, rows_per));
            ents.push(counts_ent(279));
        }
        if cx.chance(1, 2) {
            for tag in [282u16, 283] {
                let mut r = u32b(72).to_vec();
                r.extend_from_slice(&u32b(1));
                ents.push(TEnt { tag, typ: 5, count: 1, val: TVal::Bytes(r) });
            }
            ents.push(short(296, 2));
        }
        if cx.chance(1, 4) {
            ents.push(TEnt { tag: 305, typ: 2, count: 6, val: TVal::Bytes(b"verif\0".to_vec()) });
        }
        if allow_sub && cx.chance(1, 6) {
            let nsub = cx.range(1, 2);
            let mut ids = vec![];
            for s in 0..nsub {
                ids.push(image_ifd(cx, blobs, &format!("{name}.sub{s}"), false, 60, u16b, u32b, false));
            }
            ents.push(TEnt { tag: 330, typ: 4, count: nsub as u32, val: TVal::Ifds(ids) });
        }
        if first_page && cx.chance(1, 3) {
            let x = cx.xmp();
            ents.push(TEnt { tag: 700, typ: 1, count: x.len() as u32, val: TVal::Bytes(x) });
        }
        if allow_sub && cx.chance(1, 5) {
            let exif = vec![
                TEnt { tag: 36864, typ: 7, count: 4, val: TVal::Bytes(b"0231".to_vec()) },
                TEnt { tag: 37510, typ: 7, count: 20, val: TVal::Bytes(cx.bytes(20)) },
            ];
            blobs.push(TB { name: format!("{name}.exif"), blob: TBlob::Ifd(exif, None), off: 0 });
            let id = blobs.len() - 1;
            ents.push(TEnt { tag: 34665, typ: 4, count: 1, val: TVal::Ifds(vec![id]) });
        }
        ents.sort_by_key(|e| e.tag);
        blobs.push(TB { name: name.to_string(), blob: TBlob::Ifd(ents, None), off: 0 });
        blobs.len() - 1
    }

    for p in 0..npages {
        let id = image_ifd(cx, &mut blobs, &format!("ifd{p}"), p == 0, cx.size / npages, &u16b, &u32b, true);
        page_ifds.push(id);
    }
    if let Some(store) = cx.store.clone() {
        let ent = TEnt { tag: 0xCD41, typ: 7, count: store.len() as u32, val: TVal::Bytes(store) };
        if npages == 1 {
            // single page: the C2PA tag lives in the only IFD
            if let TBlob::Ifd(ents, _) = &mut blobs[page_ifds[0]].blob {
                ents.push(ent);
                ents.sort_by_key(|e| e.tag);
            }
            w.note("c2pa-in-ifd0");
        } else {
            // multi page: an IFD of its own at the end of the chain
            blobs.push(TB { name: format!("ifd{npages}"), blob: TBlob::Ifd(vec![ent], None), off: 0 });
            page_ifds.push(blobs.len() - 1);
            w.note("c2pa-own-ifd");
        }
    }
    for p in 0..page_ifds.len().saturating_sub(1) {
        let next = page_ifds[p + 1];
        if let TBlob::Ifd(_, n) = &mut blobs[page_ifds[p]].blob {
            *n = Some(next);
        }
    }
    // materialise out-of-line values (> 4 bytes) and offset arrays (> 1 entry) as blobs of their own
    let nb = blobs.len();
    for i in 0..nb {
        let name = blobs[i].name.clone();
        let base = blobs.len();
        let mut new_blobs: Vec<TB> = vec![];
        if let TBlob::Ifd(ents, _) = &mut blobs[i].blob {
            for e in ents.iter_mut() {
                let nb = match &e.val {
                    TVal::Bytes(v) if v.len() > 4 => TBlob::Raw(v.clone()),
                    TVal::Offsets(ids) | TVal::Ifds(ids) if ids.len() > 1 => TBlob::OffArray(ids.clone()),
                    _ => continue,
                };
                let bname = if e.tag == 0xCD41 { "C2PA.data".to_string() } else { format!("{name}.tag{}.data", e.tag) };
                new_blobs.push(TB { name: bname, blob: nb, off: 0 });
                e.val = TVal::Offsets(vec![base + new_blobs.len() - 1]);
            }
        }
        blobs.extend(new_blobs);
    }
    // placement: header first, everything else in random order on word boundaries
    let mut order: Vec<usize> = (0..blobs.len()).collect();
    cx.shuffle(&mut order);
    let mut at = 8usize;
    let mut pads: Vec<(usize, usize)> = vec![]; // (blob index, pad before)
    for &i in &order {
        let align = if matches!(blobs[i].blob, TBlob::Ifd(..)) && cx.chance(1, 2) { 4 } else { 2 };
        let mut pad = (align - at % align) % align;
        if cx.chance(1, 10) {
            pad += 2 * cx.range(1, 4);
        }
        pads.push((i, pad));
        at += pad;
        blobs[i].off = at;
        at += tiff_size(&blobs[i].blob);
    }
    // serialise
    w.put("header.order", if le { b"II" } else { b"MM" });
    w.put("header.magic", &u16b(42));
    w.offsets.push(OffsetRef {
        table: "header.ifd0".into(),
        entry_pos: 4,
        width: 4,
        target: blobs[page_ifds[0]].off,
        target_len: tiff_size(&blobs[page_ifds[0]].blob),
    });
    w.put("header.ifd0-offset", &u32b(blobs[page_ifds[0]].off));
    let offs: Vec<usize> = blobs.iter().map(|b| b.off).collect();
    let sizes: Vec<usize> = blobs.iter().map(|b| tiff_size(&b.blob)).collect();
    for (k, &(i, pad)) in pads.iter().enumerate() {
        if pad > 0 {
            w.put(format!("pad[{k}].data"), &vec![0u8; pad]);
        }
        debug_assert_eq!(w.pos(), blobs[i].off);
        let name = blobs[i].name.clone();
        match &blobs[i].blob {
            TBlob::Raw(v) => w.put(name, v),
            TBlob::OffArray(ids) => {
                for (j, id) in ids.iter().enumerate() {
                    let pos = w.pos();
                    w.offsets.push(OffsetRef { table: format!("{}", name.trim_end_matches(".data")), entry_pos: pos, width: 4, target: offs[*id], target_len: sizes[*id] });
                    w.put(format!("{}[{j}]", name.trim_end_matches(".data")), &u32b(offs[*id]));
                }
            }
            TBlob::Ifd(ents, next) => {
                w.put(format!("{name}.count"), &u16b(ents.len()));
                for e in ents {
                    let u = format!("{name}.entry{}", e.tag);
                    w.put(format!("{u}.tag"), &u16b(e.tag as usize));
                    w.put(format!("{u}.type"), &u16b(e.typ as usize));
                    w.put(format!("{u}.count"), &u32b(e.count as usize));
                    let mut field = vec![0u8; 4];
                    match &e.val {
                        TVal::Bytes(v) => field[..v.len()].copy_from_slice(v),
                        TVal::Offsets(ids) | TVal::Ifds(ids) => {
                            let id = ids[0];
                            field = u32b(offs[id]).to_vec();
                            let pos = w.pos();
                            w.offsets.push(OffsetRef { table: format!("{name}.tag{}", e.tag), entry_pos: pos, width: 4, target: offs[id], target_len: sizes[id] });
                        }
                    }
                    w.put(format!("{u}.value"), &field);
                }
                let nx = next.map(|n| offs[n]).unwrap_or(0);
                if let Some(n) = next {
                    let pos = w.pos();
                    w.offsets.push(OffsetRef { table: format!("{name}.next"), entry_pos: pos, width: 4, target: offs[*n], target_len: sizes[*n] });
                }
                w.put(format!("{name}.next"), &u32b(nx));
            }
        }
    }
    if cx.chance(1, 6) {
        let n = cx.range(1, 30);
        let t = cx.bytes(n);
        w.put("trailing.data", &t);
        w.note("trailing");
    }
    w.note(format!("{} {} page(s) {} blobs", if le { "II" } else { "MM" }, npages, blobs.len()));
}

// ------------------------------------------------------------------------------------------------
// SVG
// ------------------------------------------------------------------------------------------------

fn gen_svg(cx: &mut Cx, w: &mut W) {
    if cx.chance(1, 5) {
        w.put("bom", &[0xEF, 0xBB, 0xBF]);
        w.note("bom");
    }
    if cx.simple || cx.chance(2, 3) {
        let q = cx.pick(&['"', '\'']);
        w.put("xml-decl", format!("<?xml version={q}1.0{q} encoding={q}UTF-8{q}?>").as_bytes());
        w.put("ws[0]", cx.pick(&["\n", "\r\n", "\n\n"]).as_bytes());
    }
    if cx.chance(1, 4) {
        w.put("comment[0]", b"<!-- generated for verification -->\n");
    }
    if cx.chance(1, 6) {
        w.put("doctype", b"<!DOCTYPE svg PUBLIC \"-//W3C//DTD SVG 1.1//EN\" \"http://www.w3.org/Graphics/SVG/1.1/DTD/svg11.dtd\">\n");
    }
    let (sw, sh) = (cx.range(1, 999), cx.range(1, 999));
    let mut open = String::from("<svg xmlns=\"http://www.w3.org/2000/svg\"");
    if cx.chance(1, 2) {
        open.push_str(" xmlns:xlink=\"http://www.w3.org/1999/xlink\"");
    }
    if cx.store.is_some() {
        open.push_str(" xmlns:c2pa=\"http://c2pa.org/manifest\"");
    }
    open.push_str(&format!(" width=\"{sw}\" height='{sh}'"));
    if cx.chance(1, 2) {
        open.push_str(&format!(" viewBox=\"0 0 {sw} {sh}\""));
    }
    if cx.chance(1, 4) {
        open.push_str("\n    version=\"1.1\"");
    }
    open.push('>');
    w.put("svg-open", open.as_bytes());
    let mut kids: Vec<String> = vec![];
    let nshapes = cx.range(1, (cx.size / 60).clamp(1, 400));
    for _ in 0..nshapes {
        let s = match cx.range(0, 5) {
            0 => format!("<rect x=\"{}\" y=\"{}\" width=\"{}\" height=\"{}\" fill=\"#{:06x}\"/>", cx.range(0, 99), cx.range(0, 99), cx.range(1, 99), cx.range(1, 99), cx.range(0, 0xFFFFFF)),
            1 => format!("<circle cx=\"{}\" cy=\"{}\" r=\"{}\"/>", cx.range(0, 99), cx.range(0, 99), cx.range(1, 50)),
            2 => format!("<g id=\"g{}\"><path d=\"M{} {} L{} {} Z\"/><metadata>nested, not the C2PA place</metadata></g>", cx.range(0, 999), cx.range(0, 99), cx.range(0, 99), cx.range(0, 99), cx.range(0, 99)),
            3 => format!("<text x=\"{}\" y=\"{}\">{} &amp; &lt;more&gt; it's \"raw\" quotes</text>", cx.range(0, 99), cx.range(0, 99), String::from_utf8(cx.ascii(10)).unwrap()),
            4 => format!("<style><![CDATA[ .c{} {{ fill: red; }} /* <metadata> in CDATA */ ]]></style>", cx.range(0, 99)),
            _ => "<!-- a comment with <svg> and <metadata> inside -->".to_string(),
        };
        kids.push(s);
    }
    if cx.chance(1, 3) {
        kids.push(format!("<title>{}</title>", String::from_utf8(cx.ascii(12)).unwrap()));
    }
    if cx.chance(1, 3) {
        kids.push("<desc>\u{00e9}\u{4e2d}\u{6587} description</desc>".to_string());
    }
    cx.shuffle(&mut kids);
    // at most one top-level <metadata> element (start/end form), optionally with XMP inside
    let meta = if cx.store.is_some() { cx.range(1, 3) } else { cx.range(0, 3) };
    let mut c2pa_child = usize::MAX;
    if meta > 0 {
        let inner = match meta {
            1 => String::new(),
            2 => String::from_utf8(cx.xmp()).unwrap(),
            _ => "<rdf:RDF xmlns:rdf=\"http://www.w3.org/1999/02/22-rdf-syntax-ns#\"><rdf:Description/></rdf:RDF>".to_string(),
        };
        let at = cx.range(0, kids.len());
        let mut inner = inner;
        if let Some(st) = &cx.store {
            use base64::Engine;
            let enc = base64::engine::general_purpose::STANDARD.encode(st);
            // the manifest element first (where the SDK writes it) or after the other metadata content
            let el = format!("<c2pa:manifest>{enc}</c2pa:manifest>");
            inner = if cx.chance(1, 3) { format!("{inner}{el}") } else { format!("{el}{inner}") };
            c2pa_child = at;
        }
        kids.insert(at, format!("<metadata>{inner}</metadata>"));
        w.note(format!("metadata{meta}"));
    }
    let sep = cx.pick(&["\n  ", "\n", "", "\r\n\t"]);
    for (i, k) in kids.iter().enumerate() {
        if !sep.is_empty() {
            let u = w.unit("ws");
            w.put(u, sep.as_bytes());
        }
        if i == c2pa_child {
            let a = k.find("<c2pa:manifest>").unwrap();
            let b = k.find("</c2pa:manifest>").unwrap() + "</c2pa:manifest>".len();
            w.put("C2PA-metadata.open", k[..a].as_bytes());
            w.put("C2PA.data", k[a..b].as_bytes());
            w.put("C2PA-metadata.close", k[b..].as_bytes());
            w.note("c2pa");
            continue;
        }
        let u = w.unit("child");
        w.put(u, k.as_bytes());
    }
    if !sep.is_empty() {
        let u = w.unit("ws");
        w.put(u, b"\n");
    }
    w.put("svg-close", b"</svg>");
    match cx.range(0, 3) {
        1 => w.put("trailing", b"\n"),
        2 => w.put("trailing", b"\n<!-- end -->\n"),
        _ => {}
    }
    w.note(format!("{nshapes} shapes"));
}

// ------------------------------------------------------------------------------------------------
// ID3v2 tag (shared by MP3 and FLAC), MP3, FLAC
// ------------------------------------------------------------------------------------------------

fn syncsafe(n: usize) -> [u8; 4] {
    [((n >> 21) & 0x7F) as u8, ((n >> 14) & 0x7F) as u8, ((n >> 7) & 0x7F) as u8, (n & 0x7F) as u8]
}

fn gen_id3(cx: &mut Cx, w: &mut W) {
    let v4 = cx.pick(&[false, true]);
    let mut frames: Vec<(&'static str, Vec<u8>)> = vec![];
    for id in ["TIT2", "TPE1", "TALB", "TCON"] {
        if cx.chance(1, 2) {
            let n = cx.range(1, 30);
            let mut d = vec![if v4 && cx.chance(1, 2) { 3 } else { 0 }];
            d.extend(cx.ascii(n));
            frames.push((id, d));
        }
    }
    if cx.chance(1, 3) {
        let mut d = vec![0];
        d.extend_from_slice(b"eng");
        d.extend_from_slice(b"note\0");
        let n = cx.range(0, 40);
        d.extend(cx.ascii(n));
        frames.push(("COMM", d));
    }
    if cx.chance(1, 3) {
        let mut d = b"org.verif\0".to_vec();
        let n = cx.range(0, 40);
        d.extend(cx.bytes(n));
        frames.push(("PRIV", d));
    }
    if cx.chance(1, 4) {
        let mut d = vec![0];
        d.extend_from_slice(b"application/octet-stream\0blob.bin\0a blob\0");
        let n = cx.range(0, 60);
        d.extend(cx.bytes(n));
        frames.push(("GEOB", d));
    }
    if cx.chance(1, 4) {
        let mut d = vec![0];
        d.extend_from_slice(b"image/png\0\x03cover\0");
        let n = cx.range(1, 80);
        d.extend(cx.bytes(n));
        frames.push(("APIC", d));
    }
    if let Some(s) = cx.store.clone() {
        let mut d = vec![0];
        d.extend_from_slice(b"application/c2pa\0c2pa\0c2pa manifest store\0");
        d.extend(s);
        frames.push(("C2PA-GEOB", d));
    }
    cx.shuffle(&mut frames);
    let padding = if cx.chance(1, 3) { cx.range(1, 64) } else { 0 };
    let body: usize = frames.iter().map(|(_, d)| 10 + d.len()).sum::<usize>() + padding;
    let mut h = b"ID3".to_vec();
    h.extend_from_slice(&[if v4 { 4 } else { 3 }, 0, 0]);
    h.extend_from_slice(&syncsafe(body));
    w.put("ID3.header", &h);
    for (id, d) in frames {
        let c2pa = id == "C2PA-GEOB";
        let u = w.unit(&if c2pa { "C2PA-GEOB".to_string() } else { format!("ID3-{id}") });
        let mut fh = (if c2pa { "GEOB" } else { id }).as_bytes().to_vec();
        if v4 {
            fh.extend_from_slice(&syncsafe(d.len()));
        } else {
            fh.extend_from_slice(&be32(d.len()));
        }
        fh.extend_from_slice(&[0, 0]);
        w.put(format!("{u}.hdr"), &fh);
        w.put(format!("{u}.data"), &d);
    }
    if padding > 0 {
        w.put("ID3.padding", &vec![0u8; padding]);
    }
    w.note(format!("id3v2.{}", if v4 { 4 } else { 3 }));
}

fn gen_mp3(cx: &mut Cx, w: &mut W) {
    if cx.store.is_some() || cx.chance(1, 2) {
        gen_id3(cx, w);
    }
    // MPEG-1 layer III, 128 kbit/s, 44.1 kHz: 417-byte frames (418 with the padding bit)
    let nframes = (cx.size / 417).max(1);
    for _ in 0..nframes {
        let pad = cx.chance(1, 4);
        let u = w.unit("frame");
        w.put(format!("{u}.hdr"), &[0xFF, 0xFB, if pad { 0x92 } else { 0x90 }, cx.pick(&[0x00u8, 0x40, 0xC0])]);
        let d = cx.bytes(413 + pad as usize);
        w.put(format!("{u}.data"), &d);
    }
    if cx.chance(1, 5) {
        let mut t = b"TAG".to_vec();
        t.extend(cx.ascii(124));
        t.push(12);
        w.put("ID3v1", &t);
        w.note("id3v1");
    }
    w.note(format!("{nframes} frames"));
}

fn gen_flac(cx: &mut Cx, w: &mut W) {
    if cx.store.is_some() || cx.chance(1, 3) {
        gen_id3(cx, w);
    }
    w.put("fLaC", b"fLaC");
    let mut blocks: Vec<(u8, &'static str, Vec<u8>)> = vec![];
    if cx.chance(1, 2) {
        let mut d = le32(5).to_vec();
        d.extend_from_slice(b"verif");
        d.extend_from_slice(&le32(1));
        let c = b"TITLE=test";
        d.extend_from_slice(&le32(c.len()));
        d.extend_from_slice(c);
        blocks.push((4, "VORBIS_COMMENT", d));
    }
    if cx.chance(1, 3) {
        let n = cx.range(0, 64);
        blocks.push((1, "PADDING", vec![0; n]));
    }
    if cx.chance(1, 3) {
        let mut d = b"vrfy".to_vec();
        let n = cx.range(0, 40);
        d.extend(cx.bytes(n));
        blocks.push((2, "APPLICATION", d));
    }
    if cx.chance(1, 4) {
        blocks.push((3, "SEEKTABLE", vec![0xFF; 18]));
    }
    if cx.chance(1, 5) {
        let mut d = be32(3).to_vec();
        d.extend_from_slice(&be32(9));
        d.extend_from_slice(b"image/png");
        d.extend_from_slice(&be32(0));
        d.extend_from_slice(&[0; 16]);
        let n = cx.range(1, 60);
        d.extend_from_slice(&be32(n));
        d.extend(cx.bytes(n));
        blocks.push((6, "PICTURE", d));
    }
    cx.shuffle(&mut blocks);
    let mut si = vec![0x10, 0x00, 0x10, 0x00, 0, 0, 0x0E, 0, 0x10, 0x00];
    si.extend_from_slice(&[0x0A, 0xC4, 0x42, 0xF0, 0x00, 0x00, 0x10, 0x00]);
    si.extend(cx.bytes(16));
    blocks.insert(0, (0, "STREAMINFO", si));
    let last = blocks.len() - 1;
    for (i, (t, name, d)) in blocks.iter().enumerate() {
        let u = w.unit(name);
        let mut h = vec![t | if i == last { 0x80 } else { 0 }];
        h.extend_from_slice(&be32(d.len())[1..]);
        w.put(format!("{u}.hdr"), &h);
        w.put(format!("{u}.data"), d);
    }
    let nframes = cx.range(1, 4);
    for _ in 0..nframes {
        let u = w.unit("frame");
        w.put(format!("{u}.hdr"), &[0xFF, 0xF8, 0xC9, 0x18]);
        let n = cx.around(cx.size / nframes, 4);
        let d = cx.bytes(n);
        w.put(format!("{u}.data"), &d);
    }
    w.note(format!("{} metadata blocks", blocks.len()));
}

// ------------------------------------------------------------------------------------------------
// JPEG XL container
// ------------------------------------------------------------------------------------------------

fn iso_box(w: &mut W, name: &str, typ: &[u8; 4], data: &[u8], to_eof: bool, large: bool) {
    let u = w.unit(name);
    let mut h = vec![];
    if to_eof {
        h.extend_from_slice(&be32(0));
        h.extend_from_slice(typ);
    } else if large {
        h.extend_from_slice(&be32(1));
        h.extend_from_slice(typ);
        h.extend_from_slice(&((16 + data.len()) as u64).to_be_bytes());
    } else {
        h.extend_from_slice(&be32(8 + data.len()));
        h.extend_from_slice(typ);
    }
    w.put(format!("{u}.hdr"), &h);
    w.put(format!("{u}.data"), data);
}

fn gen_jxl(cx: &mut Cx, w: &mut W) {
    iso_box(w, "JXL", b"JXL ", &[0x0D, 0x0A, 0x87, 0x0A], false, false);
    iso_box(w, "ftyp", b"ftyp", b"jxl \0\0\0\0jxl ", false, false);
    #[derive(Clone, Copy, PartialEq)]
    enum J {
        Level,
        Exif,
        Xml,
        OtherJumb,
        Unknown,
        Code,
        C2pa,
    }
    let mut pre: Vec<J> = vec![];
    let mut post: Vec<J> = vec![];
    for (j, num, den) in [(J::Exif, 1, 3), (J::Xml, 1, 3), (J::OtherJumb, 1, 5), (J::Unknown, 1, 6)] {
        if cx.chance(num, den) {
            if cx.chance(1, 2) {
                pre.push(j)
            } else {
                post.push(j)
            }
        }
    }
    if cx.store.is_some() {
        if cx.chance(2, 3) {
            pre.push(J::C2pa)
        } else {
            post.push(J::C2pa)
        }
    }
    cx.shuffle(&mut pre);
    cx.shuffle(&mut post);
    if cx.chance(1, 4) {
        pre.insert(0, J::Level);
    }
    let mut seq = pre;
    seq.push(J::Code);
    seq.extend(post);
    let n = seq.len();
    for (i, j) in seq.into_iter().enumerate() {
        let is_last = i + 1 == n;
        match j {
            J::Level => iso_box(w, "jxll", b"jxll", &[10], false, false),
            J::Exif => {
                let mut d = be32(0).to_vec();
                d.extend_from_slice(b"II*\0\x08\0\0\0\0\0\0\0\0\0");
                let k = cx.range(0, 40);
                d.extend(cx.bytes(k));
                iso_box(w, "Exif", b"Exif", &d, false, false);
            }
            J::Xml => {
                let x = cx.xmp();
                iso_box(w, "xml", b"xml ", &x, false, false);
                w.note("xmp");
            }
            J::OtherJumb => {
                // a JUMBF superbox that is not a C2PA manifest store (label "exif")
                let mut d = be32(8 + 16 + 1 + 5).to_vec();
                d.extend_from_slice(b"jumd");
                d.extend_from_slice(b"json\0\x11\0\x10\x80\0\0\xAA\0\x38\x9B\x71");
                d.push(0x03);
                d.extend_from_slice(b"exif\0");
                let k = cx.range(8, 60);
                d.extend_from_slice(&be32(8 + k));
                d.extend_from_slice(b"json");
                d.extend(cx.ascii(k));
                iso_box(w, "jumb", b"jumb", &d, false, false);
                w.note("other-jumb");
            }
            J::Unknown => {
                let k = cx.range(0, 40);
                let d = cx.bytes(k);
                iso_box(w, "vrfy", b"vrfy", &d, false, false);
            }
            J::C2pa => {
                let s = cx.store.clone().unwrap();
                let u = w.unit("C2PA-jumb");
                w.put(format!("{u}.hdr"), &s[..8.min(s.len())]);
                w.put(format!("{u}.data"), &s[8.min(s.len())..]);
                w.note("c2pa");
            }
            J::Code => {
                let nparts = if cx.chance(1, 2) { 0 } else { cx.range(1, 3) };
                if nparts == 0 {
                    let k = cx.around(cx.size, 2);
                    let mut d = vec![0xFF, 0x0A];
                    d.extend(cx.bytes(k));
                    let eof = is_last && cx.chance(1, 4);
                    let large = !eof && cx.chance(1, 6);
                    iso_box(w, "jxlc", b"jxlc", &d, eof, large);
                    if eof {
                        w.note("size0-last");
                    }
                } else {
                    for p in 0..nparts {
                        let k = cx.around(cx.size / nparts, 2);
                        let idx = p as u32 | if p + 1 == nparts { 0x8000_0000 } else { 0 };
                        let mut d = idx.to_be_bytes().to_vec();
                        if p == 0 {
                            d.extend_from_slice(&[0xFF, 0x0A]);
                        }
                        d.extend(cx.bytes(k));
                        let eof = is_last && p + 1 == nparts && cx.chance(1, 4);
                        iso_box(w, "jxlp", b"jxlp", &d, eof, false);
                        if eof {
                            w.note("size0-last");
                        }
                    }
                    w.note(format!("jxlp x{nparts}"));
                }
            }
        }
    }
}

// ------------------------------------------------------------------------------------------------
// ISO BMFF (mp4, mov, heic, avif, m4a)
// ------------------------------------------------------------------------------------------------

#[derive(Clone)]
struct Fix {
    /// position inside the leaf's data
    rel: usize,
    width: u8,
    blob: usize,
    /// value = off[blob] - off[minus] (relative to an iloc base offset) when set
    minus: Option<usize>,
    table: String,
    /// length of the addressed bytes (chunk / extent run)
    len: usize,
}

enum Bx {
    Leaf { typ: [u8; 4], full: Option<(u8, u32)>, uuid: Option<[u8; 16]>, data: Vec<u8>, fix: Vec<Fix>, large: bool, size0: bool },
    Cont { typ: [u8; 4], full: Option<(u8, u32)>, kids: Vec<Bx> },
}

fn leaf(typ: &[u8; 4], data: Vec<u8>) -> Bx {
    Bx::Leaf { typ: *typ, full: None, uuid: None, data, fix: vec![], large: false, size0: false }
}
fn fleaf(typ: &[u8; 4], v: u8, f: u32, data: Vec<u8>) -> Bx {
    Bx::Leaf { typ: *typ, full: Some((v, f)), uuid: None, data, fix: vec![], large: false, size0: false }
}
fn cont(typ: &[u8; 4], kids: Vec<Bx>) -> Bx {
    Bx::Cont { typ: *typ, full: None, kids }
}

fn bx_hdr_len(b: &Bx) -> usize {
    match b {
        Bx::Leaf { full, uuid, large, .. } => 8 + if *large { 8 } else { 0 } + if uuid.is_some() { 16 } else { 0 } + if full.is_some() { 4 } else { 0 },
        Bx::Cont { full, .. } => 8 + if full.is_some() { 4 } else { 0 },
    }
}

fn bx_size(b: &Bx) -> usize {
    match b {
        Bx::Leaf { data, .. } => bx_hdr_len(b) + data.len(),
        Bx::Cont { kids, .. } => bx_hdr_len(b) + kids.iter().map(bx_size).sum::<usize>(),
    }
}

fn bx_write(w: &mut W, b: &Bx, path: &str, blob_off: &[usize]) {
    let tname = |t: &[u8; 4]| String::from_utf8_lossy(t).trim_end().to_string();
    match b {
        Bx::Leaf { typ, full, uuid, data, fix, large, size0 } => {
            let is_c2pa = uuid.map(|u| u == BMFF_C2PA_UUID).unwrap_or(false);
            let u = w.unit(&format!("{path}{}", if is_c2pa { "C2PA-uuid".to_string() } else { tname(typ) }));
            let total = bx_size(b);
            let mut h = vec![];
            if *large {
                h.extend_from_slice(&be32(1));
                h.extend_from_slice(typ);
                h.extend_from_slice(&(total as u64).to_be_bytes());
            } else {
                h.extend_from_slice(&be32(if *size0 { 0 } else { total }));
                h.extend_from_slice(typ);
            }
            if let Some(x) = uuid {
                h.extend_from_slice(x);
            }
            if let Some((v, f)) = full {
                h.push(*v);
                h.extend_from_slice(&f.to_be_bytes()[1..]);
            }
            w.put(format!("{u}.hdr"), &h);
            let start = w.pos();
            let mut d = data.clone();
            for f in fix {
                let val = match f.minus {
                    Some(m) => blob_off[f.blob] - blob_off[m],
                    None => blob_off[f.blob],
                };
                let be = (val as u64).to_be_bytes();
                d[f.rel..f.rel + f.width as usize].copy_from_slice(&be[8 - f.width as usize..]);
                if f.minus.is_none() {
                    w.offsets.push(OffsetRef { table: f.table.clone(), entry_pos: start + f.rel, width: f.width, target: val, target_len: f.len });
                }
            }
            w.put(format!("{u}.data"), &d);
        }
        Bx::Cont { typ, full, kids } => {
            let u = w.unit(&format!("{path}{}", tname(typ)));
            let mut h = be32(bx_size(b)).to_vec();
            h.extend_from_slice(typ);
            if let Some((v, f)) = full {
                h.push(*v);
                h.extend_from_slice(&f.to_be_bytes()[1..]);
            }
            w.put(format!("{u}.hdr"), &h);
            let p = format!("{u}/");
            for k in kids {
                bx_write(w, k, &p, blob_off);
            }
        }
    }
}

struct Blob {
    name: String,
    data: Vec<u8>,
    mdat: usize,
}

fn hdlr(handler: &[u8; 4], name: &str) -> Bx {
    let mut d = vec![0u8; 4];
    d.extend_from_slice(handler);
    d.extend_from_slice(&[0; 12]);
    d.extend_from_slice(name.as_bytes());
    d.push(0);
    fleaf(b"hdlr", 0, 0, d)
}

fn gen_trak(cx: &mut Cx, t: usize, audio: bool, blobs: &mut Vec<Blob>, nmdat: usize, budget: usize) -> Bx {
    let mut tkhd = vec![0u8; 80];
    tkhd[8..12].copy_from_slice(&be32(t + 1)); // track_ID (version 0: creation, modification, track_ID)
    let mut mdhd = vec![0u8; 20];
    mdhd[8..12].copy_from_slice(&be32(if audio { 44100 } else { 30000 }));
    // samples, chunks
    let long = cx.variant == "long-tables";
    let nsamples = if long { cx.range(1700, 4000) } else { cx.range(1, 12) };
    let fixed = cx.chance(1, 4);
    let fsz = cx.range(1, (budget / nsamples).max(1));
    let sizes: Vec<usize> = (0..nsamples).map(|_| if fixed { fsz } else { cx.around(budget / nsamples, 1) }).collect();
    // partition the samples into chunks
    let mut chunks: Vec<Vec<usize>> = vec![];
    let mut cur: Vec<usize> = vec![];
    let per = if long { 1 } else { cx.range(1, 4) };
    for (i, _) in sizes.iter().enumerate() {
        cur.push(i);
        if cur.len() >= per && cx.chance(2, 3) || cur.len() >= per + 2 {
            chunks.push(std::mem::take(&mut cur));
        }
    }
    if !cur.is_empty() {
        chunks.push(cur);
    }
    let mdat_for_track = cx.range(0, nmdat - 1);
    let mut chunk_blobs = vec![];
    for (c, ch) in chunks.iter().enumerate() {
        let n: usize = ch.iter().map(|i| sizes[*i]).sum();
        let m = if cx.chance(1, 4) { cx.range(0, nmdat - 1) } else { mdat_for_track };
        blobs.push(Blob { name: format!("trak{t}.chunk{c}"), data: cx.bytes(n), mdat: m });
        chunk_blobs.push(blobs.len() - 1);
    }
    // stsd with one opaque sample entry
    let mut stsd = be32(1).to_vec();
    let mut entry = vec![0u8; 6];
    entry.extend_from_slice(&be16(1));
    let k = cx.range(8, 40);
    entry.extend(cx.bytes(k));
    stsd.extend_from_slice(&be32(8 + entry.len()));
    stsd.extend_from_slice(if audio { b"mp4a" } else { b"avc1" });
    stsd.extend(entry);
    let mut stts = be32(1).to_vec();
    stts.extend_from_slice(&be32(nsamples));
    stts.extend_from_slice(&be32(1001));
    // stsc runs
    let mut runs: Vec<(usize, usize)> = vec![];
    for (c, ch) in chunks.iter().enumerate() {
        if runs.last().map(|r| r.1) != Some(ch.len()) {
            runs.push((c + 1, ch.len()));
        }
    }
    let mut stsc = be32(runs.len()).to_vec();
    for (first, per) in &runs {
        stsc.extend_from_slice(&be32(*first));
        stsc.extend_from_slice(&be32(*per));
        stsc.extend_from_slice(&be32(1));
    }
    let mut stsz = vec![];
    if fixed {
        stsz.extend_from_slice(&be32(fsz));
        stsz.extend_from_slice(&be32(nsamples));
    } else {
        stsz.extend_from_slice(&be32(0));
        stsz.extend_from_slice(&be32(nsamples));
        for s in &sizes {
            stsz.extend_from_slice(&be32(*s));
        }
    }
    let co64 = cx.chance(1, 3);
    let wd = if co64 { 8 } else { 4 };
    let mut co = be32(chunks.len()).to_vec();
    let mut fix = vec![];
    for (c, b) in chunk_blobs.iter().enumerate() {
        fix.push(Fix { rel: 4 + c * wd, width: wd as u8, blob: *b, minus: None, table: format!("trak{t}.{}", if co64 { "co64" } else { "stco" }), len: blobs[*b].data.len() });
        co.extend(vec![0u8; wd]);
    }
    let co_box = Bx::Leaf { typ: if co64 { *b"co64" } else { *b"stco" }, full: Some((0, 0)), uuid: None, data: co, fix, large: false, size0: false };
    let mut stbl = vec![fleaf(b"stsd", 0, 0, stsd), fleaf(b"stts", 0, 0, stts)];
    let mut tables = vec![fleaf(b"stsc", 0, 0, stsc), fleaf(b"stsz", 0, 0, stsz), co_box];
    if !audio && cx.chance(1, 3) {
        let mut stss = be32(1).to_vec();
        stss.extend_from_slice(&be32(1));
        tables.push(fleaf(b"stss", 0, 0, stss));
    }
    cx.shuffle(&mut tables);
    stbl.extend(tables);
    let mut dref = be32(1).to_vec();
    dref.extend_from_slice(&be32(12));
    dref.extend_from_slice(b"url ");
    dref.extend_from_slice(&[0, 0, 0, 1]);
    let minf = cont(
        b"minf",
        vec![
            if audio { fleaf(b"smhd", 0, 0, vec![0; 4]) } else { fleaf(b"vmhd", 0, 1, vec![0; 8]) },
            cont(b"dinf", vec![fleaf(b"dref", 0, 0, dref)]),
            cont(b"stbl", stbl),
        ],
    );
    let mdia = cont(b"mdia", vec![fleaf(b"mdhd", 0, 0, mdhd), hdlr(if audio { b"soun" } else { b"vide" }, "verif handler"), minf]);
    let mut kids = vec![fleaf(b"tkhd", 0, 7, tkhd)];
    if cx.chance(1, 4) {
        let mut elst = be32(1).to_vec();
        elst.extend_from_slice(&be32(1000));
        elst.extend_from_slice(&be32(0));
        elst.extend_from_slice(&[0, 1, 0, 0]);
        kids.push(cont(b"edts", vec![fleaf(b"elst", 0, 0, elst)]));
    }
    kids.push(mdia);
    cont(b"trak", kids)
}

fn gen_bmff(cx: &mut Cx, w: &mut W, kind: &str) {
    let image = kind == "heic" || kind == "avif";
    let (major, compat): (&[u8; 4], Vec<&[u8; 4]>) = match kind {
        "mp4" => (cx.pick(&[b"isom", b"mp42"]), vec![b"isom", b"iso2", b"avc1", b"mp41"]),
        "mov" => (b"qt  ", vec![b"qt  "]),
        "heic" => (b"heic", vec![b"mif1", b"heic"]),
        "avif" => (b"avif", vec![b"avif", b"mif1", b"miaf"]),
        _ => (b"M4A ", vec![b"M4A ", b"mp42", b"isom"]),
    };
    let mut ft = major.to_vec();
    ft.extend_from_slice(&be32(if kind == "mov" { 0x20050300 } else { 0 }));
    let ncompat = cx.range(1, compat.len());
    for c in &compat[..ncompat.max(1)] {
        ft.extend_from_slice(*c);
    }
    let nmdat = cx.range(1, 2);
    let mut blobs: Vec<Blob> = vec![];
    let mut tops: Vec<Bx> = vec![];
    let has_moov = !image || cx.chance(1, 6);
    if has_moov {
        let ntrak = if kind == "m4a" || image { 1 } else { cx.range(1, 3) };
        let mut kids = vec![fleaf(b"mvhd", 0, 0, {
            let mut d = vec![0u8; 96];
            d[8..12].copy_from_slice(&be32(1000));
            d[92..96].copy_from_slice(&be32(ntrak + 1));
            d
        })];
        for t in 0..ntrak {
            let audio = kind == "m4a" || (t > 0 && cx.chance(1, 2));
            let budget = if image { 64 } else { cx.size / ntrak };
            kids.push(gen_trak(cx, t, audio, &mut blobs, nmdat, budget));
        }
        if cx.chance(1, 3) {
            let mut ukids = vec![];
            if kind == "m4a" || cx.chance(1, 2) {
                let n = cx.range(8, 40);
                ukids.push(Bx::Cont { typ: *b"meta", full: Some((0, 0)), kids: vec![hdlr(b"mdir", ""), leaf(b"ilst", cx.bytes(n))] });
            } else {
                let n = cx.range(0, 30);
                ukids.push(leaf(b"\xA9nam", cx.bytes(n)));
            }
            kids.push(cont(b"udta", ukids));
        }
        tops.push(cont(b"moov", kids));
    }
    if image {
        // meta: hdlr, pitm, iloc, iinf, optional idat
        let iloc_v = if cx.variant == "iloc-v1-base-noindex" { 1 } else { cx.pick(&[0u8, 1, 0, 1, 2]) };
        let nitems = cx.range(1, 3);
        let length_size = cx.pick(&[4usize, 8]);
        // base offsets: 0 (absolute extent offsets) or a real base with relative extents. With version 1 the SDK
        // reads a phantom extent_index of base_offset_size bytes, so version 1 keeps base_offset_size == 0
        // (or index_size == base_offset_size, where both parsers agree).
        let mut base_size = if iloc_v != 1 { cx.pick(&[0usize, 4, 8]) } else { cx.pick(&[0usize, 0, 4]) };
        let mut index_size = if iloc_v == 1 { base_size } else { 0 };
        if cx.variant == "iloc-v1-base-noindex" {
            base_size = 4;
            index_size = 0;
        }
        if cx.variant == "iloc-zero-base" {
            base_size = 4;
            index_size = if iloc_v == 1 { 4 } else { 0 };
        }
        if !cx.variant.is_empty() {
            w.note(format!("variant {}", cx.variant));
        }
        // offset_size 0 (as AVIF writers do): every item is a single extent located by its base offset alone
        let all_single = base_size > 0 && cx.variant.is_empty() && cx.chance(1, 3);
        let offset_size = if all_single { 0 } else { cx.pick(&[4usize, 8]) };
        let mut iloc = vec![((offset_size << 4) | length_size) as u8, ((base_size << 4) | index_size) as u8];
        if iloc_v == 2 {
            iloc.extend_from_slice(&be32(nitems));
        } else {
            iloc.extend_from_slice(&be16(nitems));
        }
        let mut fix = vec![];
        let mut idat: Vec<u8> = vec![];
        let put_n = |v: &mut Vec<u8>, n: usize, val: usize| v.extend_from_slice(&(val as u64).to_be_bytes()[8 - n..]);
        let mdat_for_items = cx.range(0, nmdat - 1);
        for it in 0..nitems {
            if iloc_v == 2 {
                iloc.extend_from_slice(&be32(it + 1));
            } else {
                iloc.extend_from_slice(&be16(it + 1));
            }
            let in_idat = iloc_v >= 1 && !all_single && cx.chance(1, 4);
            if iloc_v >= 1 {
                iloc.extend_from_slice(&be16(if in_idat { 1 } else { 0 }));
            }
            iloc.extend_from_slice(&be16(0)); // data_reference_index
            let next = if all_single { 1 } else { cx.range(1, 2) };
            let per = (cx.size / nitems / next).max(1);
            if in_idat {
                put_n(&mut iloc, base_size, 0);
                iloc.extend_from_slice(&be16(next));
                for _ in 0..next {
                    if index_size > 0 {
                        put_n(&mut iloc, index_size, 0);
                    }
                    let n = cx.range(1, 24);
                    put_n(&mut iloc, offset_size, idat.len());
                    put_n(&mut iloc, length_size, n);
                    idat.extend(cx.bytes(n));
                }
                continue;
            }
            let mut ids = vec![];
            for e in 0..next {
                let n = cx.around(per, 1);
                blobs.push(Blob { name: format!("item{}.extent{e}", it + 1), data: cx.bytes(n), mdat: mdat_for_items });
                ids.push(blobs.len() - 1);
            }
            // the SDK shifts a 4/8-byte base_offset unconditionally and, when it is zero, the extent offsets
            // as well; a zero base with non-zero extents would be shifted twice, so a base, when present, is real
            let use_base = base_size > 0 && cx.variant != "iloc-zero-base";
            if use_base {
                let total: usize = ids.iter().map(|i| blobs[*i].data.len()).sum();
                fix.push(Fix { rel: iloc.len(), width: base_size as u8, blob: ids[0], minus: None, table: format!("iloc.item{}.base", it + 1), len: total });
            }
            put_n(&mut iloc, base_size, 0);
            iloc.extend_from_slice(&be16(next));
            for (e, id) in ids.iter().enumerate() {
                if index_size > 0 {
                    put_n(&mut iloc, index_size, 0);
                }
                if use_base {
                    if offset_size > 0 {
                        fix.push(Fix { rel: iloc.len(), width: offset_size as u8, blob: *id, minus: Some(ids[0]), table: String::new(), len: 0 });
                    }
                } else {
                    fix.push(Fix { rel: iloc.len(), width: offset_size as u8, blob: *id, minus: None, table: format!("iloc.item{}.extent{e}", it + 1), len: blobs[*id].data.len() });
                }
                put_n(&mut iloc, offset_size, 0);
                put_n(&mut iloc, length_size, blobs[*id].data.len());
            }
        }
        let mut iinf = be16(nitems).to_vec();
        for it in 0..nitems {
            let mut e = be16(it + 1).to_vec();
            e.extend_from_slice(&be16(0));
            e.extend_from_slice(if kind == "heic" { b"hvc1" } else { b"av01" });
            e.push(0);
            iinf.extend_from_slice(&be32(12 + e.len()));
            iinf.extend_from_slice(b"infe");
            iinf.extend_from_slice(&[2, 0, 0, 0]);
            iinf.extend(e);
        }
        let mut kids = vec![hdlr(b"pict", ""), fleaf(b"pitm", 0, 0, be16(1).to_vec())];
        let mut rest = vec![
            Bx::Leaf { typ: *b"iloc", full: Some((iloc_v, 0)), uuid: None, data: iloc, fix, large: false, size0: false },
            fleaf(b"iinf", 0, 0, iinf),
        ];
        if !idat.is_empty() {
            rest.push(leaf(b"idat", idat));
        }
        if cx.chance(1, 2) {
            let n = cx.range(8, 60);
            rest.push(cont(b"iprp", vec![leaf(b"ipco", cx.bytes(n))]));
        }
        cx.shuffle(&mut rest);
        kids.extend(rest);
        tops.push(Bx::Cont { typ: *b"meta", full: Some((0, 0)), kids });
        w.note(format!("iloc v{iloc_v} off{offset_size} len{length_size} base{base_size}"));
    }
    // the mdat boxes: filler + blobs in random order
    let mut mdat_blobs: Vec<Vec<usize>> = vec![vec![]; nmdat];
    for (i, b) in blobs.iter().enumerate() {
        mdat_blobs[b.mdat].push(i);
    }
    // keep the extents of one iloc item adjacent and ordered (relative offsets must stay non-negative):
    // shuffle groups of blobs that share the name prefix up to the last '.'
    let mut mdat_layout: Vec<(usize, Vec<usize>)> = vec![]; // (filler, blob order)
    for list in mdat_blobs.iter() {
        let mut groups: Vec<Vec<usize>> = vec![];
        for &i in list {
            let key = blobs[i].name.rsplit_once('.').map(|x| x.0.to_string()).unwrap_or_default();
            let is_item = key.starts_with("item");
            match groups.last_mut() {
                Some(g) if is_item && blobs[g[0]].name.starts_with(&format!("{key}.")) => g.push(i),
                _ => groups.push(vec![i]),
            }
        }
        cx.shuffle(&mut groups);
        let filler = if cx.chance(1, 3) { cx.range(1, 24) } else { 0 };
        mdat_layout.push((filler, groups.into_iter().flatten().collect()));
    }
    let mut mdat_large = vec![];
    // (box, index into mdat_layout when the box is an mdat)
    let mut tops: Vec<(Bx, Option<usize>)> = tops.into_iter().map(|t| (t, None)).collect();
    for m in 0..nmdat {
        mdat_large.push(cx.chance(1, 3));
        let (filler, order) = &mdat_layout[m];
        let n: usize = filler + order.iter().map(|i| blobs[*i].data.len()).sum::<usize>();
        // the payload is written separately (blob by blob) so that regions name each chunk
        tops.push((Bx::Leaf { typ: *b"mdat", full: None, uuid: None, data: vec![0; n], fix: vec![], large: mdat_large[m], size0: false }, Some(m)));
    }
    for _ in 0..(if cx.chance(1, 2) { cx.range(1, 2) } else { 0 }) {
        let n = cx.range(0, 40);
        tops.push((leaf(cx.pick(&[b"free", b"skip", b"free"]), vec![0; n]), None));
    }
    if kind == "mov" && cx.chance(1, 2) {
        tops.push((leaf(b"wide", vec![]), None));
    }
    if cx.chance(1, 5) {
        tops.push((Bx::Leaf { typ: *b"uuid", full: None, uuid: Some(BMFF_XMP_UUID), data: cx.xmp(), fix: vec![], large: false, size0: false }, None));
        w.note("xmp-uuid");
    }
    if let Some(s) = cx.store.clone() {
        let mut d = b"manifest\0".to_vec();
        d.extend_from_slice(&[0; 8]);
        d.extend(s);
        tops.push((Bx::Leaf { typ: *b"uuid", full: Some((0, 0)), uuid: Some(BMFF_C2PA_UUID), data: d, fix: vec![], large: false, size0: false }, None));
    }
    cx.shuffle(&mut tops);
    // a last 32-bit mdat may declare size 0 ("to end of file")
    if let Some((Bx::Leaf { typ, large, size0, .. }, _)) = tops.last_mut() {
        if typ == b"mdat" && !*large && cx.chance(1, 4) {
            *size0 = true;
            w.note("mdat-size0");
        }
    }
    let ftyp = leaf(b"ftyp", ft);
    // layout pass: absolute offsets of every blob
    let mut at = bx_size(&ftyp);
    let mut blob_off = vec![0usize; blobs.len()];
    let mut order_names = vec![];
    for (t, mi) in &tops {
        let (typ, is_c2pa) = match t {
            Bx::Leaf { typ, uuid, .. } => (typ, uuid.map(|u| u == BMFF_C2PA_UUID).unwrap_or(false)),
            Bx::Cont { typ, .. } => (typ, false),
        };
        order_names.push(if is_c2pa { "C2PA".to_string() } else { String::from_utf8_lossy(typ).trim_end().to_string() });
        if let Some(mi) = mi {
            let (filler, order) = &mdat_layout[*mi];
            let mut p = at + bx_hdr_len(t) + filler;
            for i in order {
                blob_off[*i] = p;
                p += blobs[*i].data.len();
            }
        }
        at += bx_size(t);
    }
    // write
    bx_write(w, &ftyp, "", &blob_off);
    for (t, mi) in &tops {
        match (t, mi) {
            (Bx::Leaf { large, size0, .. }, Some(mi)) => {
                let u = w.unit("mdat");
                let total = bx_size(t);
                let mut h = vec![];
                if *large {
                    h.extend_from_slice(&be32(1));
                    h.extend_from_slice(b"mdat");
                    h.extend_from_slice(&(total as u64).to_be_bytes());
                } else {
                    h.extend_from_slice(&be32(if *size0 { 0 } else { total }));
                    h.extend_from_slice(b"mdat");
                }
                w.put(format!("{u}.hdr"), &h);
                let (filler, order) = &mdat_layout[*mi];
                if *filler > 0 {
                    let f = cx.bytes(*filler);
                    w.put(format!("{u}.filler"), &f);
                }
                for i in order {
                    debug_assert_eq!(w.pos(), blob_off[*i]);
                    w.put(format!("{u}.{}", blobs[*i].name), &blobs[*i].data);
                }
            }
            _ => bx_write(w, t, "", &blob_off),
        }
    }
    w.note(format!("order ftyp,{}", order_names.join(",")));
    if mdat_large.iter().any(|x| *x) {
        w.note("mdat-largesize");
    }
}
