//! Manifest-definition generator (DESIGN §3.2), shared by C03 / C22 and usable by other checks.
//!
//! A case is a compact, serde-serialisable [`DefSpec`] (small integers + a seed).  [`expand`] turns
//! it deterministically (only `SplitMix64(spec.seed)`) into a [`GenDef`]: the `ManifestDefinition`
//! JSON, the intent, the ingredients that have to be added from streams, the resources that have
//! to be registered, and an *independent expectation* of what a reader must report (computed here
//! from the generated data, never by asking the SDK).
//!
//! Well-formedness is by construction.  A definition rejected by `Builder::with_definition` / `sign`
//! is a `generator_rejected` case for the caller to count (> 5 % means this generator is wrong).
//!
//! The only SDK calls in this module are (a) `BuilderIntent`/`DigitalSourceType` construction,
//! (b) [`GenDef::builder`] which feeds the generated data into a `Builder`, and (c) signing the
//! "harness-signed" ingredient assets once per process ([`signed_asset`]).

use std::{io::Cursor, sync::Mutex};

use c2pa::{Builder, BuilderIntent, Context, DigitalSourceType};
use proptest::prelude::*;
use serde::{Deserialize, Serialize};
use serde_json::{json, Map, Value};

use crate::rng::SplitMix64;

// ------------------------------------------------------------------------------------------------
// public types
// ------------------------------------------------------------------------------------------------

#[derive(Clone, Debug, Serialize, Deserialize, PartialEq, Eq, Hash)]
pub enum IntentKind {
    /// `BuilderIntent::Create(<digital source type URI>)`
    Create(String),
    Edit,
    Update,
    /// No intent: the definition itself carries a leading `c2pa.created` action (claim v2 rule).
    None,
}

impl IntentKind {
    pub fn to_builder_intent(&self) -> Option<BuilderIntent> {
        match self {
            IntentKind::Create(uri) => {
                let st: DigitalSourceType =
                    serde_json::from_value(Value::String(uri.clone())).unwrap_or(DigitalSourceType::Empty);
                Some(BuilderIntent::Create(st))
            }
            IntentKind::Edit => Some(BuilderIntent::Edit),
            IntentKind::Update => Some(BuilderIntent::Update),
            IntentKind::None => None,
        }
    }
    pub fn name(&self) -> &'static str {
        match self {
            IntentKind::Create(_) => "create",
            IntentKind::Edit => "edit",
            IntentKind::Update => "update",
            IntentKind::None => "none",
        }
    }
}

/// Where the bytes of a stream ingredient come from.
#[derive(Clone, Debug, Serialize, Deserialize, PartialEq, Eq, Hash)]
pub enum IngSource {
    /// Ingredient described only by JSON inside the definition (`ingredients: [...]`).
    JsonOnly,
    /// Repository fixture without a manifest: (file name, mime).
    Unsigned(String, String),
    /// Repository fixture that already carries a manifest store: (file name, mime).
    SignedFixture(String, String),
    /// Asset signed by the harness in this process (see [`signed_asset`]): kind index.
    HarnessSigned(u8),
}

#[derive(Clone, Debug)]
pub struct IngPlan {
    pub json: Value,
    pub source: IngSource,
}

/// How an expected assertion is compared with the reported one.
#[derive(Clone, Debug, PartialEq, Eq)]
pub enum Match {
    /// reported payload must be equivalent (JSON equality, numbers by value) to the supplied one
    Exact,
    /// `c2pa.actions`: every supplied action appears, in order, as a sub-sequence of the reported
    /// actions with all supplied members equal; other supplied top-level members equal
    Actions,
    /// typed standard assertion: every supplied top-level member is reported with an equal value
    Members,
}

#[derive(Clone, Debug)]
pub struct ExpAssertion {
    /// label as supplied (base label; the reader reports repeated labels as instances)
    pub label: String,
    pub payload: Value,
    pub how: Match,
    pub json_kind: bool,
    pub created: bool,
}

#[derive(Clone, Debug)]
pub struct ExpIngredient {
    pub title: Option<String>,
    pub format: Option<String>,
    pub relationship: String,
    pub has_manifest: bool,
    pub description: Option<String>,
    pub informational_uri: Option<String>,
}

#[derive(Clone, Debug, PartialEq, Eq)]
pub enum ResKind {
    ClaimThumbnail,
    IngredientThumbnail(usize),
    IngredientData(usize),
    GeneratorIcon(usize),
}

#[derive(Clone, Debug)]
pub struct ExpResource {
    pub kind: ResKind,
    pub format: String,
    pub bytes: Vec<u8>,
}

#[derive(Clone, Debug, Default)]
pub struct Expectation {
    pub title: Option<String>,
    /// `None`: the format is whatever is passed to `sign` (the definition does not carry one).
    pub format: Option<String>,
    /// supplied claim generator info entries (empty = the SDK default entry is used)
    pub claim_generator_info: Vec<Value>,
    pub claim_version: u8,
    pub hash_alg: Option<String>,
    pub vendor: Option<String>,
    pub assertions: Vec<ExpAssertion>,
    /// in reported order: definition (JSON-only) ingredients first, then stream ingredients
    pub ingredients: Vec<ExpIngredient>,
    /// Edit/Update intent without an explicit parent: the SDK derives a `parentOf` ingredient from
    /// the source stream (documented in docs/intents.md) — one extra ingredient is then allowed.
    pub auto_parent: bool,
    pub redactions: Vec<String>,
    pub resources: Vec<ExpResource>,
}

#[derive(Clone, Debug)]
pub struct GenDef {
    /// the `ManifestDefinition` JSON
    pub json: Value,
    pub intent: IntentKind,
    pub expect: Expectation,
    pub features: Vec<String>,
    /// ingredients to add with `Builder::add_ingredient_from_stream` (after the definition)
    pub stream_ingredients: Vec<IngPlan>,
    /// resources to register with `Builder::add_resource`
    pub resources: Vec<(String, Vec<u8>)>,
    /// largest CBOR length boundary crossed by a payload (0, 24, 256, 65536)
    pub boundary: u32,
}

/// Knobs for callers; the strategy never produces what is switched off.
#[derive(Clone, Debug)]
pub struct DefOpts {
    pub max_assertions: u8,
    pub max_ingredients: u8,
    pub allow_v1: bool,
    pub allow_edit: bool,
    pub allow_update: bool,
    /// payloads around the 65535/65536 boundary (tens of KB to ~1 MB of JSON)
    pub allow_huge: bool,
    pub allow_redactions: bool,
    pub allow_resources: bool,
    pub allow_signed_ingredients: bool,
    pub allow_hash_alg: bool,
}

impl Default for DefOpts {
    fn default() -> Self {
        DefOpts {
            max_assertions: 6,
            max_ingredients: 3,
            allow_v1: true,
            allow_edit: true,
            allow_update: false,
            allow_huge: true,
            allow_redactions: true,
            allow_resources: true,
            allow_signed_ingredients: true,
            allow_hash_alg: true,
        }
    }
}

/// Compact, replayable description of one definition.  Small values = simple definitions, so
/// proptest shrinking moves toward `DefSpec::default()`.
#[derive(Clone, Debug, Default, Serialize, Deserialize, PartialEq, Eq, Hash)]
pub struct DefSpec {
    pub seed: u64,
    /// 0 ascii, 1 absent, 2 empty, 3 unicode, 4 long, 5 special characters, 6 boundary lengths
    pub title: u8,
    /// 0 name+version, 1 absent (SDK default), 2 name only, 3 extra keys, 4 two entries, 5 unicode/space name
    pub cgi: u8,
    pub claim_v1: bool,
    /// 0 Create(empty), 1 Create(random type), 2 none + leading created action, 3 Edit (auto parent),
    /// 4 Edit with explicit parent ingredient, 5 Update
    pub intent: u8,
    pub n_assertions: u8,
    pub n_ingredients: u8,
    /// 0 small, 1 around 23/24, 2 around 255/256, 3 around 65535/65536, 4 deep nesting, 5 scalar/array top level
    pub size_class: u8,
    /// 0 absent, 1 sha256, 2 sha384, 3 sha512
    pub hash_alg: u8,
    /// 0 no explicit thumbnail, 1 explicit claim thumbnail resource
    pub thumb: u8,
    /// 0 none, 1 ingredient thumbnail / data resources, 2 + claim generator icon
    pub resources: u8,
    pub vendor: bool,
    pub redact: bool,
}

// ------------------------------------------------------------------------------------------------
// strategy
// ------------------------------------------------------------------------------------------------

pub fn spec_strategy(opts: DefOpts) -> impl Strategy<Value = DefSpec> {
    let o = opts.clone();
    (
        (any::<u64>(), 0u8..7, 0u8..6, any::<bool>(), 0u8..6, 0u8..=opts.max_assertions),
        (0u8..=opts.max_ingredients, 0u8..12, 0u8..4, 0u8..3, 0u8..4, any::<bool>(), 0u8..4),
    )
        .prop_map(move |((seed, title, cgi, v1, intent, na), (ni, size, hash, thumb, res, vendor, redact))| {
            let mut s = DefSpec {
                seed,
                title,
                cgi,
                claim_v1: v1 && o.allow_v1 && seed % 3 == 0, // v1 in about 1/6 of the cases
                intent,
                n_assertions: na,
                n_ingredients: ni,
                // half of the cases small payloads, the rest spread over the boundary classes
                size_class: if size >= 6 { 0 } else { size },
                hash_alg: if o.allow_hash_alg { hash } else { 0 },
                thumb: if thumb == 2 { 1 } else { 0 },
                resources: if o.allow_resources { res.min(2) } else { 0 },
                vendor: vendor && seed % 5 == 0,
                redact: redact == 0 && o.allow_redactions,
            };
            normalise(&mut s, &o);
            s
        })
}

/// Clamp a spec to what `opts` allows (also applied to hand-written / replayed specs).
pub fn normalise(s: &mut DefSpec, o: &DefOpts) {
    if !o.allow_v1 {
        s.claim_v1 = false;
    }
    s.title %= 7;
    s.cgi %= 6;
    s.intent %= 6;
    if s.intent == 5 && !o.allow_update {
        s.intent = 3;
    }
    if (s.intent == 3 || s.intent == 4) && !o.allow_edit {
        s.intent = 1;
    }
    s.n_assertions = s.n_assertions.min(o.max_assertions);
    s.n_ingredients = s.n_ingredients.min(o.max_ingredients);
    s.size_class %= 6;
    if s.size_class == 3 && !o.allow_huge {
        s.size_class = 2;
    }
    s.hash_alg %= 4;
    if !o.allow_hash_alg {
        s.hash_alg = 0;
    }
    s.thumb %= 2;
    s.resources %= 3;
    if !o.allow_resources {
        s.resources = 0;
        s.thumb = 0;
    }
    if !o.allow_redactions {
        s.redact = false;
    }
    if s.claim_v1 {
        // a v1 claim cannot carry v2-claim ingredients ("ingredient version too new"): the harness-signed
        // assets (redaction targets, Update sources) are v2, so these features are v2-only
        s.redact = false;
        if s.intent == 5 {
            s.intent = 3;
        }
    } else if s.cgi == 4 {
        // claim v2 allows exactly one claim_generator_info entry
        s.cgi = 3;
    }
    if s.intent == 5 {
        // update manifests: exactly one (parent) ingredient, no thumbnail, restricted actions
        s.n_ingredients = 0;
        s.thumb = 0;
        s.redact = false;
    }
}

pub fn definition_strategy(opts: DefOpts) -> impl Strategy<Value = GenDef> {
    let o = opts.clone();
    spec_strategy(opts).prop_map(move |s| expand_with(&s, &o))
}

// ------------------------------------------------------------------------------------------------
// value generators
// ------------------------------------------------------------------------------------------------

const UNICODE_BITS: [&str; 12] = [
    "é", "ß", "Ω", "测试", "日本語", "한글", "🎨", "👩‍🚀", "عربى", "עברית", "\u{200b}", "Ａ",
];
const ASCII_WORDS: [&str; 10] = [
    "alpha", "bravo", "charlie", "delta", "echo", "foxtrot", "golf", "hotel", "india", "juliet",
];

fn ascii_string(r: &mut SplitMix64, len: usize) -> String {
    let mut s = String::with_capacity(len);
    while s.len() < len {
        let c = b"abcdefghijklmnopqrstuvwxyzABCDEFGHIJKLMNOPQRSTUVWXYZ0123456789 _-."[r.usize(66)];
        s.push(c as char);
    }
    s
}

/// String whose UTF-8 length is exactly `len` bytes, with some multi-byte characters when `unicode`.
fn sized_string(r: &mut SplitMix64, len: usize, unicode: bool) -> String {
    let mut s = String::with_capacity(len);
    while s.len() < len {
        let left = len - s.len();
        if unicode && left >= 4 && r.chance(1, 6) {
            let bit = UNICODE_BITS[r.usize(UNICODE_BITS.len())];
            if bit.len() <= left {
                s.push_str(bit);
                continue;
            }
        }
        let c = b"abcdefghijklmnopqrstuvwxyz0123456789 "[r.usize(37)];
        s.push(c as char);
    }
    s
}

fn special_string(r: &mut SplitMix64) -> String {
    let pool = [
        "\"quoted\"", "a&b", "<tag attr='x'>", "back\\slash", "line\nbreak", "tab\there", "nul\u{0}byte",
        "/slash/", "%41%00", "\u{7f}", "\r\n", "{\"json\":1}", "\u{feff}bom", "\u{1}\u{2}",
    ];
    let n = 1 + r.usize(4);
    let mut s = String::new();
    for _ in 0..n {
        s.push_str(pool[r.usize(pool.len())]);
        s.push(' ');
    }
    s
}

fn boundary_len(r: &mut SplitMix64, class: u8) -> usize {
    match class {
        1 => *r.pick(&[22usize, 23, 24, 25]),
        2 => *r.pick(&[254usize, 255, 256, 257]),
        3 => *r.pick(&[65534usize, 65535, 65536, 65537]),
        _ => r.usize(12),
    }
}

fn boundary_of(len: usize) -> u32 {
    if len >= 65536 {
        65536
    } else if len >= 256 {
        256
    } else if len >= 24 {
        24
    } else {
        0
    }
}

fn gen_int(r: &mut SplitMix64) -> Value {
    let pool: [i128; 26] = [
        0, 1, 23, 24, 25, 255, 256, 65535, 65536, 4294967295, 4294967296, i64::MAX as i128, 1099511627776, -1, -24,
        -25, -256, -257, -65536, -65537, -4294967296, -4294967297, i64::MIN as i128, 42, 1000000, -1000000,
    ];
    let v = pool[r.usize(pool.len())];
    if v > i64::MAX as i128 {
        json!(v as u64)
    } else {
        json!(v as i64)
    }
}

fn gen_float(r: &mut SplitMix64) -> Value {
    let pool = [
        0.5f64, 1.5, -2.25, 0.1, 3.141592653589793, 1e10, 1.0e-7, 65504.0, 65505.5, 1e300, -1e-300, 2.5e-8, 100000.25,
        16777217.5, 0.333333333333, -0.75,
    ];
    json!(pool[r.usize(pool.len())])
}

fn gen_scalar(r: &mut SplitMix64) -> Value {
    match r.usize(10) {
        0 => Value::Null,
        1 => json!(r.bool()),
        2 | 3 => gen_int(r),
        4 => gen_float(r),
        5 => {
            let n = r.usize(30);
            json!(sized_string(r, n, true))
        }
        6 => json!(special_string(r)),
        7 => json!(""),
        _ => {
            let n = 1 + r.usize(10);
            json!(ascii_string(r, n))
        }
    }
}

fn gen_key(r: &mut SplitMix64, i: usize) -> String {
    match r.usize(12) {
        0 => format!("ключ{i}"),
        1 => format!("k.{i}.dot"),
        2 => format!("k {i} space"),
        3 => format!("@k{i}"),
        4 => format!("k{i}:colon"),
        5 => format!("K{i}_UPPER"),
        _ => format!("k{i}"),
    }
}

fn gen_value(r: &mut SplitMix64, depth: u32) -> Value {
    if depth == 0 || r.chance(1, 2) {
        return gen_scalar(r);
    }
    if r.bool() {
        let n = r.usize(5);
        Value::Array((0..n).map(|_| gen_value(r, depth - 1)).collect())
    } else {
        let n = r.usize(5);
        let mut m = Map::new();
        for i in 0..n {
            m.insert(gen_key(r, i), gen_value(r, depth - 1));
        }
        Value::Object(m)
    }
}

/// A payload for a custom assertion; returns (value, largest boundary crossed).
fn gen_payload(r: &mut SplitMix64, class: u8) -> (Value, u32) {
    match class {
        1 | 2 | 3 => {
            let len = boundary_len(r, class);
            let shape = if class == 3 { r.usize(5) } else { r.usize(6) };
            let v = match shape {
                // text string of exactly `len` bytes
                0 => json!({ "text": sized_string(r, len, false), "n": 1 }),
                1 => json!({ "text": sized_string(r, len, true) }),
                // array with `len` items (small ints: displayed as base64 by json(), hence typed accessors)
                2 => json!({ "items": (0..len).map(|i| json!((i % 251) as u64)).collect::<Vec<Value>>() }),
                // array of mixed scalars
                3 => json!({ "items": (0..len).map(|i| if i % 3 == 0 { json!(format!("s{i}")) } else { json!(i as u64 * 7) }).collect::<Vec<Value>>(), "flag": true }),
                // text string as the whole payload
                4 => json!(sized_string(r, len, true)),
                // map with `len` members (not for the 64 K class)
                _ => {
                    let mut m = Map::new();
                    for i in 0..len {
                        m.insert(format!("k{i}"), json!(i as u64));
                    }
                    Value::Object(m)
                }
            };
            (v, boundary_of(len))
        }
        4 => {
            // deep nesting
            let depth = 4 + r.usize(12);
            let mut v = gen_scalar(r);
            for i in 0..depth {
                v = if i % 2 == 0 { json!({ "d": v, "i": i as u64 }) } else { json!([v, i as u64]) };
            }
            (json!({ "deep": v }), 0)
        }
        5 => {
            // non-map top level
            let v = match r.usize(5) {
                0 => json!(ascii_string(r, 9)),
                1 => gen_int(r),
                2 => json!([1, "two", 3.5, null, true]),
                3 => json!(r.bool()),
                _ => Value::Array((0..r.usize(6)).map(|_| gen_scalar(r)).collect()),
            };
            (v, 0)
        }
        _ => {
            let mut m = Map::new();
            let n = 1 + r.usize(5);
            for i in 0..n {
                m.insert(gen_key(r, i), gen_value(r, 3));
            }
            (Value::Object(m), 0)
        }
    }
}

fn gen_title(r: &mut SplitMix64, kind: u8) -> Option<String> {
    match kind {
        1 => None,
        2 => Some(String::new()),
        3 => {
            let mut s = String::new();
            for _ in 0..(2 + r.usize(5)) {
                s.push_str(UNICODE_BITS[r.usize(UNICODE_BITS.len())]);
                s.push(' ');
            }
            s.push_str(".jpg");
            Some(s)
        }
        4 => {
            let n = 300 + r.usize(1800);
            Some(sized_string(r, n, true))
        }
        5 => Some(special_string(r)),
        6 => {
            let n = *r.pick(&[23usize, 24, 255, 256]);
            Some(sized_string(r, n, false))
        }
        _ => Some(format!("{} {}.jpg", ASCII_WORDS[r.usize(10)], r.below(1000))),
    }
}

const SOURCE_TYPES: [&str; 8] = [
    "http://c2pa.org/digitalsourcetype/empty",
    "http://cv.iptc.org/newscodes/digitalsourcetype/digitalCapture",
    "http://cv.iptc.org/newscodes/digitalsourcetype/trainedAlgorithmicMedia",
    "http://cv.iptc.org/newscodes/digitalsourcetype/compositeCapture",
    "http://cv.iptc.org/newscodes/digitalsourcetype/digitalCreation",
    "http://cv.iptc.org/newscodes/digitalsourcetype/screenCapture",
    "http://c2pa.org/digitalsourcetype/trainedAlgorithmicData",
    "http://cv.iptc.org/newscodes/digitalsourcetype/humanEdits",
];

fn gen_cgi(r: &mut SplitMix64, kind: u8) -> Vec<Value> {
    match kind {
        1 => vec![],
        2 => vec![json!({ "name": format!("verif-{}", ASCII_WORDS[r.usize(10)]) })],
        3 => {
            let mut m = Map::new();
            m.insert("name".into(), json!("verif harness extra"));
            m.insert("version".into(), json!(format!("{}.{}.{}", r.below(10), r.below(100), r.below(1000))));
            if r.bool() {
                m.insert("operating_system".into(), json!("verifOS 1.0"));
            }
            let n = 1 + r.usize(4);
            for i in 0..n {
                let v = match r.usize(5) {
                    0 => json!(r.below(100000)),
                    1 => json!(r.bool()),
                    2 => json!({ "nested": ascii_string(r, 5), "n": [1, 2, 3] }),
                    3 => json!(sized_string(r, 40, true)),
                    _ => json!(ascii_string(r, 8)),
                };
                m.insert(format!("org.verif.extra{i}"), v);
            }
            vec![Value::Object(m)]
        }
        4 => vec![
            json!({ "name": "verif-first", "version": "1.0" }),
            json!({ "name": "verif-second", "version": "2.0-beta", "org.verif.tag": "second" }),
        ],
        5 => vec![json!({ "name": format!("Vérif Harness {} 测试", r.below(100)), "version": "0.1 (build 7)" })],
        _ => vec![json!({ "name": "verif-harness", "version": "0.1" })],
    }
}

const CUSTOM_LABELS: [&str; 10] = [
    "org.verif.note",
    "org.verif.data",
    "com.example.verif.thing",
    "org.verif.a-b_c",
    "io.verif.x1.y2",
    "org.verif.very.long.reverse.domain.label.with.many.parts",
    "org.verif.CamelCase",
    "net.verif.n0",
    "org.verif.blob",
    "org.verif.list",
];

fn gen_action(r: &mut SplitMix64, name: &str) -> Value {
    let mut m = Map::new();
    m.insert("action".into(), json!(name));
    if r.chance(1, 3) {
        m.insert("description".into(), json!(sized_string(r, 12, true)));
    }
    if r.chance(1, 3) {
        let mut p = Map::new();
        p.insert("description".into(), json!(ascii_string(r, 10)));
        if r.bool() {
            p.insert("org.verif.param".into(), json!(r.below(1000)));
        }
        m.insert("parameters".into(), Value::Object(p));
    }
    if r.chance(1, 4) {
        m.insert("softwareAgent".into(), json!({ "name": "verif-agent", "version": "3.2" }));
    }
    Value::Object(m)
}

const EDIT_ACTIONS: [&str; 8] = [
    "c2pa.edited",
    "c2pa.color_adjustments",
    "c2pa.cropped",
    "c2pa.filtered",
    "c2pa.resized",
    "c2pa.drawing",
    "c2pa.orientation",
    "org.verif.custom_action",
];

// ------------------------------------------------------------------------------------------------
// signed ingredient assets (made once per process)
// ------------------------------------------------------------------------------------------------

/// Assets the harness signs itself to serve as "ingredient with a manifest":
/// kind 0 = small PNG with a custom assertion, kind 1 = small JPEG-less WebP, kind 2 = PNG signed twice (chain).
#[derive(Clone)]
pub struct SignedAsset {
    pub mime: &'static str,
    pub bytes: Vec<u8>,
    /// label of the active manifest (needed to build redaction URIs)
    pub label: String,
    /// assertion of the active manifest that may be redacted
    pub redactable: &'static str,
}

static SIGNED: Mutex<Vec<Option<SignedAsset>>> = Mutex::new(Vec::new());

pub const SIGNED_KINDS: u8 = 3;

fn make_signed(kind: u8) -> SignedAsset {
    use crate::sdk;
    let (mime, file): (&'static str, &str) = match kind % SIGNED_KINDS {
        1 => ("image/webp", "test.webp"),
        _ => ("image/png", "libpng-test.png"),
    };
    let def = json!({
        "title": format!("harness-signed-{kind}"),
        "claim_generator_info": [{ "name": "verif-ingredient-maker", "version": "0.1" }],
        "assertions": [
            { "label": "org.verif.note", "data": { "note": "ingredient note", "n": kind } },
            { "label": "org.verif.keep", "data": { "keep": true } }
        ]
    });
    let signer = sdk::signer(if kind % 2 == 0 { "es256" } else { "ps256" });
    let src = sdk::fixture(file);
    let mut bytes = sdk::sign_with(
        sdk::context(),
        &def,
        Some(BuilderIntent::Create(DigitalSourceType::DigitalCapture)),
        signer.as_ref(),
        mime,
        &src,
    )
    .expect("harness-signed ingredient: first signature");
    if kind % SIGNED_KINDS == 2 {
        let def2 = json!({
            "title": "harness-signed-chain",
            "claim_generator_info": [{ "name": "verif-ingredient-maker", "version": "0.2" }],
            "assertions": [ { "label": "org.verif.note", "data": { "note": "second generation" } } ]
        });
        bytes = sdk::sign_with(sdk::context(), &def2, Some(BuilderIntent::Edit), signer.as_ref(), mime, &bytes)
            .expect("harness-signed ingredient: second signature");
    }
    let reader = sdk::read(mime, &bytes).expect("harness-signed ingredient must be readable");
    let label = reader.active_label().expect("active label").to_string();
    SignedAsset { mime, bytes, label, redactable: "org.verif.note" }
}

/// The harness-signed ingredient asset of the given kind (signed on first use, then cached).
pub fn signed_asset(kind: u8) -> SignedAsset {
    let k = (kind % SIGNED_KINDS) as usize;
    let mut g = SIGNED.lock().unwrap();
    if g.len() < SIGNED_KINDS as usize {
        g.resize(SIGNED_KINDS as usize, None);
    }
    if g[k].is_none() {
        g[k] = Some(make_signed(k as u8));
    }
    g[k].clone().unwrap()
}

/// (mime, bytes) of a stream ingredient source.
pub fn ingredient_bytes(src: &IngSource) -> Option<(String, Vec<u8>)> {
    match src {
        IngSource::JsonOnly => None,
        IngSource::Unsigned(f, m) | IngSource::SignedFixture(f, m) => Some((m.clone(), crate::sdk::fixture(f))),
        IngSource::HarnessSigned(k) => {
            let a = signed_asset(*k);
            Some((a.mime.to_string(), a.bytes))
        }
    }
}

// ------------------------------------------------------------------------------------------------
// expansion
// ------------------------------------------------------------------------------------------------

pub fn expand(spec: &DefSpec) -> GenDef {
    expand_with(spec, &DefOpts { allow_update: true, ..DefOpts::default() })
}

pub fn expand_with(spec_in: &DefSpec, opts: &DefOpts) -> GenDef {
    let mut spec = spec_in.clone();
    normalise(&mut spec, opts);
    let spec = &spec;
    let mut r = SplitMix64::new(spec.seed ^ 0xD1F6_E0DE);
    let mut features: Vec<String> = vec![];
    let mut def = Map::new();
    let mut exp = Expectation::default();
    let mut resources: Vec<(String, Vec<u8>)> = vec![];
    let mut boundary = 0u32;
    let v1 = spec.claim_v1;
    exp.claim_version = if v1 { 1 } else { 2 };

    // ---- claim version ---------------------------------------------------------------------
    if v1 {
        def.insert("claim_version".into(), json!(1));
        features.push("claim_v1".into());
    } else if r.chance(1, 3) {
        def.insert("claim_version".into(), json!(2));
    }

    // ---- title -----------------------------------------------------------------------------
    let title = gen_title(&mut r, spec.title);
    if let Some(t) = &title {
        def.insert("title".into(), json!(t));
        boundary = boundary.max(boundary_of(t.len()).min(256));
    }
    features.push(format!("title_{}", ["ascii", "absent", "empty", "unicode", "long", "special", "boundary"][spec.title as usize]));
    exp.title = title;

    // ---- claim generator info ----------------------------------------------------------------
    let mut cgi = gen_cgi(&mut r, spec.cgi);
    features.push(format!("cgi_{}", ["plain", "absent", "name_only", "extras", "two", "unicode"][spec.cgi as usize]));
    if spec.resources >= 2 && !cgi.is_empty() {
        // claim generator icon as a resource
        let id = "verif-icon.svg".to_string();
        let bytes = format!("<svg xmlns=\"http://www.w3.org/2000/svg\"><!-- {} --></svg>", ascii_string(&mut r, 40)).into_bytes();
        cgi[0]["icon"] = json!({ "format": "image/svg+xml", "identifier": id });
        resources.push((id, bytes.clone()));
        exp.resources.push(ExpResource { kind: ResKind::GeneratorIcon(0), format: "image/svg+xml".into(), bytes });
        features.push("resource_icon".into());
    }
    if !cgi.is_empty() {
        def.insert("claim_generator_info".into(), Value::Array(cgi.clone()));
    }
    exp.claim_generator_info = cgi;

    // ---- vendor, hash algorithm --------------------------------------------------------------
    if spec.vendor {
        def.insert("vendor".into(), json!("verif"));
        exp.vendor = Some("verif".into());
        features.push("vendor".into());
    }
    if spec.hash_alg > 0 {
        let a = ["sha256", "sha384", "sha512"][(spec.hash_alg - 1) as usize];
        def.insert("hash_alg".into(), json!(a));
        exp.hash_alg = Some(a.into());
        features.push(format!("hash_{a}"));
    }

    // ---- intent --------------------------------------------------------------------------------
    let intent = match spec.intent {
        0 => IntentKind::Create(SOURCE_TYPES[0].to_string()),
        1 => IntentKind::Create(SOURCE_TYPES[r.usize(SOURCE_TYPES.len())].to_string()),
        2 => IntentKind::None,
        3 | 4 => IntentKind::Edit,
        _ => IntentKind::Update,
    };
    features.push(format!("intent_{}", intent.name()));
    let is_create = matches!(intent, IntentKind::Create(_));
    let is_update = intent == IntentKind::Update;

    // ---- ingredients ---------------------------------------------------------------------------
    let mut plans: Vec<IngPlan> = vec![];
    let mut have_parent = false;
    let mut redact_target: Option<String> = None;
    let mut n_ing = spec.n_ingredients as usize;
    if spec.intent == 4 {
        n_ing = n_ing.max(1);
    }
    if spec.redact && opts.allow_signed_ingredients {
        n_ing = n_ing.max(1);
    }
    for i in 0..n_ing {
        let mut src = match r.usize(8) {
            0 | 1 | 2 => IngSource::JsonOnly,
            3 => IngSource::Unsigned("libpng-test.png".into(), "image/png".into()),
            4 => IngSource::Unsigned("test.webp".into(), "image/webp".into()),
            5 => IngSource::SignedFixture((*r.pick(&["C.jpg", "CA.jpg"])).to_string(), "image/jpeg".into()),
            _ => IngSource::HarnessSigned(r.below(SIGNED_KINDS as u64) as u8),
        };
        if spec.redact && opts.allow_signed_ingredients && i == 0 {
            src = IngSource::HarnessSigned(r.below(SIGNED_KINDS as u64) as u8);
        }
        if v1 && matches!(src, IngSource::HarnessSigned(_)) {
            src = IngSource::SignedFixture((*r.pick(&["C.jpg", "CA.jpg"])).to_string(), "image/jpeg".into());
        }
        if !opts.allow_signed_ingredients && matches!(src, IngSource::SignedFixture(..) | IngSource::HarnessSigned(_)) {
            src = IngSource::Unsigned("libpng-test.png".into(), "image/png".into());
        }
        // relationship: one parent at most, never with a Create intent or a created action (intent 2)
        let want_parent = spec.intent == 4 && i == 0;
        let relationship = if want_parent && !have_parent {
            have_parent = true;
            "parentOf"
        } else if r.chance(1, 4) {
            "inputTo"
        } else {
            "componentOf"
        };
        let ing_title = match r.usize(6) {
            0 if !v1 && src == IngSource::JsonOnly => None,
            1 => Some(format!("{} 成分 {i}.png", UNICODE_BITS[r.usize(UNICODE_BITS.len())])),
            2 => Some(special_string(&mut r)),
            _ => Some(format!("ingredient-{i}-{}.png", r.below(1000))),
        };
        let mut j = Map::new();
        if let Some(t) = &ing_title {
            j.insert("title".into(), json!(t));
        }
        j.insert("relationship".into(), json!(relationship));
        let fmt: Option<String> = match &src {
            IngSource::JsonOnly => {
                let f = *r.pick(&["image/png", "image/jpeg", "application/octet-stream", "video/mp4"]);
                j.insert("format".into(), json!(f));
                if r.bool() {
                    j.insert("instance_id".into(), json!(format!("xmp:iid:verif-{i}-{}", r.below(100000))));
                }
                Some(f.to_string())
            }
            IngSource::Unsigned(_, m) | IngSource::SignedFixture(_, m) => Some(m.clone()),
            IngSource::HarnessSigned(k) => Some(signed_asset(*k).mime.to_string()),
        };
        let description = if r.chance(1, 4) { Some(sized_string(&mut r, 30, true)) } else { None };
        if let Some(d) = &description {
            j.insert("description".into(), json!(d));
        }
        let info_uri = if r.chance(1, 5) { Some(format!("https://verif.example/info/{i}?q=1&r=2")) } else { None };
        if let Some(u) = &info_uri {
            j.insert("informational_URI".into(), json!(u));
        }
        if r.chance(1, 3) {
            j.insert("label".into(), json!(format!("verif_ing_{i}")));
        }
        // resources attached to a JSON-only ingredient
        if spec.resources >= 1 && src == IngSource::JsonOnly {
            if r.bool() {
                let id = format!("ing-thumb-{i}.jpg");
                let n = 100 + r.usize(3000);
                let bytes = fake_jpeg(&mut r, n);
                j.insert("thumbnail".into(), json!({ "format": "image/jpeg", "identifier": id }));
                resources.push((id, bytes.clone()));
                exp.resources.push(ExpResource { kind: ResKind::IngredientThumbnail(i), format: "image/jpeg".into(), bytes });
                features.push("resource_ingredient_thumbnail".into());
            }
            if r.chance(1, 3) {
                let id = format!("ing-data-{i}.txt");
                let bytes = sized_string(&mut r, 64, true).into_bytes();
                j.insert("data".into(), json!({ "format": "text/plain", "identifier": id }));
                resources.push((id, bytes.clone()));
                exp.resources.push(ExpResource { kind: ResKind::IngredientData(i), format: "text/plain".into(), bytes });
                features.push("resource_ingredient_data".into());
            }
        }
        let has_manifest = matches!(src, IngSource::SignedFixture(..) | IngSource::HarnessSigned(_));
        if let IngSource::HarnessSigned(k) = &src {
            if spec.redact && redact_target.is_none() {
                let a = signed_asset(*k);
                redact_target = Some(format!("self#jumbf=/c2pa/{}/c2pa.assertions/{}", a.label, a.redactable));
            }
        }
        features.push(
            match &src {
                IngSource::JsonOnly => "ingredient_json_only",
                IngSource::Unsigned(..) => "ingredient_unsigned_stream",
                IngSource::SignedFixture(..) => "ingredient_signed_fixture",
                IngSource::HarnessSigned(_) => "ingredient_harness_signed",
            }
            .to_string(),
        );
        plans.push(IngPlan { json: Value::Object(j), source: src });
        // remember expectation alongside (re-ordered below)
        exp.ingredients.push(ExpIngredient {
            title: ing_title,
            format: fmt,
            relationship: relationship.to_string(),
            has_manifest,
            description,
            informational_uri: info_uri,
        });
    }
    // reported order: definition ingredients first, then the ones added from streams
    let mut order: Vec<usize> = (0..plans.len()).filter(|i| plans[*i].source == IngSource::JsonOnly).collect();
    order.extend((0..plans.len()).filter(|i| plans[*i].source != IngSource::JsonOnly));
    let old_exp = std::mem::take(&mut exp.ingredients);
    let mut pos_of = vec![0usize; plans.len()];
    for (new, old) in order.iter().enumerate() {
        pos_of[*old] = new;
        exp.ingredients.push(old_exp[*old].clone());
    }
    for res in exp.resources.iter_mut() {
        match &mut res.kind {
            ResKind::IngredientThumbnail(i) | ResKind::IngredientData(i) => *i = pos_of[*i],
            _ => {}
        }
    }
    let json_only: Vec<Value> = plans.iter().filter(|p| p.source == IngSource::JsonOnly).map(|p| p.json.clone()).collect();
    if !json_only.is_empty() {
        def.insert("ingredients".into(), Value::Array(json_only));
    }
    let stream_ingredients: Vec<IngPlan> = plans.into_iter().filter(|p| p.source != IngSource::JsonOnly).collect();
    exp.auto_parent = matches!(intent, IntentKind::Edit | IntentKind::Update) && !have_parent;
    let _ = is_create;

    // ---- redactions ----------------------------------------------------------------------------
    if let Some(uri) = &redact_target {
        def.insert("redactions".into(), json!([uri]));
        exp.redactions = vec![uri.clone()];
        features.push("redaction".into());
    }

    // ---- assertions ----------------------------------------------------------------------------
    let mut assertions: Vec<Value> = vec![];
    let mut used_labels: Vec<String> = vec![];
    let mut have_actions = false;
    // actions are mandatory when there is no intent (v2 rule) and when a redaction is listed
    let need_actions = intent == IntentKind::None || redact_target.is_some();
    let n_assert = spec.n_assertions as usize;
    let actions_at = if need_actions || (n_assert > 0 && r.chance(1, 3)) { Some(r.usize(n_assert.max(1))) } else { None };
    let total = if need_actions { n_assert.max(1) } else { n_assert };
    for i in 0..total {
        if actions_at == Some(i) && !have_actions {
            have_actions = true;
            let mut list: Vec<Value> = vec![];
            if intent == IntentKind::None || (is_create && r.chance(1, 3)) {
                let mut a = gen_action(&mut r, "c2pa.created");
                a["digitalSourceType"] = json!(SOURCE_TYPES[r.usize(SOURCE_TYPES.len())]);
                list.push(a);
            }
            if !is_update {
                for _ in 0..r.usize(4) {
                    let name = EDIT_ACTIONS[r.usize(EDIT_ACTIONS.len())];
                    list.push(gen_action(&mut r, name));
                }
            }
            if let Some(uri) = &redact_target {
                list.push(json!({ "action": "c2pa.redacted", "reason": "c2pa.PII.present", "parameters": { "redacted": uri } }));
            }
            let payload = json!({ "actions": list });
            assertions.push(json!({ "label": "c2pa.actions", "data": payload }));
            exp.assertions.push(ExpAssertion { label: "c2pa.actions".into(), payload, how: Match::Actions, json_kind: false, created: false });
            features.push("supplied_actions".into());
            continue;
        }
        let kind = r.usize(20);
        if kind == 0 && !used_labels.iter().any(|l| l == "c2pa.metadata") {
            // standard metadata assertion (JSON-LD, allowed fields only)
            let payload = json!({
                "@context": { "exif": "http://ns.adobe.com/exif/1.0/", "dc": "http://purl.org/dc/elements/1.1/" },
                "exif:GPSLatitude": format!("{},{}N", r.below(90), r.below(60)),
                "dc:language": [sized_string(&mut r, 10, true)]
            });
            assertions.push(json!({ "label": "c2pa.metadata", "data": payload, "kind": "Json" }));
            exp.assertions.push(ExpAssertion { label: "c2pa.metadata".into(), payload, how: Match::Exact, json_kind: true, created: false });
            used_labels.push("c2pa.metadata".into());
            features.push("standard_metadata".into());
            continue;
        }
        if kind == 1 {
            // custom metadata assertion (label ends in .metadata ⇒ JSON-LD by the specification)
            let label = "org.verif.custom.metadata".to_string();
            let payload = json!({
                "@context": { "verif": "https://verif.example/ns/1.0/" },
                "verif:field": sized_string(&mut r, 16, true),
                "verif:count": r.below(100000)
            });
            assertions.push(json!({ "label": label, "data": payload, "kind": "Json" }));
            exp.assertions.push(ExpAssertion { label: label.clone(), payload, how: Match::Exact, json_kind: true, created: false });
            used_labels.push(label);
            features.push("custom_metadata".into());
            continue;
        }
        if kind == 2 && !used_labels.iter().any(|l| l == "stds.schema-org.CreativeWork") {
            let payload = json!({
                "@context": "http://schema.org/",
                "@type": "CreativeWork",
                "author": [ { "@type": "Person", "name": sized_string(&mut r, 8, true) } ]
            });
            assertions.push(json!({ "label": "stds.schema-org.CreativeWork", "data": payload, "kind": "Json" }));
            exp.assertions.push(ExpAssertion { label: "stds.schema-org.CreativeWork".into(), payload, how: Match::Members, json_kind: true, created: false });
            used_labels.push("stds.schema-org.CreativeWork".into());
            features.push("creative_work".into());
            continue;
        }
        // custom assertion; labels repeat on purpose (instances)
        let label = if !used_labels.is_empty() && r.chance(1, 4) {
            let cands: Vec<&String> = used_labels.iter().filter(|l| CUSTOM_LABELS.contains(&l.as_str())).collect();
            if cands.is_empty() {
                CUSTOM_LABELS[r.usize(CUSTOM_LABELS.len())].to_string()
            } else {
                cands[r.usize(cands.len())].clone()
            }
        } else {
            CUSTOM_LABELS[r.usize(CUSTOM_LABELS.len())].to_string()
        };
        if used_labels.contains(&label) {
            features.push("repeated_label".into());
        }
        used_labels.push(label.clone());
        // the chosen size class applies to the first custom assertion, later ones are mostly small
        let class = if i == 0 || r.chance(1, 4) { spec.size_class } else { 0 };
        let class = if class == 3 && boundary >= 65536 { 2 } else { class };
        let (payload, b) = gen_payload(&mut r, class);
        boundary = boundary.max(b);
        let json_kind = r.chance(1, 4);
        let created = !v1 && r.chance(1, 5);
        let mut a = Map::new();
        a.insert("label".into(), json!(label));
        a.insert("data".into(), payload.clone());
        if json_kind {
            a.insert("kind".into(), json!("Json"));
            features.push("json_kind".into());
        } else if r.chance(1, 6) {
            a.insert("kind".into(), json!("Cbor"));
        }
        if created {
            a.insert("created".into(), json!(true));
            features.push("created_flag".into());
        }
        assertions.push(Value::Object(a));
        exp.assertions.push(ExpAssertion { label, payload, how: Match::Exact, json_kind, created });
        features.push("custom_assertion".into());
    }
    if !assertions.is_empty() {
        def.insert("assertions".into(), Value::Array(assertions));
    }
    if boundary > 0 {
        features.push(format!("cbor_boundary_{boundary}"));
    }

    // ---- explicit claim thumbnail --------------------------------------------------------------
    if spec.thumb == 1 && !is_update {
        let id = "verif-thumb.jpg".to_string();
        let n = *r.pick(&[200usize, 255, 256, 4000, 65535, 65536, 70000]);
        let bytes = fake_jpeg(&mut r, n);
        def.insert("thumbnail".into(), json!({ "format": "image/jpeg", "identifier": id }));
        resources.push((id, bytes.clone()));
        exp.resources.push(ExpResource { kind: ResKind::ClaimThumbnail, format: "image/jpeg".into(), bytes });
        features.push("resource_claim_thumbnail".into());
    }

    features.sort();
    features.dedup();
    GenDef { json: Value::Object(def), intent, expect: exp, features, stream_ingredients, resources, boundary }
}

/// Bytes that start like a JPEG (the SDK stores thumbnails verbatim; nothing decodes them).
fn fake_jpeg(r: &mut SplitMix64, n: usize) -> Vec<u8> {
    let mut v = vec![0xFF, 0xD8, 0xFF, 0xE0, 0x00, 0x10, b'J', b'F', b'I', b'F', 0x00];
    v.extend(r.bytes(n.saturating_sub(13)));
    v.extend([0xFF, 0xD9]);
    v
}

impl GenDef {
    /// The definition with `format` set (the SDK overwrites it with the format passed to `sign`).
    pub fn json_with_format(&self, mime: &str) -> Value {
        let mut j = self.json.clone();
        j["format"] = json!(mime);
        j
    }

    pub fn has_signed_ingredient(&self) -> bool {
        self.expect.ingredients.iter().any(|i| i.has_manifest)
    }

    /// Feed the generated data into a `Builder`: definition, intent, stream ingredients, resources.
    pub fn builder(&self, ctx: Context, definition: &Value) -> c2pa::Result<Builder> {
        let mut b = Builder::from_context(ctx).with_definition(definition.to_string())?;
        self.populate(&mut b)?;
        Ok(b)
    }

    /// Same as [`GenDef::builder`] for a builder that already has its definition.
    pub fn populate(&self, b: &mut Builder) -> c2pa::Result<()> {
        if let Some(i) = self.intent.to_builder_intent() {
            b.set_intent(i);
        }
        for (id, bytes) in &self.resources {
            b.add_resource(id, Cursor::new(bytes.clone()))?;
        }
        for p in &self.stream_ingredients {
            if let Some((mime, bytes)) = ingredient_bytes(&p.source) {
                b.add_ingredient_from_stream(p.json.to_string(), &mime, &mut Cursor::new(bytes))?;
            }
        }
        Ok(())
    }
}

// ------------------------------------------------------------------------------------------------
// comparison helpers (documented CBOR→JSON mapping: integers/floats by numeric value, maps unordered)
// ------------------------------------------------------------------------------------------------

/// JSON equivalence after a CBOR round trip: objects unordered, arrays ordered, numbers compared by
/// value (an integral float and the same integer are the same JSON number), everything else equal.
pub fn json_equiv(a: &Value, b: &Value) -> bool {
    match (a, b) {
        (Value::Number(x), Value::Number(y)) => {
            if let (Some(i), Some(j)) = (x.as_i64(), y.as_i64()) {
                return i == j;
            }
            if let (Some(i), Some(j)) = (x.as_u64(), y.as_u64()) {
                return i == j;
            }
            if x.is_f64() || y.is_f64() {
                return match (x.as_f64(), y.as_f64()) {
                    (Some(f), Some(g)) => f == g && (x.is_f64() == y.is_f64() || f.fract() == 0.0 && f.abs() < 9.0e15),
                    _ => false,
                };
            }
            false
        }
        (Value::Array(x), Value::Array(y)) => x.len() == y.len() && x.iter().zip(y).all(|(p, q)| json_equiv(p, q)),
        (Value::Object(x), Value::Object(y)) => {
            x.len() == y.len() && x.iter().all(|(k, v)| y.get(k).map(|w| json_equiv(v, w)).unwrap_or(false))
        }
        _ => a == b,
    }
}

/// Every member of `supplied` (recursively for objects) is present in `reported` with an equivalent value.
pub fn json_subset(supplied: &Value, reported: &Value) -> bool {
    match (supplied, reported) {
        (Value::Object(x), Value::Object(y)) => x.iter().all(|(k, v)| y.get(k).map(|w| json_subset(v, w)).unwrap_or(false)),
        (Value::Array(x), Value::Array(y)) => x.len() == y.len() && x.iter().zip(y).all(|(p, q)| json_subset(p, q)),
        _ => json_equiv(supplied, reported),
    }
}

/// Short description of the first difference between two JSON values (for failure messages).
pub fn first_diff(a: &Value, b: &Value, path: &str) -> Option<String> {
    fn short(v: &Value) -> String {
        let s = v.to_string();
        if s.len() > 80 {
            format!("{}…({} bytes)", s.chars().take(60).collect::<String>(), s.len())
        } else {
            s
        }
    }
    match (a, b) {
        (Value::Object(x), Value::Object(y)) => {
            for (k, v) in x {
                match y.get(k) {
                    None => return Some(format!("{path}/{k}: missing on the right")),
                    Some(w) => {
                        if let Some(d) = first_diff(v, w, &format!("{path}/{k}")) {
                            return Some(d);
                        }
                    }
                }
            }
            for k in y.keys() {
                if !x.contains_key(k) {
                    return Some(format!("{path}/{k}: missing on the left"));
                }
            }
            None
        }
        (Value::Array(x), Value::Array(y)) => {
            if x.len() != y.len() {
                return Some(format!("{path}: array length {} vs {}", x.len(), y.len()));
            }
            for (i, (p, q)) in x.iter().zip(y).enumerate() {
                if let Some(d) = first_diff(p, q, &format!("{path}/{i}")) {
                    return Some(d);
                }
            }
            None
        }
        _ => {
            if json_equiv(a, b) {
                None
            } else {
                Some(format!("{path}: {} vs {}", short(a), short(b)))
            }
        }
    }
}
