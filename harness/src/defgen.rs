//! (stub — being implemented)
