//! Independent JUMBF box-tree walker + minimal CBOR / COSE_Sign1 span locator (DESIGN §4.3).
//!
//! Nothing in here calls the SDK. The layout is ISO 19566-5 (JUMBF) as used by C2PA:
//!
//! ```text
//! box      := LBox(u32 BE) TBox(4) [XLBox(u64 BE) if LBox==1] payload      (LBox==0: box runs to the end of its container)
//! jumb     := box whose payload is: jumd box, then content boxes (jumb | cbor | json | bfdb | bidb | uuid | jp2c | brob | free | …)
//! jumd     := box whose payload is: UUID(16) toggles(1) [label NUL-terminated if toggles&2] [id u32 if toggles&4]
//!                                   [sha256(32) if toggles&8] [private box (c2sh salt) if toggles&16]
//! uuid box := UUID(16) data
//! bfdb     := toggles(1) media-type NUL [file-name NUL if toggles&1]
//! ```
//!
//! `walk_store` yields every box (pre-order) with offsets, label path and parent/child links; for a `cbor`
//! box inside a `c2pa.signature` superbox it also records the byte spans of the COSE_Sign1 elements.
//! `classify` maps a byte position of the store to what it belongs to. The edit helpers build
//! structurally edited copies of a store (optionally fixing the length fields of all enclosing boxes).

use serde::{Deserialize, Serialize};

pub const T_JUMB: [u8; 4] = *b"jumb";
pub const T_JUMD: [u8; 4] = *b"jumd";
pub const T_CBOR: [u8; 4] = *b"cbor";
pub const T_JSON: [u8; 4] = *b"json";
pub const T_UUID: [u8; 4] = *b"uuid";
pub const T_BFDB: [u8; 4] = *b"bfdb";
pub const T_BIDB: [u8; 4] = *b"bidb";
pub const T_BROB: [u8; 4] = *b"brob";
pub const T_C2SH: [u8; 4] = *b"c2sh";
pub const T_FREE: [u8; 4] = *b"free";
pub const T_JP2C: [u8; 4] = *b"jp2c";

/// Half-open byte span `[start, end)`.
#[derive(Clone, Copy, Debug, PartialEq, Eq, Hash, Serialize, Deserialize)]
pub struct Span {
    pub start: usize,
    pub end: usize,
}

impl Span {
    pub fn new(start: usize, end: usize) -> Span {
        Span { start, end }
    }
    pub fn len(&self) -> usize {
        self.end.saturating_sub(self.start)
    }
    pub fn is_empty(&self) -> bool {
        self.end <= self.start
    }
    pub fn contains(&self, pos: usize) -> bool {
        pos >= self.start && pos < self.end
    }
    pub fn intersects(&self, o: &Span) -> bool {
        self.start < o.end && o.start < self.end && !self.is_empty() && !o.is_empty()
    }
}

/// Field layout of a `jumd` description box (absolute offsets).
#[derive(Clone, Debug, PartialEq, Eq, Serialize, Deserialize)]
pub struct DescInfo {
    pub uuid: Span,
    pub toggles_pos: usize,
    pub toggles: u8,
    /// label bytes including the terminating NUL
    pub label: Option<Span>,
    pub id: Option<Span>,
    pub hash: Option<Span>,
    /// the whole private box (header + payload); for a `c2sh` box the salt is the payload
    pub private_box: Option<Span>,
    pub salt: Option<Span>,
    /// bytes of the description payload that no field accounts for
    pub trailing: Option<Span>,
}

/// One entry of the COSE unprotected header map.
#[derive(Clone, Debug, PartialEq, Eq, Serialize, Deserialize)]
pub struct CoseEntry {
    /// text key, or the decimal integer label
    pub key: String,
    pub key_span: Span,
    pub value_span: Span,
}

/// Byte spans (absolute) of the COSE_Sign1 structure found in a signature `cbor` box.
#[derive(Clone, Debug, PartialEq, Eq, Serialize, Deserialize)]
pub struct CoseSpans {
    /// everything of the CBOR item (tag + array + elements)
    pub whole: Span,
    /// tag byte(s) + array header
    pub framing: Span,
    /// the protected bstr: CBOR head (`head`) and content bytes (`body`)
    pub protected_head: Span,
    pub protected_body: Span,
    /// the unprotected header map (whole item)
    pub unprotected: Span,
    pub unprotected_entries: Vec<CoseEntry>,
    /// payload item (nil for detached content)
    pub payload: Span,
    pub signature_head: Span,
    pub signature_body: Span,
    /// bytes of the box payload after the COSE item (normally none)
    pub trailing: Span,
}

#[derive(Clone, Debug, PartialEq, Eq, Serialize, Deserialize)]
pub struct BoxInfo {
    pub start: usize,
    /// 8, or 16 with an XLBox
    pub header_len: usize,
    /// total length including the header
    pub len: usize,
    pub box_type: [u8; 4],
    /// `jumb`: the label of its description box; `jumd`: its own label
    pub label: Option<String>,
    /// label path: `c2pa/urn:c2pa:…/c2pa.assertions/c2pa.hash.data` for superboxes, parent path + `/[type]` for others
    pub path: String,
    pub depth: usize,
    pub parent: Option<usize>,
    /// indices into the vector returned by `walk_store`
    pub children: Vec<usize>,
    /// `jumb`/`jumd`: description UUID; `uuid` box: its UUID
    pub uuid: Option<[u8; 16]>,
    pub desc: Option<DescInfo>,
    pub cose: Option<CoseSpans>,
    /// true when LBox was 0 (box runs to the end of its container)
    pub to_end: bool,
}

impl BoxInfo {
    pub fn end(&self) -> usize {
        self.start + self.len
    }
    pub fn span(&self) -> Span {
        Span::new(self.start, self.end())
    }
    pub fn header(&self) -> Span {
        Span::new(self.start, self.start + self.header_len)
    }
    pub fn payload(&self) -> Span {
        Span::new(self.start + self.header_len, self.end())
    }
    pub fn type_str(&self) -> String {
        self.box_type
            .iter()
            .map(|b| if b.is_ascii_graphic() { *b as char } else { '?' })
            .collect()
    }
    pub fn is(&self, t: &[u8; 4]) -> bool {
        &self.box_type == t
    }
    /// 4-character ASCII prefix of the description UUID (`c2ma`, `c2cl`, `c2cs`, `c2as`, `cbor`, …)
    pub fn uuid_tag(&self) -> Option<String> {
        self.uuid.map(|u| {
            u[..4]
                .iter()
                .map(|b| if b.is_ascii_graphic() { *b as char } else { '?' })
                .collect()
        })
    }
}

fn be32(b: &[u8], p: usize) -> Option<u32> {
    b.get(p..p + 4).map(|s| u32::from_be_bytes([s[0], s[1], s[2], s[3]]))
}

fn be64(b: &[u8], p: usize) -> Option<u64> {
    b.get(p..p + 8).map(|s| {
        let mut a = [0u8; 8];
        a.copy_from_slice(s);
        u64::from_be_bytes(a)
    })
}

/// (header_len, total_len, type, to_end) of the box starting at `pos`, bounded by `limit`.
fn read_box_header(bytes: &[u8], pos: usize, limit: usize) -> Result<(usize, usize, [u8; 4], bool), String> {
    if pos + 8 > limit {
        return Err(format!("box header at {pos} crosses its container end {limit}"));
    }
    let l = be32(bytes, pos).ok_or("short")? as u64;
    let mut t = [0u8; 4];
    t.copy_from_slice(&bytes[pos + 4..pos + 8]);
    let (hl, total, to_end) = if l == 1 {
        if pos + 16 > limit {
            return Err(format!("XLBox at {pos} crosses its container end {limit}"));
        }
        (16usize, be64(bytes, pos + 8).ok_or("short")?, false)
    } else if l == 0 {
        (8usize, (limit - pos) as u64, true)
    } else {
        (8usize, l, false)
    };
    if total < hl as u64 {
        return Err(format!("box at {pos}: length {total} smaller than its header"));
    }
    if total > (limit - pos) as u64 {
        return Err(format!("box at {pos}: length {total} overruns its container (end {limit})"));
    }
    Ok((hl, total as usize, t, to_end))
}

fn parse_desc(bytes: &[u8], b: &BoxInfo) -> Result<(DescInfo, Option<String>), String> {
    let p = b.payload();
    if p.len() < 17 {
        return Err(format!("jumd at {}: payload shorter than UUID + toggles", b.start));
    }
    let uuid = Span::new(p.start, p.start + 16);
    let toggles_pos = p.start + 16;
    let toggles = bytes[toggles_pos];
    let mut cur = toggles_pos + 1;
    let mut label = None;
    let mut label_s = None;
    if toggles & 0x02 != 0 {
        let nul = bytes[cur..p.end]
            .iter()
            .position(|c| *c == 0)
            .ok_or_else(|| format!("jumd at {}: unterminated label", b.start))?;
        label_s = Some(String::from_utf8_lossy(&bytes[cur..cur + nul]).to_string());
        label = Some(Span::new(cur, cur + nul + 1));
        cur += nul + 1;
    }
    let mut id = None;
    if toggles & 0x04 != 0 {
        if cur + 4 > p.end {
            return Err(format!("jumd at {}: id crosses the box end", b.start));
        }
        id = Some(Span::new(cur, cur + 4));
        cur += 4;
    }
    let mut hash = None;
    if toggles & 0x08 != 0 {
        if cur + 32 > p.end {
            return Err(format!("jumd at {}: hash crosses the box end", b.start));
        }
        hash = Some(Span::new(cur, cur + 32));
        cur += 32;
    }
    let mut private_box = None;
    let mut salt = None;
    if toggles & 0x10 != 0 {
        let (hl, total, t, _) = read_box_header(bytes, cur, p.end)?;
        private_box = Some(Span::new(cur, cur + total));
        if t == T_C2SH {
            salt = Some(Span::new(cur + hl, cur + total));
        }
        cur += total;
    }
    let trailing = if cur < p.end { Some(Span::new(cur, p.end)) } else { None };
    Ok((
        DescInfo { uuid, toggles_pos, toggles, label, id, hash, private_box, salt, trailing },
        label_s,
    ))
}

const MAX_DEPTH: usize = 64;

fn walk_container(
    bytes: &[u8],
    out: &mut Vec<BoxInfo>,
    mut pos: usize,
    limit: usize,
    parent: Option<usize>,
    parent_path: &str,
    depth: usize,
) -> Result<(), String> {
    if depth > MAX_DEPTH {
        return Err("nesting too deep".into());
    }
    while pos < limit {
        let (hl, total, t, to_end) = read_box_header(bytes, pos, limit)?;
        let idx = out.len();
        out.push(BoxInfo {
            start: pos,
            header_len: hl,
            len: total,
            box_type: t,
            label: None,
            path: String::new(),
            depth,
            parent,
            children: vec![],
            uuid: None,
            desc: None,
            cose: None,
            to_end,
        });
        if let Some(p) = parent {
            out[p].children.push(idx);
        }
        let pay_start = pos + hl;
        let end = pos + total;
        if t == T_JUMB {
            // first child must be the description box
            let (dhl, dtotal, dt, dto_end) = read_box_header(bytes, pay_start, end)?;
            if dt != T_JUMD {
                return Err(format!("jumb at {pos}: first child is not jumd"));
            }
            let didx = out.len();
            let mut d = BoxInfo {
                start: pay_start,
                header_len: dhl,
                len: dtotal,
                box_type: dt,
                label: None,
                path: String::new(),
                depth: depth + 1,
                parent: Some(idx),
                children: vec![],
                uuid: None,
                desc: None,
                cose: None,
                to_end: dto_end,
            };
            let (di, label) = parse_desc(bytes, &d)?;
            let mut u = [0u8; 16];
            u.copy_from_slice(&bytes[di.uuid.start..di.uuid.end]);
            d.uuid = Some(u);
            d.label = label.clone();
            let private = di.private_box;
            d.desc = Some(di);
            let seg = label.clone().unwrap_or_else(|| "?".to_string());
            let path = if parent_path.is_empty() { seg } else { format!("{parent_path}/{seg}") };
            d.path = format!("{path}/[jumd]");
            out.push(d);
            out[idx].children.push(didx);
            out[idx].label = label;
            out[idx].uuid = Some(u);
            out[idx].path = path.clone();
            if let Some(pb) = private {
                // the private (salt) box as a child of the description box
                let (phl, ptotal, pt, pto_end) = read_box_header(bytes, pb.start, pb.end)?;
                let pidx = out.len();
                out.push(BoxInfo {
                    start: pb.start,
                    header_len: phl,
                    len: ptotal,
                    box_type: pt,
                    label: None,
                    path: format!("{path}/[jumd]/[{}]", String::from_utf8_lossy(&pt)),
                    depth: depth + 2,
                    parent: Some(didx),
                    children: vec![],
                    uuid: None,
                    desc: None,
                    cose: None,
                    to_end: pto_end,
                });
                out[didx].children.push(pidx);
            }
            walk_container(bytes, out, pay_start + dtotal, end, Some(idx), &path, depth + 1)?;
        } else {
            let tname: String = t.iter().map(|b| if b.is_ascii_graphic() { *b as char } else { '?' }).collect();
            out[idx].path = format!("{parent_path}/[{tname}]");
            if t == T_UUID && total >= hl + 16 {
                let mut u = [0u8; 16];
                u.copy_from_slice(&bytes[pay_start..pay_start + 16]);
                out[idx].uuid = Some(u);
            }
        }
        pos = end;
    }
    Ok(())
}

/// Walk a manifest store (one or more top-level boxes). Fails on any structural inconsistency
/// (a box overrunning its container, a superbox without description box, …).
pub fn walk_store(bytes: &[u8]) -> Result<Vec<BoxInfo>, String> {
    let mut out = vec![];
    walk_container(bytes, &mut out, 0, bytes.len(), None, "", 0)?;
    if out.is_empty() {
        return Err("empty store".into());
    }
    // locate COSE structures
    for i in 0..out.len() {
        if out[i].is(&T_CBOR) {
            if let Some(p) = out[i].parent {
                let pl = out[p].label.clone().unwrap_or_default();
                if base_label(&pl) == "c2pa.signature" {
                    let pay = out[i].payload();
                    if let Ok(c) = cose_spans(bytes, pay) {
                        out[i].cose = Some(c);
                    }
                }
            }
        }
    }
    Ok(out)
}

/// Label without a `__n` instance suffix.
pub fn base_label(l: &str) -> &str {
    match l.rfind("__") {
        Some(i) if l[i + 2..].chars().all(|c| c.is_ascii_digit()) && i + 2 < l.len() => &l[..i],
        _ => l,
    }
}

// ------------------------------------------------------------------------------------------------
// minimal CBOR
// ------------------------------------------------------------------------------------------------

/// Head of a CBOR item at `pos`: (major, additional-info argument, head length, indefinite?).
pub fn cbor_head(b: &[u8], pos: usize, end: usize) -> Result<(u8, u64, usize, bool), String> {
    if pos >= end {
        return Err("cbor: unexpected end".into());
    }
    let ib = b[pos];
    let major = ib >> 5;
    let ai = ib & 0x1f;
    let need = |n: usize| -> Result<(), String> {
        if pos + 1 + n > end {
            Err("cbor: truncated head".to_string())
        } else {
            Ok(())
        }
    };
    match ai {
        0..=23 => Ok((major, ai as u64, 1, false)),
        24 => {
            need(1)?;
            Ok((major, b[pos + 1] as u64, 2, false))
        }
        25 => {
            need(2)?;
            Ok((major, u16::from_be_bytes([b[pos + 1], b[pos + 2]]) as u64, 3, false))
        }
        26 => {
            need(4)?;
            Ok((major, be32(b, pos + 1).unwrap() as u64, 5, false))
        }
        27 => {
            need(8)?;
            Ok((major, be64(b, pos + 1).unwrap(), 9, false))
        }
        31 => Ok((major, 0, 1, true)),
        _ => Err(format!("cbor: reserved additional info {ai} at {pos}")),
    }
}

/// End offset of the CBOR item starting at `pos`.
pub fn cbor_skip(b: &[u8], pos: usize, end: usize, depth: usize) -> Result<usize, String> {
    if depth > 128 {
        return Err("cbor: nesting too deep".into());
    }
    let (major, arg, hl, indef) = cbor_head(b, pos, end)?;
    let mut cur = pos + hl;
    match major {
        0 | 1 => {
            if indef {
                return Err("cbor: indefinite integer".into());
            }
            Ok(cur)
        }
        2 | 3 => {
            if indef {
                loop {
                    if cur >= end {
                        return Err("cbor: unterminated indefinite string".into());
                    }
                    if b[cur] == 0xff {
                        return Ok(cur + 1);
                    }
                    let (m2, a2, h2, i2) = cbor_head(b, cur, end)?;
                    if m2 != major || i2 {
                        return Err("cbor: bad chunk in indefinite string".into());
                    }
                    let e = cur.checked_add(h2).and_then(|x| x.checked_add(a2 as usize)).ok_or("cbor: overflow")?;
                    if e > end {
                        return Err("cbor: string chunk overruns".into());
                    }
                    cur = e;
                }
            }
            let e = cur.checked_add(arg as usize).ok_or("cbor: overflow")?;
            if arg > (end - cur) as u64 || e > end {
                return Err("cbor: string overruns".into());
            }
            Ok(e)
        }
        4 | 5 => {
            let per = if major == 4 { 1 } else { 2 };
            if indef {
                loop {
                    if cur >= end {
                        return Err("cbor: unterminated indefinite container".into());
                    }
                    if b[cur] == 0xff {
                        return Ok(cur + 1);
                    }
                    for _ in 0..per {
                        cur = cbor_skip(b, cur, end, depth + 1)?;
                    }
                }
            }
            if arg > (end - cur) as u64 {
                return Err("cbor: container count exceeds the input".into());
            }
            for _ in 0..arg * per {
                cur = cbor_skip(b, cur, end, depth + 1)?;
            }
            Ok(cur)
        }
        6 => {
            if indef {
                return Err("cbor: indefinite tag".into());
            }
            cbor_skip(b, cur, end, depth + 1)
        }
        _ => {
            if indef {
                return Err("cbor: stray break".into());
            }
            Ok(cur)
        }
    }
}

fn cbor_key_string(b: &[u8], pos: usize, end: usize) -> Result<String, String> {
    let (major, arg, hl, indef) = cbor_head(b, pos, end)?;
    if indef {
        return Ok("?".into());
    }
    Ok(match major {
        0 => format!("{arg}"),
        1 => format!("-{}", arg as u128 + 1),
        3 => {
            let s = pos + hl;
            let e = (s + arg as usize).min(end);
            String::from_utf8_lossy(&b[s..e]).to_string()
        }
        _ => "?".into(),
    })
}

/// Locate the COSE_Sign1 elements in `span` (a tagged or untagged 4-element array).
pub fn cose_spans(b: &[u8], span: Span) -> Result<CoseSpans, String> {
    let end = span.end.min(b.len());
    let mut cur = span.start;
    // optional tags
    loop {
        let (major, _arg, hl, indef) = cbor_head(b, cur, end)?;
        if major == 6 && !indef {
            cur += hl;
        } else {
            break;
        }
    }
    let (major, arg, hl, indef) = cbor_head(b, cur, end)?;
    if major != 4 || indef || arg != 4 {
        return Err("cose: not a 4-element array".into());
    }
    cur += hl;
    let framing = Span::new(span.start, cur);
    // protected
    let (m, a, h, i) = cbor_head(b, cur, end)?;
    if m != 2 || i {
        return Err("cose: protected is not a definite bstr".into());
    }
    let p_end = cbor_skip(b, cur, end, 0)?;
    let protected_head = Span::new(cur, cur + h);
    let protected_body = Span::new(cur + h, cur + h + a as usize);
    cur = p_end;
    // unprotected
    let u_start = cur;
    let (m, a, h, i) = cbor_head(b, cur, end)?;
    if m != 5 {
        return Err("cose: unprotected is not a map".into());
    }
    let u_end = cbor_skip(b, cur, end, 0)?;
    let mut entries = vec![];
    let mut c = cur + h;
    let mut n = 0u64;
    loop {
        if i {
            if c >= u_end || b[c] == 0xff {
                break;
            }
        } else if n >= a {
            break;
        }
        let ks = c;
        let ke = cbor_skip(b, c, u_end, 1)?;
        let ve = cbor_skip(b, ke, u_end, 1)?;
        entries.push(CoseEntry {
            key: cbor_key_string(b, ks, ke)?,
            key_span: Span::new(ks, ke),
            value_span: Span::new(ke, ve),
        });
        c = ve;
        n += 1;
    }
    cur = u_end;
    // payload
    let pl_end = cbor_skip(b, cur, end, 0)?;
    let payload = Span::new(cur, pl_end);
    cur = pl_end;
    // signature
    let (m, a, h, i) = cbor_head(b, cur, end)?;
    if m != 2 || i {
        return Err("cose: signature is not a definite bstr".into());
    }
    let s_end = cbor_skip(b, cur, end, 0)?;
    let signature_head = Span::new(cur, cur + h);
    let signature_body = Span::new(cur + h, cur + h + a as usize);
    Ok(CoseSpans {
        whole: Span::new(span.start, s_end),
        framing,
        protected_head,
        protected_body,
        unprotected: Span::new(u_start, u_end),
        unprotected_entries: entries,
        payload,
        signature_head,
        signature_body,
        trailing: Span::new(s_end, span.end),
    })
}

// ------------------------------------------------------------------------------------------------
// classification
// ------------------------------------------------------------------------------------------------

#[derive(Clone, Debug, PartialEq, Eq, Hash, Serialize, Deserialize)]
pub enum DescField {
    Uuid,
    Toggles,
    Label,
    Id,
    Hash,
    /// header of the private (salt) box
    SaltHeader,
    Salt,
    Other,
}

#[derive(Clone, Debug, PartialEq, Eq, Hash, Serialize, Deserialize)]
pub enum SpanClass {
    /// payload of the `cbor` box inside the claim superbox
    ClaimCbor,
    /// payload of a content box (cbor/json/bfdb/bidb/uuid/…) of an assertion under `c2pa.assertions`
    AssertionPayload { label: String },
    /// payload of a content box of an entry of `c2pa.databoxes`
    DataboxPayload,
    /// payload of a content box of an entry of `c2pa.credentials`
    CredentialPayload,
    /// content of the COSE protected bstr
    CoseProtected,
    /// content of the COSE signature bstr
    CoseSignature,
    /// value (or key) of an entry of the COSE unprotected map; `key` = `pad`, `sigTst`, `sigTst2`, `rVals`, `x5chain`/`33`, …
    CoseUnprotected { key: String },
    /// COSE tag, array head, bstr length heads, map head, payload item, trailing bytes
    CoseFraming,
    /// LBox / TBox / XLBox of any box
    BoxHeader { box_type: String },
    DescriptionBox { field: DescField },
    /// payload of a `brob` box (Brotli-compressed manifest) — opaque to this walker
    Compressed,
    Other,
}

impl SpanClass {
    /// Short stable name for counters and failure signatures.
    pub fn name(&self) -> String {
        match self {
            SpanClass::ClaimCbor => "claim-cbor".into(),
            SpanClass::AssertionPayload { .. } => "assertion-payload".into(),
            SpanClass::DataboxPayload => "databox-payload".into(),
            SpanClass::CredentialPayload => "credential-payload".into(),
            SpanClass::CoseProtected => "cose-protected".into(),
            SpanClass::CoseSignature => "cose-signature".into(),
            SpanClass::CoseUnprotected { key } => {
                let k: String = key.chars().filter(|c| c.is_ascii_alphanumeric()).take(12).collect();
                format!("cose-unprotected-{k}")
            }
            SpanClass::CoseFraming => "cose-framing".into(),
            SpanClass::BoxHeader { .. } => "box-header".into(),
            SpanClass::DescriptionBox { field } => format!("desc-{field:?}").to_lowercase(),
            SpanClass::Compressed => "compressed".into(),
            SpanClass::Other => "other".into(),
        }
    }

    /// Classes the second sentence of C02 speaks about: a changed claim, assertion (or databox) payload or
    /// signature. Every byte of these is input to a hash that the claim or the signature commits to.
    pub fn is_strict(&self) -> bool {
        matches!(
            self,
            SpanClass::ClaimCbor
                | SpanClass::AssertionPayload { .. }
                | SpanClass::DataboxPayload
                | SpanClass::CoseProtected
                | SpanClass::CoseSignature
        )
    }
}

/// Index of the innermost box containing `pos`.
pub fn box_at(boxes: &[BoxInfo], pos: usize) -> Option<usize> {
    let mut best: Option<usize> = None;
    for (i, b) in boxes.iter().enumerate() {
        if b.span().contains(pos) {
            match best {
                Some(j) if boxes[j].depth >= b.depth => {}
                _ => best = Some(i),
            }
        }
    }
    best
}

/// Ancestors of box `idx`, innermost first (not including `idx`).
pub fn ancestors(boxes: &[BoxInfo], idx: usize) -> Vec<usize> {
    let mut v = vec![];
    let mut cur = boxes[idx].parent;
    while let Some(p) = cur {
        v.push(p);
        cur = boxes[p].parent;
    }
    v
}

/// Role of a content box, derived from the labels of the enclosing superboxes.
fn content_role(boxes: &[BoxInfo], idx: usize) -> SpanClass {
    let anc = ancestors(boxes, idx);
    // anc[0] = the superbox holding the content box, anc[1] = its store, …
    let lab = |k: usize| -> String {
        anc.get(k).and_then(|i| boxes[*i].label.clone()).unwrap_or_default()
    };
    let own = lab(0);
    let store = lab(1);
    if boxes[idx].is(&T_BROB) {
        return SpanClass::Compressed;
    }
    match base_label(&own) {
        "c2pa.claim" | "c2pa.claim.v2" if boxes[idx].is(&T_CBOR) => return SpanClass::ClaimCbor,
        _ => {}
    }
    match base_label(&store) {
        "c2pa.assertions" => SpanClass::AssertionPayload { label: own },
        "c2pa.databoxes" => SpanClass::DataboxPayload,
        "c2pa.credentials" => SpanClass::CredentialPayload,
        _ => SpanClass::Other,
    }
}

/// What the byte at `pos` belongs to.
pub fn classify(boxes: &[BoxInfo], pos: usize) -> SpanClass {
    let Some(i) = box_at(boxes, pos) else {
        return SpanClass::Other;
    };
    let b = &boxes[i];
    if b.header().contains(pos) {
        return SpanClass::BoxHeader { box_type: b.type_str() };
    }
    if b.is(&T_JUMD) {
        if let Some(d) = &b.desc {
            let f = if d.uuid.contains(pos) {
                DescField::Uuid
            } else if pos == d.toggles_pos {
                DescField::Toggles
            } else if d.label.map(|s| s.contains(pos)).unwrap_or(false) {
                DescField::Label
            } else if d.id.map(|s| s.contains(pos)).unwrap_or(false) {
                DescField::Id
            } else if d.hash.map(|s| s.contains(pos)).unwrap_or(false) {
                DescField::Hash
            } else if d.salt.map(|s| s.contains(pos)).unwrap_or(false) {
                DescField::Salt
            } else if d.private_box.map(|s| s.contains(pos)).unwrap_or(false) {
                DescField::SaltHeader
            } else {
                DescField::Other
            };
            return SpanClass::DescriptionBox { field: f };
        }
        return SpanClass::DescriptionBox { field: DescField::Other };
    }
    if let Some(p) = b.parent {
        if boxes[p].is(&T_JUMD) {
            // payload of the private box of a description
            return SpanClass::DescriptionBox {
                field: if b.is(&T_C2SH) { DescField::Salt } else { DescField::Other },
            };
        }
    }
    if b.is(&T_JUMB) {
        // a jumb's own bytes are all inside children; only reachable for gaps
        return SpanClass::Other;
    }
    if let Some(c) = &b.cose {
        if c.protected_body.contains(pos) {
            return SpanClass::CoseProtected;
        }
        if c.signature_body.contains(pos) {
            return SpanClass::CoseSignature;
        }
        for e in &c.unprotected_entries {
            if e.key_span.contains(pos) || e.value_span.contains(pos) {
                return SpanClass::CoseUnprotected { key: e.key.clone() };
            }
        }
        return SpanClass::CoseFraming;
    }
    content_role(boxes, i)
}

/// Classes of all bytes in `[start, end)` (deduplicated, in order of first appearance).
pub fn classify_span(boxes: &[BoxInfo], start: usize, end: usize) -> Vec<SpanClass> {
    let mut v: Vec<SpanClass> = vec![];
    for p in start..end {
        let c = classify(boxes, p);
        if !v.contains(&c) {
            v.push(c);
        }
    }
    v
}

/// Per-byte class table for a whole store (index = byte offset), plus the distinct classes.
pub fn class_table(boxes: &[BoxInfo], len: usize) -> (Vec<u16>, Vec<SpanClass>) {
    let mut classes: Vec<SpanClass> = vec![];
    let mut tab = vec![0u16; len];
    for (p, slot) in tab.iter_mut().enumerate() {
        let c = classify(boxes, p);
        let k = match classes.iter().position(|x| *x == c) {
            Some(k) => k,
            None => {
                classes.push(c);
                classes.len() - 1
            }
        };
        *slot = k as u16;
    }
    (tab, classes)
}

/// The manifest (child of the top-level `c2pa` superbox) that contains `pos`: (ordinal, label).
pub fn manifest_of(boxes: &[BoxInfo], pos: usize) -> Option<(usize, String)> {
    let mut n = 0;
    for b in boxes {
        if b.depth == 1 && b.is(&T_JUMB) {
            if b.span().contains(pos) {
                return Some((n, b.label.clone().unwrap_or_default()));
            }
            n += 1;
        }
    }
    None
}

/// First box whose path equals `path`.
pub fn find_path(boxes: &[BoxInfo], path: &str) -> Option<usize> {
    boxes.iter().position(|b| b.path == path)
}

// ------------------------------------------------------------------------------------------------
// structural edits
// ------------------------------------------------------------------------------------------------

/// A structural edit of a store, expressed on the box indices of `walk_store(original)`.
#[derive(Clone, Debug, PartialEq, Eq, Hash, Serialize, Deserialize)]
pub enum Edit {
    /// exchange two sibling boxes (same parent)
    Swap { a: usize, b: usize },
    /// insert a copy of box `idx` right after it
    Duplicate { idx: usize, fix: bool },
    /// insert a copy of box `idx` at the end of superbox `into`
    CopyInto { idx: usize, into: usize, fix: bool },
    /// remove box `idx`
    Delete { idx: usize, fix: bool },
    /// replace byte `at` (0-based inside the label, NUL excluded) of the label of description box `jumd`
    LabelChar { jumd: usize, at: usize, to: u8 },
    /// overwrite byte `at` (0..16) of the UUID of description box `jumd`
    UuidByte { jumd: usize, at: usize, to: u8 },
    /// overwrite the toggles byte of description box `jumd`
    Toggles { jumd: usize, to: u8 },
    /// add `delta` to the length field of box `idx` without touching its content
    LenField { idx: usize, delta: i64, fix_parents: bool },
    /// insert raw bytes as a new last child of superbox `into` (e.g. an unknown or `free` box)
    InsertRaw { into: usize, raw: Vec<u8>, fix: bool },
    /// insert raw bytes (a complete box) right before box `idx`
    InsertBefore { idx: usize, raw: Vec<u8>, fix: bool },
    /// insert raw bytes (a complete box) right after box `idx`
    InsertAfter { idx: usize, raw: Vec<u8>, fix: bool },
    /// replace box `idx` by raw bytes (a complete box)
    Replace { idx: usize, raw: Vec<u8>, fix: bool },
    /// rewrite the header of box `idx` as LBox=1 + XLBox (grows by 8 bytes)
    ToXlBox { idx: usize, fix: bool },
    /// set LBox of box `idx` to 0 ("to end of container")
    ZeroLen { idx: usize },
}

impl Edit {
    pub fn kind(&self) -> &'static str {
        match self {
            Edit::Swap { .. } => "swap",
            Edit::Duplicate { .. } => "duplicate",
            Edit::CopyInto { .. } => "copy-into",
            Edit::Delete { .. } => "delete",
            Edit::LabelChar { .. } => "label-char",
            Edit::UuidByte { .. } => "uuid-byte",
            Edit::Toggles { .. } => "toggles",
            Edit::LenField { .. } => "len-field",
            Edit::InsertRaw { .. } => "insert-raw",
            Edit::InsertBefore { .. } => "insert-before",
            Edit::InsertAfter { .. } => "insert-after",
            Edit::Replace { .. } => "replace",
            Edit::ToXlBox { .. } => "to-xlbox",
            Edit::ZeroLen { .. } => "zero-len",
        }
    }
}

fn write_len(out: &mut [u8], b: &BoxInfo, shift: isize, new_len: u64) {
    let s = (b.start as isize + shift) as usize;
    if b.header_len == 16 {
        out[s + 8..s + 16].copy_from_slice(&new_len.to_be_bytes());
    } else if !b.to_end {
        out[s..s + 4].copy_from_slice(&(new_len as u32).to_be_bytes());
    }
}

/// Replace `remove` bytes at `at` by `insert`; when `fix_from` is given, the length fields of that box
/// and all its ancestors are adjusted by the size difference (they all start at or before `at`).
fn splice(bytes: &[u8], boxes: &[BoxInfo], at: usize, remove: usize, insert: &[u8], fix_from: Option<usize>) -> Vec<u8> {
    let mut out = Vec::with_capacity(bytes.len() + insert.len());
    out.extend_from_slice(&bytes[..at]);
    out.extend_from_slice(insert);
    out.extend_from_slice(&bytes[at + remove..]);
    if let Some(f) = fix_from {
        let delta = insert.len() as i64 - remove as i64;
        let mut chain = vec![f];
        chain.extend(ancestors(boxes, f));
        for i in chain {
            let b = &boxes[i];
            let nl = (b.len as i64 + delta).max(0) as u64;
            write_len(&mut out, b, 0, nl);
        }
    }
    out
}

/// Apply `e` to `bytes` (`boxes` = `walk_store(bytes)`); `None` when the edit does not apply.
pub fn apply_edit(bytes: &[u8], boxes: &[BoxInfo], e: &Edit) -> Option<Vec<u8>> {
    let get = |i: usize| boxes.get(i);
    match e {
        Edit::Swap { a, b } => {
            let (x, y) = (get(*a)?, get(*b)?);
            if x.parent != y.parent || a == b {
                return None;
            }
            let (x, y) = if x.start <= y.start { (x, y) } else { (y, x) };
            if x.end() > y.start {
                return None;
            }
            let mut out = Vec::with_capacity(bytes.len());
            out.extend_from_slice(&bytes[..x.start]);
            out.extend_from_slice(&bytes[y.start..y.end()]);
            out.extend_from_slice(&bytes[x.end()..y.start]);
            out.extend_from_slice(&bytes[x.start..x.end()]);
            out.extend_from_slice(&bytes[y.end()..]);
            Some(out)
        }
        Edit::Duplicate { idx, fix } => {
            let b = get(*idx)?;
            let copy = bytes[b.start..b.end()].to_vec();
            Some(splice(bytes, boxes, b.end(), 0, &copy, if *fix { b.parent } else { None }))
        }
        Edit::CopyInto { idx, into, fix } => {
            let b = get(*idx)?;
            let t = get(*into)?;
            if !t.is(&T_JUMB) {
                return None;
            }
            let copy = bytes[b.start..b.end()].to_vec();
            Some(splice(bytes, boxes, t.end(), 0, &copy, if *fix { Some(*into) } else { None }))
        }
        Edit::Delete { idx, fix } => {
            let b = get(*idx)?;
            b.parent?;
            Some(splice(bytes, boxes, b.start, b.len, &[], if *fix { b.parent } else { None }))
        }
        Edit::LabelChar { jumd, at, to } => {
            let b = get(*jumd)?;
            let l = b.desc.as_ref()?.label?;
            if l.len() < 2 || *at >= l.len() - 1 || *to == 0 {
                return None;
            }
            let mut out = bytes.to_vec();
            if out[l.start + at] == *to {
                return None;
            }
            out[l.start + at] = *to;
            Some(out)
        }
        Edit::UuidByte { jumd, at, to } => {
            let b = get(*jumd)?;
            let u = b.desc.as_ref()?.uuid;
            if *at >= 16 || bytes[u.start + at] == *to {
                return None;
            }
            let mut out = bytes.to_vec();
            out[u.start + at] = *to;
            Some(out)
        }
        Edit::Toggles { jumd, to } => {
            let b = get(*jumd)?;
            let d = b.desc.as_ref()?;
            if d.toggles == *to {
                return None;
            }
            let mut out = bytes.to_vec();
            out[d.toggles_pos] = *to;
            Some(out)
        }
        Edit::LenField { idx, delta, fix_parents } => {
            let b = get(*idx)?;
            if *delta == 0 || b.to_end {
                return None;
            }
            let nl = b.len as i64 + delta;
            if nl < 0 || (b.header_len == 8 && (nl > u32::MAX as i64 || nl == 1 || nl == 0)) {
                return None;
            }
            let mut out = bytes.to_vec();
            write_len(&mut out, b, 0, nl as u64);
            if *fix_parents {
                for i in ancestors(boxes, *idx) {
                    let p = &boxes[i];
                    write_len(&mut out, p, 0, (p.len as i64 + delta).max(0) as u64);
                }
            }
            Some(out)
        }
        Edit::InsertRaw { into, raw, fix } => {
            let t = get(*into)?;
            if !t.is(&T_JUMB) {
                return None;
            }
            Some(splice(bytes, boxes, t.end(), 0, raw, if *fix { Some(*into) } else { None }))
        }
        Edit::InsertBefore { idx, raw, fix } => {
            let b = get(*idx)?;
            b.parent?;
            Some(splice(bytes, boxes, b.start, 0, raw, if *fix { b.parent } else { None }))
        }
        Edit::InsertAfter { idx, raw, fix } => {
            let b = get(*idx)?;
            b.parent?;
            Some(splice(bytes, boxes, b.end(), 0, raw, if *fix { b.parent } else { None }))
        }
        Edit::Replace { idx, raw, fix } => {
            let b = get(*idx)?;
            b.parent?;
            Some(splice(bytes, boxes, b.start, b.len, raw, if *fix { b.parent } else { None }))
        }
        Edit::ToXlBox { idx, fix } => {
            let b = get(*idx)?;
            if b.header_len != 8 || b.to_end {
                return None;
            }
            let mut hdr = Vec::with_capacity(16);
            hdr.extend_from_slice(&1u32.to_be_bytes());
            hdr.extend_from_slice(&b.box_type);
            hdr.extend_from_slice(&((b.len + 8) as u64).to_be_bytes());
            Some(splice(bytes, boxes, b.start, 8, &hdr, if *fix { b.parent } else { None }))
        }
        Edit::ZeroLen { idx } => {
            let b = get(*idx)?;
            if b.header_len != 8 || b.to_end {
                return None;
            }
            let mut out = bytes.to_vec();
            out[b.start..b.start + 4].copy_from_slice(&[0, 0, 0, 0]);
            Some(out)
        }
    }
}

/// Raw bytes of a content box with the given type and payload.
pub fn make_box(t: &[u8; 4], payload: &[u8]) -> Vec<u8> {
    let mut v = Vec::with_capacity(8 + payload.len());
    v.extend_from_slice(&((8 + payload.len()) as u32).to_be_bytes());
    v.extend_from_slice(t);
    v.extend_from_slice(payload);
    v
}

/// Byte range of the original that an edit changes, inserts at or removes (for classification).
pub fn edit_span(boxes: &[BoxInfo], e: &Edit) -> Option<Span> {
    let g = |i: &usize| boxes.get(*i);
    Some(match e {
        Edit::Swap { a, b } => {
            let (x, y) = (g(a)?, g(b)?);
            Span::new(x.start.min(y.start), x.end().max(y.end()))
        }
        Edit::Duplicate { idx, .. } | Edit::Delete { idx, .. } | Edit::CopyInto { idx, .. } | Edit::Replace { idx, .. } => g(idx)?.span(),
        Edit::InsertBefore { idx, .. } => {
            let b = g(idx)?;
            Span::new(b.start, b.start)
        }
        Edit::InsertAfter { idx, .. } => {
            let b = g(idx)?;
            Span::new(b.end(), b.end())
        }
        Edit::LabelChar { jumd, at, .. } => {
            let l = g(jumd)?.desc.as_ref()?.label?;
            Span::new(l.start + at, l.start + at + 1)
        }
        Edit::UuidByte { jumd, at, .. } => {
            let u = g(jumd)?.desc.as_ref()?.uuid;
            Span::new(u.start + at, u.start + at + 1)
        }
        Edit::Toggles { jumd, .. } => {
            let d = g(jumd)?.desc.as_ref()?;
            Span::new(d.toggles_pos, d.toggles_pos + 1)
        }
        Edit::LenField { idx, .. } | Edit::ToXlBox { idx, .. } | Edit::ZeroLen { idx } => g(idx)?.header(),
        Edit::InsertRaw { into, .. } => {
            let t = g(into)?;
            Span::new(t.end(), t.end())
        }
    })
}

/// All structural edits of a store that the C02 design lists, in a deterministic order
/// (`extra` = false keeps one representative per (edit kind, box) pair; true adds more variants).
pub fn all_structural_edits(bytes: &[u8], boxes: &[BoxInfo], extra: bool) -> Vec<Edit> {
    let mut v = vec![];
    for (i, b) in boxes.iter().enumerate() {
        // sibling swaps: adjacent siblings, and first with last
        if !b.children.is_empty() {
            let kids: Vec<usize> = b.children.iter().copied().filter(|k| !boxes[*k].is(&T_JUMD) || b.is(&T_JUMD)).collect();
            for w in kids.windows(2) {
                v.push(Edit::Swap { a: w[0], b: w[1] });
            }
            if kids.len() > 2 {
                v.push(Edit::Swap { a: kids[0], b: kids[kids.len() - 1] });
            }
            // the description box with the first content box
            if b.is(&T_JUMB) && b.children.len() >= 2 {
                v.push(Edit::Swap { a: b.children[0], b: b.children[1] });
            }
        }
        if b.parent.is_some() {
            v.push(Edit::Duplicate { idx: i, fix: true });
            v.push(Edit::Delete { idx: i, fix: true });
            if extra {
                v.push(Edit::Duplicate { idx: i, fix: false });
                v.push(Edit::Delete { idx: i, fix: false });
            }
        }
        if b.is(&T_JUMD) {
            if let Some(d) = &b.desc {
                if let Some(l) = d.label {
                    let n = l.len() - 1;
                    let positions: Vec<usize> = if extra { (0..n).collect() } else { vec![0, n / 2, n.saturating_sub(1)] };
                    let mut seen = vec![];
                    for at in positions {
                        if at >= n || seen.contains(&at) {
                            continue;
                        }
                        seen.push(at);
                        let c = bytes[l.start + at];
                        v.push(Edit::LabelChar { jumd: i, at, to: if c == b'z' { b'y' } else { c.wrapping_add(1).max(1) } });
                        if extra {
                            v.push(Edit::LabelChar { jumd: i, at, to: c ^ 0x20 });
                        }
                    }
                }
                for at in if extra { (0..16).collect::<Vec<_>>() } else { vec![0, 3, 4, 15] } {
                    let c = bytes[d.uuid.start + at];
                    v.push(Edit::UuidByte { jumd: i, at, to: c ^ 0x01 });
                }
                for bit in 0..8u8 {
                    v.push(Edit::Toggles { jumd: i, to: d.toggles ^ (1 << bit) });
                }
            }
        }
        for delta in if extra { vec![-8i64, -1, 1, 8, 256] } else { vec![-1i64, 1, 8] } {
            v.push(Edit::LenField { idx: i, delta, fix_parents: false });
            if b.parent.is_some() {
                v.push(Edit::LenField { idx: i, delta, fix_parents: true });
            }
        }
        v.push(Edit::ToXlBox { idx: i, fix: true });
        v.push(Edit::ZeroLen { idx: i });
        if b.is(&T_JUMB) {
            v.push(Edit::InsertRaw { into: i, raw: make_box(b"free", &[0u8; 4]), fix: true });
            v.push(Edit::InsertRaw { into: i, raw: make_box(b"zzzz", b"unknown!"), fix: true });
            if extra {
                v.push(Edit::InsertRaw { into: i, raw: make_box(b"cbor", &[0xa0]), fix: true });
                v.push(Edit::InsertRaw { into: i, raw: make_box(b"json", b"{}"), fix: true });
            }
        }
    }
    // copy each manifest-level box of one manifest into another manifest and each assertion into
    // another assertion store (cross-manifest transplant)
    let manifests: Vec<usize> = boxes.iter().enumerate().filter(|(_, b)| b.depth == 1 && b.is(&T_JUMB)).map(|(i, _)| i).collect();
    for &m in &manifests {
        for &n in &manifests {
            if m == n {
                continue;
            }
            for &k in &boxes[m].children {
                if boxes[k].is(&T_JUMB) {
                    v.push(Edit::CopyInto { idx: k, into: n, fix: true });
                }
            }
        }
    }
    v
}

#[cfg(test)]
mod tests {
    use super::*;

    fn jumd(uuid: &[u8; 16], label: &str, salt: Option<&[u8]>) -> Vec<u8> {
        let mut p = uuid.to_vec();
        p.push(if salt.is_some() { 0x13 } else { 0x03 });
        p.extend_from_slice(label.as_bytes());
        p.push(0);
        if let Some(s) = salt {
            p.extend_from_slice(&make_box(b"c2sh", s));
        }
        make_box(b"jumd", &p)
    }

    fn jumb(uuid: &[u8; 16], label: &str, kids: &[Vec<u8>]) -> Vec<u8> {
        let mut p = jumd(uuid, label, None);
        for k in kids {
            p.extend_from_slice(k);
        }
        make_box(b"jumb", &p)
    }

    #[test]
    fn walks_and_classifies() {
        let u = *b"c2pa\x00\x11\x00\x10\x80\x00\x00\xaa\x00\x38\x9b\x71";
        // COSE_Sign1: tag 18, [h'a10126', {"pad": h'0000'}, nil, h'0102']
        let cose = vec![0xd2, 0x84, 0x43, 0xa1, 0x01, 0x26, 0xa1, 0x63, b'p', b'a', b'd', 0x42, 0, 0, 0xf6, 0x42, 1, 2];
        let sig = jumb(&u, "c2pa.signature", &[make_box(b"cbor", &cose)]);
        let claim = jumb(&u, "c2pa.claim.v2", &[make_box(b"cbor", &[0xa0])]);
        let a = jumb(&u, "c2pa.assertions", &[jumb(&u, "x.y", &[make_box(b"cbor", &[0xa0])])]);
        let m = jumb(&u, "urn:c2pa:1", &[a, claim, sig]);
        let s = jumb(&u, "c2pa", &[m]);
        let b = walk_store(&s).unwrap();
        assert_eq!(b[0].path, "c2pa");
        assert!(b.iter().any(|x| x.path == "c2pa/urn:c2pa:1/c2pa.assertions/x.y"));
        let sigbox = b.iter().find(|x| x.cose.is_some()).unwrap();
        let c = sigbox.cose.as_ref().unwrap();
        assert_eq!(c.protected_body.len(), 3);
        assert_eq!(c.signature_body.len(), 2);
        assert_eq!(c.unprotected_entries[0].key, "pad");
        assert_eq!(classify(&b, c.signature_body.start), SpanClass::CoseSignature);
        assert_eq!(classify(&b, 0), SpanClass::BoxHeader { box_type: "jumb".into() });
        let claimbox = b.iter().find(|x| x.path == "c2pa/urn:c2pa:1/c2pa.claim.v2/[cbor]").unwrap();
        assert_eq!(classify(&b, claimbox.payload().start), SpanClass::ClaimCbor);
        // every edit yields a store of the expected size and fixed edits re-walk
        for e in all_structural_edits(&s, &b, true) {
            if let Some(o) = apply_edit(&s, &b, &e) {
                match e {
                    Edit::Duplicate { fix: true, .. } | Edit::Delete { fix: true, .. } | Edit::ToXlBox { fix: true, .. } => {
                        // deleting a jumd makes the tree invalid, everything else must re-walk
                        if let Edit::Delete { idx, .. } = e {
                            if b[idx].is(&T_JUMD) || b[b[idx].parent.unwrap()].is(&T_JUMD) {
                                continue;
                            }
                        }
                        if let Edit::Duplicate { idx, .. } = e {
                            if b[b[idx].parent.unwrap()].is(&T_JUMD) {
                                continue;
                            }
                        }
                        if let Edit::ToXlBox { idx, .. } = e {
                            if b[b[idx].parent.unwrap_or(0)].is(&T_JUMD) && idx != 0 {
                                continue;
                            }
                        }
                        walk_store(&o).unwrap_or_else(|x| panic!("{e:?}: {x}"));
                    }
                    _ => {}
                }
            }
        }
    }
}
