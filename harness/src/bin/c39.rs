//! C39 — ingredients carry their source manifests and validation faithfully.
//!
//! case = (ingredient container kind, seed, ingredient state, relationship, route, parent container).
//!   states: signed | tampered (a protected media byte changed so that reading the asset alone is Invalid) |
//!           unsigned | chain (the ingredient itself has a signed ingredient) | chain whose inner ingredient was
//!           tampered | conflict (the same signed asset twice: intact and with one byte of an assertion payload
//!           inside its store changed, so both carry the same manifest label with different content) |
//!           store-tampered (only the modified copy)
//!   routes: Builder::add_ingredient_from_stream directly, or through a C2PA ingredient archive
//!           (write_ingredient_archive -> add_ingredient_from_archive).
//!
//! Oracle: (1) read the ingredient asset alone with the same settings: state, failure (code, url) multiset, active
//! label, store S_i (located by the independent container walker, SDK loader as fall-back); (2) add it to a parent
//! builder and sign; (3) the Ingredient object returned by the builder and the ingredient in the parent's read-back
//! report must carry the same active label, the same validation state and the same failure codes (URLs made absolute
//! with the ingredient's label), and every manifest box of S_i must occur byte-identical (same label) as a child of the
//! parent's store superbox (independent JUMBF walker). Unsigned: no active manifest, no manifest data, no validation
//! failures, parent Valid/Trusted. The parent's own state with a tampered ingredient is recorded only.

use std::io::Cursor;

use c2pa::{Builder, BuilderIntent, DigitalSourceType, Ingredient};
use proptest::prelude::*;
use serde::{Deserialize, Serialize};
use serde_json::json;
use vh::{jumbf_walk as jw, rng::SplitMix64, sdk, CaseResult, Fail, Run};

const STATES: [&str; 13] = [
    "signed", "tampered", "unsigned", "chain", "chain-tampered-inner", "conflict", "store-tampered",
    // chains whose inner link is a legacy `c2pa_manifest` reference of a claim-v1 manifest
    "chain-v1", "fixture:CACA.jpg", "fixture:CACAE-uri-CA.jpg", "fixture:CIE-sig-CA.jpg", "fixture:CA.jpg", "fixture:C.jpg",
];
const ROUTES: [&str; 4] = ["stream", "ingredient-archive", "builder-archive", "into-builder"];
/// `format` member of the ingredient JSON: absent, the stream's type, another supported type, a type without handler (x2)
const DECLS: [&str; 5] = ["absent", "matching", "other-supported", "image/vnd.adobe.photoshop", "application/x-verif-unknown"];
const RELS: [&str; 3] = ["parentOf", "componentOf", "inputTo"];
const PARENTS: [&str; 3] = ["png", "jpeg", "mp4"];
const TITLE: &str = "c39 ingredient";

#[derive(Clone, Debug, Serialize, Deserialize, PartialEq, Eq, Hash)]
struct Case {
    kind: u8,
    aseed: u16,
    state: u8,
    rel: u8,
    /// index into ROUTES
    route: u8,
    parent: u8,
    tamper_sel: u32,
    /// index into DECLS
    #[serde(default)]
    decl: u8,
}

fn is_bmff(kind: &str) -> bool {
    matches!(kind, "mp4" | "mov" | "heic" | "avif" | "m4a")
}

fn synth(kind: &str, seed: u64) -> vh::assets::Synth {
    let mut r = SplitMix64::new(seed);
    vh::assets::synth(kind, &mut r, 1200)
}

/// Top-level BMFF boxes (type, start, end, header length).
fn bmff_top(b: &[u8]) -> Vec<(String, usize, usize, usize)> {
    let mut out = vec![];
    let mut p = 0usize;
    while p + 8 <= b.len() {
        let sz32 = u32::from_be_bytes([b[p], b[p + 1], b[p + 2], b[p + 3]]) as u64;
        let ty = String::from_utf8_lossy(&b[p + 4..p + 8]).to_string();
        let (size, hl) = if sz32 == 1 {
            if p + 16 > b.len() {
                break;
            }
            (u64::from_be_bytes(b[p + 8..p + 16].try_into().unwrap()), 16)
        } else if sz32 == 0 {
            ((b.len() - p) as u64, 8)
        } else {
            (sz32, 8)
        };
        if size < hl as u64 || p as u64 + size > b.len() as u64 {
            break;
        }
        out.push((ty, p, p + size as usize, hl));
        p += size as usize;
    }
    out
}

/// Change one byte that the hard binding protects.
fn tamper_media(kind: &str, bytes: &[u8], sel: u32) -> Option<Vec<u8>> {
    let ranges: Vec<(usize, usize)> = if is_bmff(kind) {
        bmff_top(bytes).into_iter().filter(|(t, s, e, hl)| t == "mdat" && e - s > *hl).map(|(_, s, e, hl)| (s + hl, e)).collect()
    } else {
        let mut sp: Vec<(usize, usize)> = vh::walk::manifest_spans(kind, bytes).ok()?.iter().map(|(s, l)| (*s, s + l)).collect();
        sp.sort();
        let mut v = vec![];
        let mut p = 0;
        for (s, e) in sp {
            if s > p {
                v.push((p, s));
            }
            p = p.max(e);
        }
        if p < bytes.len() {
            v.push((p, bytes.len()));
        }
        // stay away from the container framing at both ends so that the asset still parses
        v
    };
    let total: usize = ranges.iter().map(|(s, e)| e - s).sum();
    if total == 0 {
        return None;
    }
    let mut k = sel as usize % total;
    for (s, e) in ranges {
        if k < e - s {
            let mut v = bytes.to_vec();
            v[s + k] ^= 0x01;
            return Some(v);
        }
        k -= e - s;
    }
    None
}

/// Change one byte inside the payload of the custom assertion of the active manifest of an embedded store.
fn tamper_store(fmt: &str, bytes: &[u8]) -> Result<Vec<u8>, String> {
    let store = sdk::store_of(fmt, bytes).map_err(|e| e.to_string())?;
    let boxes = jw::walk_store(&store)?;
    let t = boxes
        .iter()
        .find(|b| b.is(&jw::T_JUMB) && b.label.as_deref() == Some("org.verif.note"))
        .ok_or("custom assertion box not found")?;
    let content = t.children.iter().map(|i| &boxes[*i]).find(|b| !b.is(&jw::T_JUMD)).ok_or("no content box")?;
    let p = content.payload();
    let mut s = store.clone();
    s[p.end - 2] ^= 0x01;
    c2pa::jumbf_io::save_jumbf_to_memory(fmt, bytes, &s).map_err(|e| e.to_string())
}

#[derive(Clone, Debug, PartialEq, Eq)]
struct Alone {
    state: String,
    failures: Vec<(String, String)>,
    label: Option<String>,
    store: Vec<u8>,
}

fn abs(label: &str, url: &str) -> String {
    if url.is_empty() {
        String::new()
    } else {
        c2pa::verif_hooks::to_absolute_uri(label, url)
    }
}

fn failures_of(res: Option<&c2pa::validation_results::ValidationResults>, label: &str) -> Vec<(String, String)> {
    let mut v = vec![];
    if let Some(res) = res {
        if let Some(a) = res.active_manifest() {
            v.extend(a.failure().iter().map(|s| (s.code().to_string(), abs(label, s.url().unwrap_or("")))));
        }
        if let Some(d) = res.ingredient_deltas() {
            for idv in d {
                v.extend(idv.validation_deltas().failure().iter().map(|s| (s.code().to_string(), abs(label, s.url().unwrap_or("")))));
            }
        }
    }
    v.sort();
    v
}

fn read_alone(kind: &str, fmt: &str, bytes: &[u8]) -> Result<Alone, String> {
    let r = match vh::catch(|| sdk::read(fmt, bytes)) {
        Ok(Ok(r)) => r,
        Ok(Err(e)) => return Err(format!("err:{e}")),
        Err(p) => return Err(format!("panic:{p}")),
    };
    let label = r.active_label().map(|s| s.to_string());
    let store = match vh::walk::extract_store(kind, bytes) {
        Ok(Some(s)) if !is_bmff(kind) => s,
        _ => sdk::store_of(fmt, bytes).map_err(|e| format!("store_of: {e}"))?,
    };
    Ok(Alone {
        state: sdk::state_name(r.validation_state()).to_string(),
        failures: failures_of(r.validation_results(), label.as_deref().unwrap_or("")),
        label,
        store,
    })
}

/// (label, bytes) of every manifest box: the `jumb` children of the store superbox.
fn manifest_boxes(store: &[u8]) -> Result<Vec<(String, Vec<u8>, Vec<u8>)>, String> {
    let boxes = jw::walk_store(store)?;
    let mut out = vec![];
    for b in boxes.iter().filter(|b| b.is(&jw::T_JUMB) && b.depth == 1) {
        let whole = store[b.start..b.end()].to_vec();
        // content without the description box (for the relabelled-conflict comparison)
        let jumd = b.children.first().map(|i| &boxes[*i]).ok_or("manifest without description box")?;
        let content = store[jumd.end()..b.end()].to_vec();
        out.push((b.label.clone().unwrap_or_default(), whole, content));
    }
    Ok(out)
}

fn sign_with_ingredients(fmt: &str, src: &[u8], title: &str, intent: Option<BuilderIntent>, ings: &[(String, String, Vec<u8>)]) -> c2pa::Result<Vec<u8>> {
    let mut def = sdk::simple_definition(title);
    if intent.is_none() {
        // claim version 1: ingredient assertions are v2 and reference their manifest through `c2pa_manifest`
        def["claim_version"] = json!(1);
        def["claim_generator"] = json!("verif-harness/0.1");
    }
    let mut b = Builder::from_context(sdk::context()).with_definition(def.to_string())?;
    if let Some(i) = intent {
        b.set_intent(i);
    }
    for (j, f, bytes) in ings {
        b.add_ingredient_from_stream(j.clone(), f, &mut Cursor::new(bytes.clone()))?;
    }
    let signer = sdk::signer("ed25519");
    let mut s = Cursor::new(src.to_vec());
    let mut d = Cursor::new(Vec::new());
    b.sign(signer.as_ref(), fmt, &mut s, &mut d)?;
    Ok(d.into_inner())
}

struct Snapshot {
    active: Option<String>,
    state: Option<String>,
    failures: Vec<(String, String)>,
    has_results: bool,
    has_manifest_data: bool,
    status_failures: usize,
}

fn snapshot(i: &Ingredient) -> Snapshot {
    let label = i.active_manifest().unwrap_or("").to_string();
    Snapshot {
        active: i.active_manifest().map(|s| s.to_string()),
        state: i.validation_results().map(|r| sdk::state_name(r.validation_state()).to_string()),
        failures: failures_of(i.validation_results(), &label),
        has_results: i.validation_results().is_some(),
        has_manifest_data: i.manifest_data_ref().is_some(),
        status_failures: i.validation_status().map(|v| v.len()).unwrap_or(0),
    }
}

fn compare(run: &Run, place: &str, st: &str, alone: &Option<Alone>, snap: &Snapshot, conflict_second: bool) -> CaseResult {
    match alone {
        None => {
            // unsigned
            if snap.active.is_some() || snap.has_manifest_data {
                return Err(Fail::new(format!("C39:unsigned-ingredient-has-manifest:{place}"), format!("active_manifest {:?}, manifest data {}", snap.active, snap.has_manifest_data)));
            }
            if !snap.failures.is_empty() || snap.status_failures > 0 {
                return Err(Fail::new(format!("C39:unsigned-ingredient-has-failures:{place}"), format!("{:?} / validation_status entries {}", snap.failures, snap.status_failures)));
            }
            run.count(if snap.has_results { "unsigned_with_empty_results" } else { "unsigned_without_results" });
            Ok(())
        }
        Some(a) => {
            let want = a.label.clone().unwrap_or_default();
            let got = snap.active.clone().unwrap_or_default();
            let relabelled = conflict_second && got != want && got.starts_with(&format!("{want}:"));
            if got != want && !relabelled {
                return Err(Fail::new(format!("C39:active-label-differs:{place}:{st}"), format!("read alone: {want:?}; recorded: {got:?}")));
            }
            if relabelled {
                run.count("conflict_relabelled");
            }
            if snap.state.as_deref() != Some(a.state.as_str()) {
                return Err(Fail::new(
                    format!("C39:validation-state-differs:{place}:{st}"),
                    format!("read alone: {}; recorded: {:?} (failures alone {:?}, recorded {:?})", a.state, snap.state, a.failures, snap.failures),
                ));
            }
            let codes = |v: &Vec<(String, String)>| -> Vec<String> { v.iter().map(|x| x.0.clone()).collect() };
            if codes(&a.failures) != codes(&snap.failures) {
                return Err(Fail::new(format!("C39:failure-codes-differ:{place}:{st}"), format!("read alone: {:?}; recorded: {:?}", a.failures, snap.failures)));
            }
            if !relabelled && a.failures != snap.failures {
                return Err(Fail::new(format!("C39:failure-urls-differ:{place}:{st}"), format!("read alone: {:?}; recorded: {:?}", a.failures, snap.failures)));
            }
            Ok(())
        }
    }
}

fn judge(run: &Run, c: &Case) -> CaseResult {
    let st = STATES[c.state as usize % STATES.len()];
    let fixture = st.strip_prefix("fixture:");
    let kind = if fixture.is_some() { "jpeg" } else { vh::assets::KINDS[c.kind as usize % vh::assets::KINDS.len()] };
    let rel = RELS[c.rel as usize % RELS.len()];
    let route = ROUTES[c.route as usize % ROUTES.len()];
    let decl = DECLS[c.decl as usize % DECLS.len()];
    let pkind = PARENTS[c.parent as usize % PARENTS.len()];
    let base = synth(kind, 0xC39 ^ ((c.aseed as u64) << 10) ^ c.kind as u64);
    let fmt = base.format;
    let v1 = st == "chain-v1";
    run.count(&format!("kind_{kind}"));
    run.count(&format!("state_{st}:{route}"));
    run.count(&format!("rel_{rel}"));
    run.count(&format!("declared_format_{decl}"));

    // ---- build the ingredient asset(s) ----
    let reject = |why: String| {
        run.count("generator_rejected");
        run.note(format!("{kind}/{st} seed {}: {why}", c.aseed));
    };
    let signed = |src: &[u8], title: &str| vh::catch(|| sdk::sign_simple(fmt, src, title)).map_err(|p| p).and_then(|r| r.map_err(|e| e.to_string()));
    let mut assets: Vec<Vec<u8>> = vec![];
    match st {
        _ if fixture.is_some() => assets.push(sdk::fixture(fixture.unwrap())),
        "unsigned" => assets.push(base.bytes.clone()),
        "signed" | "tampered" | "conflict" | "store-tampered" => {
            let s = match signed(&base.bytes, "c39 source") {
                Ok(s) => s,
                Err(e) => {
                    reject(format!("sign: {e}"));
                    return Ok(());
                }
            };
            if st == "tampered" {
                match tamper_media(kind, &s, c.tamper_sel) {
                    Some(t) => assets.push(t),
                    None => {
                        run.count("tamper_no_protected_bytes");
                        return Ok(());
                    }
                }
            } else if st == "conflict" || st == "store-tampered" {
                match tamper_store(fmt, &s) {
                    Ok(t) => {
                        if st == "conflict" {
                            assets.push(s);
                        }
                        assets.push(t);
                    }
                    Err(e) => {
                        reject(format!("store tamper: {e}"));
                        return Ok(());
                    }
                }
            } else {
                assets.push(s);
            }
        }
        _ => {
            let inner_src = synth("png", 0x1AA ^ c.aseed as u64);
            let mut inner = match vh::catch(|| if v1 { sign_with_ingredients(inner_src.format, &inner_src.bytes, "c39 inner v1", None, &[]) } else { sdk::sign_simple(inner_src.format, &inner_src.bytes, "c39 inner") }) {
                Ok(Ok(b)) => b,
                _ => {
                    reject("inner sign".into());
                    return Ok(());
                }
            };
            if st == "chain-tampered-inner" {
                match tamper_media("png", &inner, c.tamper_sel) {
                    Some(t) => inner = t,
                    None => return Ok(()),
                }
            }
            let ij = json!({"title": "inner", "relationship": "componentOf"}).to_string();
            match vh::catch(|| sign_with_ingredients(fmt, &base.bytes, "c39 chain", if v1 { None } else { Some(BuilderIntent::Create(DigitalSourceType::Empty)) }, &[(ij.clone(), inner_src.format.to_string(), inner.clone())])) {
                Ok(Ok(b)) => assets.push(b),
                other => {
                    reject(format!("chain sign: {:?}", other.map(|r| r.map(|_| ()).map_err(|e| e.to_string()))));
                    return Ok(());
                }
            }
        }
    }

    // ---- (1) read alone ----
    let mut alone: Vec<Option<Alone>> = vec![];
    for a in &assets {
        if st == "unsigned" {
            match vh::catch(|| sdk::read(fmt, a)) {
                Ok(Err(_)) => alone.push(None),
                _ => {
                    reject("unsigned asset is readable?".into());
                    return Ok(());
                }
            }
            continue;
        }
        match read_alone(kind, fmt, a) {
            Ok(x) => alone.push(Some(x)),
            Err(e) => {
                // reading alone fails outright: no (state, codes) to compare with
                run.count(&format!("read_alone_{}", e.split(':').next().unwrap_or("err")));
                // recorded only: what happens when such an asset is used as an ingredient
                let ij = json!({"title": TITLE, "relationship": "componentOf"}).to_string();
                let psrc = synth("png", 0x9A7 ^ ((c.aseed as u64) << 3));
                let r = vh::catch(|| sign_with_ingredients(psrc.format, &psrc.bytes, "c39 parent", Some(BuilderIntent::Create(DigitalSourceType::Empty)), &[(ij.clone(), fmt.to_string(), a.clone())]));
                let outcome = match r {
                    Ok(Ok(b)) => format!("signed, parent reads {}", sdk::read(psrc.format, &b).map(|r| sdk::state_name(r.validation_state())).unwrap_or("Err")),
                    Ok(Err(e2)) => format!("refused: {}", e2.to_string().chars().take(60).collect::<String>()),
                    Err(p) => format!("panic {}", vh::core::panic_site(&p)),
                };
                run.count(&format!("unreadable_alone_as_ingredient: {outcome}"));
                run.note(format!("{kind}/{st} seed {} sel {}: alone = {}; as ingredient: {outcome}", c.aseed, c.tamper_sel, e.chars().take(120).collect::<String>()));
                return Ok(());
            }
        }
    }
    if st == "tampered" {
        let a = alone[0].as_ref().unwrap();
        if a.state != "Invalid" {
            run.count("tamper_not_invalid");
            return Ok(());
        }
    }
    if let Some(Some(a)) = alone.last() {
        run.count(&format!("alone_{}_{}", st, a.state));
    }
    if (st != "signed" && st != "unsigned") || route != "stream" || c.decl % 5 >= 2 {
        run.nontrivial(c);
    }
    // "intact" = reading every ingredient asset alone gives Valid/Trusted (or it is unsigned)
    let intact = alone.iter().all(|a| a.as_ref().map(|a| a.state != "Invalid").unwrap_or(true));

    // ---- (2) parent ----
    let psrc = synth(pkind, 0x9A7 ^ ((c.aseed as u64) << 3));
    let pfmt = psrc.format;
    let mut settings = sdk::base_settings(true);
    sdk::merge(&mut settings, &json!({"builder": {"generate_c2pa_archive": true}}));
    let intent = || if rel == "parentOf" { BuilderIntent::Edit } else { BuilderIntent::Create(DigitalSourceType::Empty) };
    let mk = || -> c2pa::Result<Builder> {
        let mut b = Builder::from_context(sdk::context_with(&settings)).with_definition(sdk::simple_definition("c39 parent").to_string())?;
        b.set_intent(intent());
        Ok(b)
    };
    let what = format!("parent ({pkind}) with {kind} ingredient ({st}, {rel}, route {route}, declared format {decl})");
    let mut parent = mk().map_err(|e| Fail::new("C39:harness-builder", e.to_string()))?;
    for (k, a) in assets.iter().enumerate() {
        // only one parentOf ingredient is allowed: the second ingredient of the conflict pair is a component
        let r = if k == 0 { rel } else if rel == "componentOf" { "inputTo" } else { "componentOf" };
        let title = format!("{TITLE} {k}");
        let mut ijv = json!({"title": title, "relationship": r, "label": format!("c39_ing_{k}")});
        match decl {
            "absent" => {}
            "matching" => ijv["format"] = json!(fmt),
            "other-supported" => ijv["format"] = json!(if fmt == "image/png" { "image/jpeg" } else { "image/png" }),
            other => ijv["format"] = json!(other),
        }
        let ij = ijv.to_string();
        let place = if route == "ingredient-archive" { "at-add-from-archive" } else { "at-add" };
        let snap = if route == "ingredient-archive" {
            let mut host = mk().map_err(|e| Fail::new("C39:harness-builder", e.to_string()))?;
            host.set_intent(BuilderIntent::Create(DigitalSourceType::Empty));
            if let Err(e) = host.add_ingredient_from_stream(ij.clone(), fmt, &mut Cursor::new(a.clone())) {
                return Err(Fail::new(format!("C39:add-ingredient-error:{st}"), format!("host add_ingredient_from_stream({kind}, {st}): {e}")));
            }
            let mut ar = Cursor::new(Vec::new());
            match vh::catch(|| host.write_ingredient_archive(&format!("c39_ing_{k}"), &mut ar)) {
                Ok(Ok(())) => {}
                other => {
                    let msg = format!("{:?}", other.map(|r| r.map_err(|e| e.to_string())));
                    if intact {
                        return Err(Fail::new(format!("C39:ingredient-archive-write-error:{}", st.split(':').next().unwrap_or(st)), format!("{what}: write_ingredient_archive failed: {msg}")));
                    }
                    run.count("archive_write_failed");
                    run.note(format!("write_ingredient_archive failed for {kind}/{st}: {msg}"));
                    return Ok(());
                }
            }
            match vh::catch(|| parent.add_ingredient_from_archive(&mut Cursor::new(ar.into_inner())).map(|i| snapshot(i))) {
                Ok(Ok(s)) => s,
                other => {
                    let msg = format!("{:?}", other.map(|r| r.map(|_| ()).map_err(|e| e.to_string())));
                    if intact {
                        return Err(Fail::new(format!("C39:ingredient-archive-add-error:{}", st.split(':').next().unwrap_or(st)), format!("{what}: add_ingredient_from_archive failed: {msg}")));
                    }
                    run.count("archive_add_failed");
                    run.note(format!("add_ingredient_from_archive failed for {kind}/{st}: {msg}"));
                    return Ok(());
                }
            }
        } else {
            match vh::catch(|| parent.add_ingredient_from_stream(ij.clone(), fmt, &mut Cursor::new(a.clone())).map(|i| snapshot(i))) {
                Ok(Ok(s)) => s,
                Ok(Err(e)) => return Err(Fail::new(format!("C39:add-ingredient-error:{st}"), format!("add_ingredient_from_stream({kind}, {st}, {r}, declared format {decl}): {e}"))),
                Err(p) => return Err(Fail::new(format!("C39:add-ingredient-panic:{}", vh::core::panic_site(&p)), p)),
            }
        };
        let mut snap = snap;
        if std::env::var("VERIF_SELFTEST").ok().as_deref() == Some("declfmt") && c.decl % 5 >= 2 {
            // sensitivity self-test: a mismatching declared format makes the SDK record the asset like an unsigned one
            snap = Snapshot { active: None, state: None, failures: vec![], has_results: false, has_manifest_data: false, status_failures: 0 };
        }
        // the label is only re-assigned when the claim is built, so no relabel is expected here
        compare(run, place, st, &alone[k], &snap, false)?;
    }
    let stclass = st.split(':').next().unwrap_or(st);
    if route == "builder-archive" {
        // to_archive -> with_archive: the working store round trip of the whole builder
        let mut ar = Cursor::new(Vec::new());
        let restored = vh::catch(|| -> c2pa::Result<Builder> {
            parent.to_archive(&mut ar)?;
            ar.set_position(0);
            let mut b = Builder::from_context(sdk::context_with(&settings)).with_archive(&mut ar)?;
            b.set_intent(intent());
            Ok(b)
        });
        match restored {
            Ok(Ok(b)) => parent = b,
            other => {
                let msg = format!("{:?}", other.map(|r| r.map(|_| ()).map_err(|e| e.to_string())));
                if intact {
                    return Err(Fail::new(format!("C39:builder-archive-error:{stclass}"), format!("{what}: to_archive/with_archive failed: {msg}")));
                }
                run.count(&format!("builder_archive_refused_{stclass}"));
                return Ok(());
            }
        }
    }
    let signer = sdk::signer("ed25519");
    let sign_it = |b: &mut Builder| -> Result<c2pa::Result<Vec<u8>>, String> {
        vh::catch(|| {
            let mut s = Cursor::new(psrc.bytes.clone());
            let mut d = Cursor::new(Vec::new());
            b.sign(signer.as_ref(), pfmt, &mut s, &mut d).map(|_| d.into_inner())
        })
    };
    let mut out = match sign_it(&mut parent) {
        Ok(Ok(b)) => b,
        Ok(Err(e)) => {
            // signing a parent with a broken ingredient may legitimately be refused; with an intact one it may not
            if st == "conflict" && e.to_string().contains("ingredient label malformed") {
                return Err(Fail::new(
                    "C39:conflict-relabel-refused:ingredient-label-malformed",
                    format!("two ingredients ({kind}; intact copy + copy with one changed byte in an assertion payload of its store, same manifest label) cannot be combined: Builder::sign fails with '{e}' instead of relabelling the conflicting manifest"),
                ));
            }
            if intact {
                return Err(Fail::new(format!("C39:parent-sign-error:{stclass}:{route}"), format!("{what}: {e}")));
            }
            run.count(&format!("parent_sign_refused_{stclass}"));
            run.note(format!("parent sign refused ({what}): {}", e.to_string().chars().take(300).collect::<String>()));
            return Ok(());
        }
        Err(p) => return Err(Fail::new(format!("C39:parent-sign-panic:{}", vh::core::panic_site(&p)), p)),
    };
    if route == "into-builder" {
        // Reader::into_builder: rebuild a builder from the signed parent and sign again
        let again = vh::catch(|| -> c2pa::Result<Vec<u8>> {
            let r = sdk::read_with(sdk::context_with(&settings), pfmt, &out)?;
            let mut b = r.into_builder()?;
            let mut s = Cursor::new(psrc.bytes.clone());
            let mut d = Cursor::new(Vec::new());
            b.sign(signer.as_ref(), pfmt, &mut s, &mut d)?;
            Ok(d.into_inner())
        });
        match again {
            Ok(Ok(b)) => out = b,
            other => {
                let msg = format!("{:?}", other.map(|r| r.map(|_| ()).map_err(|e| e.to_string())));
                if intact {
                    return Err(Fail::new(format!("C39:into-builder-error:{stclass}"), format!("{what}: Reader::into_builder + sign failed: {msg}")));
                }
                run.count(&format!("into_builder_refused_{stclass}"));
                return Ok(());
            }
        }
    }

    // ---- (3) read back ----
    let pr = match vh::catch(|| sdk::read(pfmt, &out)) {
        Ok(Ok(r)) => r,
        other => return Err(Fail::new(format!("C39:parent-unreadable:{st}"), format!("{:?}", other.map(|r| r.map(|_| ()).map_err(|e| e.to_string()))))),
    };
    let pstate = sdk::state_name(pr.validation_state());
    run.count(&format!("parent_state_with_{st}_ingredient:{pstate}"));
    run.count(&format!("route_{route}_completed"));
    let restore_route = route == "builder-archive" || route == "into-builder";
    let pcodes = sdk::failure_codes(&pr);
    if intact && !sdk::is_valid_or_trusted(&pr) && restore_route && !pcodes.iter().any(|c| c.starts_with("ingredient.") || c.starts_with("assertion.ingredient")) {
        // Round-trip defects of the restored builder that do not concern the ingredient (C22's subject): recorded.
        run.count(&format!("restore_route_parent_invalid_for_non_ingredient_reason:{route}:{pkind}:{}", pcodes.first().cloned().unwrap_or_default()));
        run.note(format!("{what} reads {pstate}: {pcodes:?} (not an ingredient failure; recorded only)"));
    } else if intact && !sdk::is_valid_or_trusted(&pr) {
        return Err(Fail::new(
            format!("C39:parent-not-valid:{stclass}:{route}:{}", sdk::failure_codes(&pr).first().cloned().unwrap_or_default()),
            format!("{what} reads {pstate}: {:?}", sdk::failure_codes(&pr)),
        ));
    }
    let pm = pr.active_manifest().ok_or_else(|| Fail::new("C39:parent-no-active-manifest", "no active manifest"))?;
    let pstore = sdk::store_of(pfmt, &out).map_err(|e| Fail::new("C39:harness-store", e.to_string()))?;
    let mut pboxes = manifest_boxes(&pstore).map_err(|e| Fail::new("C39:harness-walker", e))?;
    if std::env::var("VERIF_SELFTEST").ok().as_deref() == Some("dropinner") && route != "stream" {
        // sensitivity self-test: manifests that are not directly referenced by the parent are lost on the restore routes
        let direct: Vec<String> = pm.ingredients().iter().filter_map(|i| i.active_manifest().map(|s| s.to_string())).collect();
        let active = pr.active_label().unwrap_or("").to_string();
        pboxes.retain(|p| p.0 == active || direct.contains(&p.0));
    }
    let selftest = std::env::var("VERIF_SELFTEST").ok();
    for k in 0..assets.len() {
        let title = format!("{TITLE} {k}");
        let ing = pm.ingredients().iter().find(|i| i.title() == Some(title.as_str())).ok_or_else(|| Fail::new(format!("C39:ingredient-missing-in-report:{st}"), format!("no ingredient titled {title:?}")))?;
        let mut snap = snapshot(ing);
        // the report resolves manifest data lazily: presence of a manifest is judged through active_manifest / the store
        snap.has_manifest_data = false;
        if selftest.as_deref() == Some("codes") && !snap.failures.is_empty() {
            snap.failures.pop();
        }
        compare(run, "in-report", st, &alone[k], &snap, k == 1)?;
        let want_rel = if k == 0 { rel } else if rel == "componentOf" { "inputTo" } else { "componentOf" };
        let got_rel = serde_json::to_value(ing.relationship()).ok().and_then(|v| v.as_str().map(|s| s.to_string())).unwrap_or_default();
        if got_rel != want_rel {
            return Err(Fail::new(format!("C39:relationship-differs:{st}"), format!("added as {want_rel}, reported {got_rel}")));
        }
        if let Some(a) = &alone[k] {
            let mut ib = manifest_boxes(&a.store).map_err(|e| Fail::new("C39:harness-walker", e))?;
            if selftest.as_deref() == Some("bytes") {
                if let Some(x) = ib.first_mut() {
                    let n = x.1.len();
                    x.1[n - 1] ^= 1;
                }
            }
            let active = a.label.clone().unwrap_or_default();
            let relabelled = k == 1 && snap.active.as_deref() != Some(active.as_str());
            for (label, whole, content) in &ib {
                if relabelled && *label == active {
                    let new_label = snap.active.clone().unwrap_or_default();
                    match pboxes.iter().find(|p| p.0 == new_label) {
                        Some(p) if p.2 == *content => run.count("conflict_relabelled_content_identical"),
                        Some(_) => return Err(Fail::new("C39:relabelled-manifest-content-differs", format!("manifest {label} relabelled {new_label}: content boxes differ"))),
                        None => return Err(Fail::new("C39:relabelled-manifest-missing", format!("manifest {new_label} not in the parent's store"))),
                    }
                    continue;
                }
                match pboxes.iter().find(|p| p.0 == *label) {
                    None => {
                        return Err(Fail::new(
                            format!("C39:ingredient-manifest-missing-in-parent-store:{st}"),
                            format!("manifest {label} of the {kind} ingredient is not a child of the parent's store superbox (has {:?})", pboxes.iter().map(|p| p.0.clone()).collect::<Vec<_>>()),
                        ))
                    }
                    Some(p) if p.1 != *whole => {
                        // in the conflict pair the intact copy and the modified copy share the label: the second copy is
                        // the one expected to be relabelled, the first must be the byte-identical one
                        if st == "conflict" && k == 1 {
                            run.count("conflict_second_copy_not_identical_under_own_label");
                            continue;
                        }
                        let first = p.1.iter().zip(whole.iter()).position(|(x, y)| x != y).unwrap_or(p.1.len().min(whole.len()));
                        return Err(Fail::new(
                            format!("C39:ingredient-manifest-bytes-differ:{st}"),
                            format!("manifest {label} of the {kind} ingredient: {} bytes in the ingredient, {} in the parent's store, first difference at {first}", whole.len(), p.1.len()),
                        ));
                    }
                    Some(_) => run.count("manifest_box_identical"),
                }
            }
        } else {
            // unsigned: the parent's store holds the parent's manifest only
            if pboxes.len() != 1 {
                return Err(Fail::new("C39:unsigned-ingredient-added-manifests", format!("parent store has {} manifests", pboxes.len())));
            }
        }
    }
    Ok(())
}

fn main() {
    vh::quiet_panics();
    let run = Run::from_args("C39", "exploration");
    run.set_rule("case = (ingredient container: every synthesised kind of vh::assets (16), seed, state signed/tampered/unsigned/chain/chain with tampered inner ingredient/conflict pair, relationship parentOf/componentOf/inputTo, claim-v1 chain signed by the harness / fixtures CACA.jpg, CACAE-uri-CA.jpg, CIE-sig-CA.jpg, CA.jpg, C.jpg, relationship parentOf/componentOf/inputTo, route add_ingredient_from_stream | write_ingredient_archive -> add_ingredient_from_archive | to_archive -> with_archive | sign -> Reader::into_builder -> sign, declared `format` of the ingredient JSON absent/matching/other supported/without handler, parent container png/jpeg/mp4). Enumeration: every kind x {signed, tampered, unsigned}; every state x relationship x {stream, ingredient archive} on png/jpeg/mp4; v1 chains and fixtures x every route x relationship; restore routes x 5 states; declared format x 5 states x 6 kinds; then random cases. Non-trivial = anything but a plain signed/unsigned asset added directly with absent/matching format.");
    run.assume("reading the ingredient alone and adding it use the same settings (fixture trust anchors, no network, thumbnails off); tampered = one bit of a protected media byte (outside the manifest container located by the independent walker; mdat payload for BMFF) such that reading alone is Invalid, other tamper outcomes are skipped and counted");
    run.assume("for the conflict pair the second copy may be relabelled <label>:<n>_<reason>; then its content boxes (everything after the description box) must be byte-identical");

    let mut cases = vec![];
    let nk = vh::assets::KINDS.len() as u8;
    let sd = run.seed as u16;
    for k in 0..nk {
        for state in [0u8, 1, 2] {
            cases.push(Case { kind: k, aseed: sd.wrapping_add(k as u16 * 13 + state as u16), state, rel: (k + state) % 3, route: 0, parent: k % 3, tamper_sel: 4711 + k as u32 * 97, decl: (k + state) % 2 });
        }
    }
    for (ki, k) in [1u8, 0, 11].iter().enumerate() {
        for state in 0..7u8 {
            for rel in 0..3u8 {
                for route in [0u8, 1] {
                    if run.quick() && (ki as u8 + state + rel) % 2 == 1 {
                        continue;
                    }
                    cases.push(Case { kind: *k, aseed: sd ^ (0x3900 + state as u16 * 16 + rel as u16), state, rel, route, parent: (state + rel) % 3, tamper_sel: 999 + state as u32 * 31, decl: 0 });
                }
            }
        }
    }
    // chains with claim-v1 inner links (own v1 chain + repository fixtures) through every route
    for state in 7..STATES.len() as u8 {
        for route in 0..ROUTES.len() as u8 {
            for rel in 0..3u8 {
                if run.quick() && state >= 8 && (state + route + rel) % 3 != 0 {
                    continue;
                }
                cases.push(Case { kind: [1u8, 0, 11][(rel as usize + route as usize) % 3], aseed: sd ^ (0x7100 + state as u16 * 16 + route as u16 * 4 + rel as u16), state, rel, route, parent: (state + route) % 3, tamper_sel: 5, decl: 0 });
            }
        }
    }
    // v2 chains and plain signed / tampered / unsigned assets through the restore routes
    for state in [0u8, 1, 2, 3, 4] {
        for route in [2u8, 3] {
            for (ki, k) in [1u8, 0, 11].iter().enumerate() {
                cases.push(Case { kind: *k, aseed: sd ^ (0x7800 + state as u16 * 16 + route as u16 * 4 + ki as u16), state, rel: (state + route + ki as u8) % 3, route, parent: (ki as u8 + state) % 3, tamper_sel: 77 + ki as u32, decl: 0 });
            }
        }
    }
    // declared `format` in the ingredient JSON: absent / matching / other supported / without handler
    for decl in 0..DECLS.len() as u8 {
        for state in [0u8, 1, 2, 3, 6] {
            for (ki, k) in [0u8, 1, 2, 11, 6, 7].iter().enumerate() {
                if run.quick() && (decl as usize + state as usize + ki) % 2 == 1 {
                    continue;
                }
                cases.push(Case { kind: *k, aseed: sd ^ (0x7D00 + decl as u16 * 64 + state as u16 * 8 + ki as u16), state, rel: (decl + state + ki as u8) % 3, route: if (decl as usize + ki) % 4 == 3 { 1 } else { 0 }, parent: (ki as u8) % 3, tamper_sel: 31 + ki as u32 * 7, decl });
            }
        }
    }
    let threads = if run.quick() { 6 } else { 12 };
    run.drive_enum_par("enumerated", cases, threads, |c| judge(&run, c));

    let ns = STATES.len() as u8;
    let strat = (0..nk, any::<u16>(), 0..ns, 0u8..3, 0u8..4, 0u8..3, any::<u32>(), 0u8..10).prop_map(|(kind, aseed, state, rel, route, parent, tamper_sel, decl)| Case {
        kind,
        aseed,
        state,
        rel,
        route,
        parent,
        tamper_sel,
        // half of the cases leave the declared format out
        decl: if decl < 5 { 0 } else { decl - 5 },
    });
    run.drive_par("random", run.scale(150, 3500), threads, strat, |c| judge(&run, c));
    run.finish();
}
