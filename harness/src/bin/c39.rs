//! C39 — ingredients carry their source manifests and validation faithfully.
//!
//! case = (ingredient container kind, seed, ingredient state, relationship, route, parent container).
//!   states: signed | tampered (a protected media byte changed so that reading the asset alone is Invalid) |
//!           unsigned | chain (the ingredient itself has a signed ingredient) | chain whose inner ingredient was
//!           tampered | conflict (the same signed asset twice: intact and with one byte of an assertion payload
//!           inside its store changed, so both carry the same manifest label with different content) |
//!           store-tampered (only the modified copy)
//!   routes: Builder::add_ingredient_from_stream directly, or through a C2PA ingredient archive
//!           (write_ingredient_archive -> add_ingredient_from_archive).
//!
//! Oracle: (1) read the ingredient asset alone with the same settings: state, failure (code, url) multiset, active
//! label, store S_i (located by the independent container walker, SDK loader as fall-back); (2) add it to a parent
//! builder and sign; (3) the Ingredient object returned by the builder and the ingredient in the parent's read-back
//! report must carry the same active label, the same validation state and the same failure codes (URLs made absolute
//! with the ingredient's label), and every manifest box of S_i must occur byte-identical (same label) as a child of the
//! parent's store superbox (independent JUMBF walker). Unsigned: no active manifest, no manifest data, no validation
//! failures, parent Valid/Trusted. The parent's own state with a tampered ingredient is recorded only.

use std::io::Cursor;

use c2pa::{Builder, BuilderIntent, DigitalSourceType, Ingredient};
use proptest::prelude::*;
use serde::{Deserialize, Serialize};
use serde_json::json;
use vh::{jumbf_walk as jw, rng::SplitMix64, sdk, CaseResult, Fail, Run};

const STATES: [&str; 7] = ["signed", "tampered", "unsigned", "chain", "chain-tampered-inner", "conflict", "store-tampered"];
const RELS: [&str; 3] = ["parentOf", "componentOf", "inputTo"];
const PARENTS: [&str; 3] = ["png", "jpeg", "mp4"];
const TITLE: &str = "c39 ingredient";

#[derive(Clone, Debug, Serialize, Deserialize, PartialEq, Eq, Hash)]
struct Case {
    kind: u8,
    aseed: u16,
    state: u8,
    rel: u8,
    archive: bool,
    parent: u8,
    tamper_sel: u32,
}

fn is_bmff(kind: &str) -> bool {
    matches!(kind, "mp4" | "mov" | "heic" | "avif" | "m4a")
}

fn synth(kind: &str, seed: u64) -> vh::assets::Synth {
    let mut r = SplitMix64::new(seed);
    vh::assets::synth(kind, &mut r, 1200)
}

/// Top-level BMFF boxes (type, start, end, header length).
fn bmff_top(b: &[u8]) -> Vec<(String, usize, usize, usize)> {
    let mut out = vec![];
    let mut p = 0usize;
    while p + 8 <= b.len() {
        let sz32 = u32::from_be_bytes([b[p], b[p + 1], b[p + 2], b[p + 3]]) as u64;
        let ty = String::from_utf8_lossy(&b[p + 4..p + 8]).to_string();
        let (size, hl) = if sz32 == 1 {
            if p + 16 > b.len() {
                break;
            }
            (u64::from_be_bytes(b[p + 8..p + 16].try_into().unwrap()), 16)
        } else if sz32 == 0 {
            ((b.len() - p) as u64, 8)
        } else {
            (sz32, 8)
        };
        if size < hl as u64 || p as u64 + size > b.len() as u64 {
            break;
        }
        out.push((ty, p, p + size as usize, hl));
        p += size as usize;
    }
    out
}

/// Change one byte that the hard binding protects.
fn tamper_media(kind: &str, bytes: &[u8], sel: u32) -> Option<Vec<u8>> {
    let ranges: Vec<(usize, usize)> = if is_bmff(kind) {
        bmff_top(bytes).into_iter().filter(|(t, s, e, hl)| t == "mdat" && e - s > *hl).map(|(_, s, e, hl)| (s + hl, e)).collect()
    } else {
        let mut sp: Vec<(usize, usize)> = vh::walk::manifest_spans(kind, bytes).ok()?.iter().map(|(s, l)| (*s, s + l)).collect();
        sp.sort();
        let mut v = vec![];
        let mut p = 0;
        for (s, e) in sp {
            if s > p {
                v.push((p, s));
            }
            p = p.max(e);
        }
        if p < bytes.len() {
            v.push((p, bytes.len()));
        }
        // stay away from the container framing at both ends so that the asset still parses
        v
    };
    let total: usize = ranges.iter().map(|(s, e)| e - s).sum();
    if total == 0 {
        return None;
    }
    let mut k = sel as usize % total;
    for (s, e) in ranges {
        if k < e - s {
            let mut v = bytes.to_vec();
            v[s + k] ^= 0x01;
            return Some(v);
        }
        k -= e - s;
    }
    None
}

/// Change one byte inside the payload of the custom assertion of the active manifest of an embedded store.
fn tamper_store(fmt: &str, bytes: &[u8]) -> Result<Vec<u8>, String> {
    let store = sdk::store_of(fmt, bytes).map_err(|e| e.to_string())?;
    let boxes = jw::walk_store(&store)?;
    let t = boxes
        .iter()
        .find(|b| b.is(&jw::T_JUMB) && b.label.as_deref() == Some("org.verif.note"))
        .ok_or("custom assertion box not found")?;
    let content = t.children.iter().map(|i| &boxes[*i]).find(|b| !b.is(&jw::T_JUMD)).ok_or("no content box")?;
    let p = content.payload();
    let mut s = store.clone();
    s[p.end - 2] ^= 0x01;
    c2pa::jumbf_io::save_jumbf_to_memory(fmt, bytes, &s).map_err(|e| e.to_string())
}

#[derive(Clone, Debug, PartialEq, Eq)]
struct Alone {
    state: String,
    failures: Vec<(String, String)>,
    label: Option<String>,
    store: Vec<u8>,
}

fn abs(label: &str, url: &str) -> String {
    if url.is_empty() {
        String::new()
    } else {
        c2pa::verif_hooks::to_absolute_uri(label, url)
    }
}

fn failures_of(res: Option<&c2pa::validation_results::ValidationResults>, label: &str) -> Vec<(String, String)> {
    let mut v = vec![];
    if let Some(res) = res {
        if let Some(a) = res.active_manifest() {
            v.extend(a.failure().iter().map(|s| (s.code().to_string(), abs(label, s.url().unwrap_or("")))));
        }
        if let Some(d) = res.ingredient_deltas() {
            for idv in d {
                v.extend(idv.validation_deltas().failure().iter().map(|s| (s.code().to_string(), abs(label, s.url().unwrap_or("")))));
            }
        }
    }
    v.sort();
    v
}

fn read_alone(kind: &str, fmt: &str, bytes: &[u8]) -> Result<Alone, String> {
    let r = match vh::catch(|| sdk::read(fmt, bytes)) {
        Ok(Ok(r)) => r,
        Ok(Err(e)) => return Err(format!("err:{e}")),
        Err(p) => return Err(format!("panic:{p}")),
    };
    let label = r.active_label().map(|s| s.to_string());
    let store = match vh::walk::extract_store(kind, bytes) {
        Ok(Some(s)) if !is_bmff(kind) => s,
        _ => sdk::store_of(fmt, bytes).map_err(|e| format!("store_of: {e}"))?,
    };
    Ok(Alone {
        state: sdk::state_name(r.validation_state()).to_string(),
        failures: failures_of(r.validation_results(), label.as_deref().unwrap_or("")),
        label,
        store,
    })
}

/// (label, bytes) of every manifest box: the `jumb` children of the store superbox.
fn manifest_boxes(store: &[u8]) -> Result<Vec<(String, Vec<u8>, Vec<u8>)>, String> {
    let boxes = jw::walk_store(store)?;
    let mut out = vec![];
    for b in boxes.iter().filter(|b| b.is(&jw::T_JUMB) && b.depth == 1) {
        let whole = store[b.start..b.end()].to_vec();
        // content without the description box (for the relabelled-conflict comparison)
        let jumd = b.children.first().map(|i| &boxes[*i]).ok_or("manifest without description box")?;
        let content = store[jumd.end()..b.end()].to_vec();
        out.push((b.label.clone().unwrap_or_default(), whole, content));
    }
    Ok(out)
}

fn sign_with_ingredients(fmt: &str, src: &[u8], title: &str, intent: BuilderIntent, ings: &[(String, String, Vec<u8>)]) -> c2pa::Result<Vec<u8>> {
    let mut b = Builder::from_context(sdk::context()).with_definition(sdk::simple_definition(title).to_string())?;
    b.set_intent(intent);
    for (j, f, bytes) in ings {
        b.add_ingredient_from_stream(j.clone(), f, &mut Cursor::new(bytes.clone()))?;
    }
    let signer = sdk::signer("ed25519");
    let mut s = Cursor::new(src.to_vec());
    let mut d = Cursor::new(Vec::new());
    b.sign(signer.as_ref(), fmt, &mut s, &mut d)?;
    Ok(d.into_inner())
}

struct Snapshot {
    active: Option<String>,
    state: Option<String>,
    failures: Vec<(String, String)>,
    has_results: bool,
    has_manifest_data: bool,
    status_failures: usize,
}

fn snapshot(i: &Ingredient) -> Snapshot {
    let label = i.active_manifest().unwrap_or("").to_string();
    Snapshot {
        active: i.active_manifest().map(|s| s.to_string()),
        state: i.validation_results().map(|r| sdk::state_name(r.validation_state()).to_string()),
        failures: failures_of(i.validation_results(), &label),
        has_results: i.validation_results().is_some(),
        has_manifest_data: i.manifest_data_ref().is_some(),
        status_failures: i.validation_status().map(|v| v.len()).unwrap_or(0),
    }
}

fn compare(run: &Run, place: &str, st: &str, alone: &Option<Alone>, snap: &Snapshot, conflict_second: bool) -> CaseResult {
    match alone {
        None => {
            // unsigned
            if snap.active.is_some() || snap.has_manifest_data {
                return Err(Fail::new(format!("C39:unsigned-ingredient-has-manifest:{place}"), format!("active_manifest {:?}, manifest data {}", snap.active, snap.has_manifest_data)));
            }
            if !snap.failures.is_empty() || snap.status_failures > 0 {
                return Err(Fail::new(format!("C39:unsigned-ingredient-has-failures:{place}"), format!("{:?} / validation_status entries {}", snap.failures, snap.status_failures)));
            }
            run.count(if snap.has_results { "unsigned_with_empty_results" } else { "unsigned_without_results" });
            Ok(())
        }
        Some(a) => {
            let want = a.label.clone().unwrap_or_default();
            let got = snap.active.clone().unwrap_or_default();
            let relabelled = conflict_second && got != want && got.starts_with(&format!("{want}:"));
            if got != want && !relabelled {
                return Err(Fail::new(format!("C39:active-label-differs:{place}:{st}"), format!("read alone: {want:?}; recorded: {got:?}")));
            }
            if relabelled {
                run.count("conflict_relabelled");
            }
            if snap.state.as_deref() != Some(a.state.as_str()) {
                return Err(Fail::new(
                    format!("C39:validation-state-differs:{place}:{st}"),
                    format!("read alone: {}; recorded: {:?} (failures alone {:?}, recorded {:?})", a.state, snap.state, a.failures, snap.failures),
                ));
            }
            let codes = |v: &Vec<(String, String)>| -> Vec<String> { v.iter().map(|x| x.0.clone()).collect() };
            if codes(&a.failures) != codes(&snap.failures) {
                return Err(Fail::new(format!("C39:failure-codes-differ:{place}:{st}"), format!("read alone: {:?}; recorded: {:?}", a.failures, snap.failures)));
            }
            if !relabelled && a.failures != snap.failures {
                return Err(Fail::new(format!("C39:failure-urls-differ:{place}:{st}"), format!("read alone: {:?}; recorded: {:?}", a.failures, snap.failures)));
            }
            Ok(())
        }
    }
}

fn judge(run: &Run, c: &Case) -> CaseResult {
    let kind = vh::assets::KINDS[c.kind as usize % vh::assets::KINDS.len()];
    let st = STATES[c.state as usize % STATES.len()];
    let rel = RELS[c.rel as usize % RELS.len()];
    let pkind = PARENTS[c.parent as usize % PARENTS.len()];
    let base = synth(kind, 0xC39 ^ ((c.aseed as u64) << 10) ^ c.kind as u64);
    let fmt = base.format;
    run.count(&format!("kind_{kind}"));
    run.count(&format!("state_{st}:{}", if c.archive { "archive" } else { "stream" }));
    run.count(&format!("rel_{rel}"));

    // ---- build the ingredient asset(s) ----
    let reject = |why: String| {
        run.count("generator_rejected");
        run.note(format!("{kind}/{st} seed {}: {why}", c.aseed));
    };
    let signed = |src: &[u8], title: &str| vh::catch(|| sdk::sign_simple(fmt, src, title)).map_err(|p| p).and_then(|r| r.map_err(|e| e.to_string()));
    let mut assets: Vec<Vec<u8>> = vec![];
    match st {
        "unsigned" => assets.push(base.bytes.clone()),
        "signed" | "tampered" | "conflict" | "store-tampered" => {
            let s = match signed(&base.bytes, "c39 source") {
                Ok(s) => s,
                Err(e) => {
                    reject(format!("sign: {e}"));
                    return Ok(());
                }
            };
            if st == "tampered" {
                match tamper_media(kind, &s, c.tamper_sel) {
                    Some(t) => assets.push(t),
                    None => {
                        run.count("tamper_no_protected_bytes");
                        return Ok(());
                    }
                }
            } else if st == "conflict" || st == "store-tampered" {
                match tamper_store(fmt, &s) {
                    Ok(t) => {
                        if st == "conflict" {
                            assets.push(s);
                        }
                        assets.push(t);
                    }
                    Err(e) => {
                        reject(format!("store tamper: {e}"));
                        return Ok(());
                    }
                }
            } else {
                assets.push(s);
            }
        }
        _ => {
            let inner_src = synth("png", 0x1AA ^ c.aseed as u64);
            let mut inner = match vh::catch(|| sdk::sign_simple(inner_src.format, &inner_src.bytes, "c39 inner")) {
                Ok(Ok(b)) => b,
                _ => {
                    reject("inner sign".into());
                    return Ok(());
                }
            };
            if st == "chain-tampered-inner" {
                match tamper_media("png", &inner, c.tamper_sel) {
                    Some(t) => inner = t,
                    None => return Ok(()),
                }
            }
            let ij = json!({"title": "inner", "relationship": "componentOf"}).to_string();
            match vh::catch(|| sign_with_ingredients(fmt, &base.bytes, "c39 chain", BuilderIntent::Create(DigitalSourceType::Empty), &[(ij.clone(), inner_src.format.to_string(), inner.clone())])) {
                Ok(Ok(b)) => assets.push(b),
                other => {
                    reject(format!("chain sign: {:?}", other.map(|r| r.map(|_| ()).map_err(|e| e.to_string()))));
                    return Ok(());
                }
            }
        }
    }

    // ---- (1) read alone ----
    let mut alone: Vec<Option<Alone>> = vec![];
    for a in &assets {
        if st == "unsigned" {
            match vh::catch(|| sdk::read(fmt, a)) {
                Ok(Err(_)) => alone.push(None),
                _ => {
                    reject("unsigned asset is readable?".into());
                    return Ok(());
                }
            }
            continue;
        }
        match read_alone(kind, fmt, a) {
            Ok(x) => alone.push(Some(x)),
            Err(e) => {
                // reading alone fails outright: no (state, codes) to compare with
                run.count(&format!("read_alone_{}", e.split(':').next().unwrap_or("err")));
                // recorded only: what happens when such an asset is used as an ingredient
                let ij = json!({"title": TITLE, "relationship": "componentOf"}).to_string();
                let psrc = synth("png", 0x9A7 ^ ((c.aseed as u64) << 3));
                let r = vh::catch(|| sign_with_ingredients(psrc.format, &psrc.bytes, "c39 parent", BuilderIntent::Create(DigitalSourceType::Empty), &[(ij.clone(), fmt.to_string(), a.clone())]));
                let outcome = match r {
                    Ok(Ok(b)) => format!("signed, parent reads {}", sdk::read(psrc.format, &b).map(|r| sdk::state_name(r.validation_state())).unwrap_or("Err")),
                    Ok(Err(e2)) => format!("refused: {}", e2.to_string().chars().take(60).collect::<String>()),
                    Err(p) => format!("panic {}", vh::core::panic_site(&p)),
                };
                run.count(&format!("unreadable_alone_as_ingredient: {outcome}"));
                run.note(format!("{kind}/{st} seed {} sel {}: alone = {}; as ingredient: {outcome}", c.aseed, c.tamper_sel, e.chars().take(120).collect::<String>()));
                return Ok(());
            }
        }
    }
    if st == "tampered" {
        let a = alone[0].as_ref().unwrap();
        if a.state != "Invalid" {
            run.count("tamper_not_invalid");
            return Ok(());
        }
    }
    if let Some(Some(a)) = alone.last() {
        run.count(&format!("alone_{}_{}", st, a.state));
    }
    if st != "signed" && st != "unsigned" {
        run.nontrivial(c);
    } else if c.archive {
        run.nontrivial(c);
    }

    // ---- (2) parent ----
    let psrc = synth(pkind, 0x9A7 ^ ((c.aseed as u64) << 3));
    let pfmt = psrc.format;
    let mut settings = sdk::base_settings(true);
    sdk::merge(&mut settings, &json!({"builder": {"generate_c2pa_archive": true}}));
    let mk = || -> c2pa::Result<Builder> {
        let mut b = Builder::from_context(sdk::context_with(&settings)).with_definition(sdk::simple_definition("c39 parent").to_string())?;
        b.set_intent(if rel == "parentOf" { BuilderIntent::Edit } else { BuilderIntent::Create(DigitalSourceType::Empty) });
        Ok(b)
    };
    let mut parent = mk().map_err(|e| Fail::new("C39:harness-builder", e.to_string()))?;
    let n = assets.len();
    for (k, a) in assets.iter().enumerate() {
        // only one parentOf ingredient is allowed: the second ingredient of the conflict pair is a component
        let r = if k == 0 { rel } else if rel == "componentOf" { "inputTo" } else { "componentOf" };
        let title = format!("{TITLE} {k}");
        let ij = json!({"title": title, "relationship": r, "label": format!("c39_ing_{k}")}).to_string();
        let place = if c.archive { "at-add-from-archive" } else { "at-add" };
        let snap = if c.archive {
            let mut host = mk().map_err(|e| Fail::new("C39:harness-builder", e.to_string()))?;
            host.set_intent(BuilderIntent::Create(DigitalSourceType::Empty));
            if let Err(e) = host.add_ingredient_from_stream(ij.clone(), fmt, &mut Cursor::new(a.clone())) {
                return Err(Fail::new(format!("C39:add-ingredient-error:{st}"), format!("host add_ingredient_from_stream({kind}, {st}): {e}")));
            }
            let mut ar = Cursor::new(Vec::new());
            match vh::catch(|| host.write_ingredient_archive(&format!("c39_ing_{k}"), &mut ar)) {
                Ok(Ok(())) => {}
                other => {
                    run.count("archive_write_failed");
                    run.note(format!("write_ingredient_archive failed for {kind}/{st}: {:?}", other.map(|r| r.map_err(|e| e.to_string()))));
                    return Ok(());
                }
            }
            match vh::catch(|| parent.add_ingredient_from_archive(&mut Cursor::new(ar.into_inner())).map(|i| snapshot(i))) {
                Ok(Ok(s)) => s,
                other => {
                    run.count("archive_add_failed");
                    run.note(format!("add_ingredient_from_archive failed for {kind}/{st}: {:?}", other.map(|r| r.map(|_| ()).map_err(|e| e.to_string()))));
                    return Ok(());
                }
            }
        } else {
            match vh::catch(|| parent.add_ingredient_from_stream(ij.clone(), fmt, &mut Cursor::new(a.clone())).map(|i| snapshot(i))) {
                Ok(Ok(s)) => s,
                Ok(Err(e)) => return Err(Fail::new(format!("C39:add-ingredient-error:{st}"), format!("add_ingredient_from_stream({kind}, {st}, {r}): {e}"))),
                Err(p) => return Err(Fail::new(format!("C39:add-ingredient-panic:{}", vh::core::panic_site(&p)), p)),
            }
        };
        // the label is only re-assigned when the claim is built, so no relabel is expected here
        compare(run, place, st, &alone[k], &snap, false)?;
        let _ = n;
    }
    let signer = sdk::signer("ed25519");
    let mut s = Cursor::new(psrc.bytes.clone());
    let mut d = Cursor::new(Vec::new());
    let out = match vh::catch(|| parent.sign(signer.as_ref(), pfmt, &mut s, &mut d)) {
        Ok(Ok(_)) => d.into_inner(),
        Ok(Err(e)) => {
            // signing a parent with a broken ingredient may legitimately be refused; with an intact one it may not
            if st == "signed" || st == "unsigned" || st == "chain" {
                return Err(Fail::new(format!("C39:parent-sign-error:{st}"), format!("parent ({pkind}) with {kind} ingredient ({st}, {rel}, archive={}): {e}", c.archive)));
            }
            if st == "conflict" && e.to_string().contains("ingredient label malformed") {
                return Err(Fail::new(
                    "C39:conflict-relabel-refused:ingredient-label-malformed",
                    format!("two ingredients ({kind}; intact copy + copy with one changed byte in an assertion payload of its store, same manifest label) cannot be combined: Builder::sign fails with '{e}' instead of relabelling the conflicting manifest"),
                ));
            }
            run.count(&format!("parent_sign_refused_{st}"));
            run.note(format!("parent sign refused ({kind}, {st}, {rel}, archive={}): {}", c.archive, e.to_string().chars().take(300).collect::<String>()));
            return Ok(());
        }
        Err(p) => return Err(Fail::new(format!("C39:parent-sign-panic:{}", vh::core::panic_site(&p)), p)),
    };

    // ---- (3) read back ----
    let pr = match vh::catch(|| sdk::read(pfmt, &out)) {
        Ok(Ok(r)) => r,
        other => return Err(Fail::new(format!("C39:parent-unreadable:{st}"), format!("{:?}", other.map(|r| r.map(|_| ()).map_err(|e| e.to_string()))))),
    };
    let pstate = sdk::state_name(pr.validation_state());
    run.count(&format!("parent_state_with_{st}_ingredient:{pstate}"));
    if (st == "signed" || st == "unsigned" || st == "chain") && !sdk::is_valid_or_trusted(&pr) {
        return Err(Fail::new(
            format!("C39:parent-not-valid:{st}:{}", sdk::failure_codes(&pr).first().cloned().unwrap_or_default()),
            format!("parent ({pkind}) with {kind} ingredient ({st}, {rel}, archive={}) reads {pstate}: {:?}", c.archive, sdk::failure_codes(&pr)),
        ));
    }
    let pm = pr.active_manifest().ok_or_else(|| Fail::new("C39:parent-no-active-manifest", "no active manifest"))?;
    let pstore = sdk::store_of(pfmt, &out).map_err(|e| Fail::new("C39:harness-store", e.to_string()))?;
    let pboxes = manifest_boxes(&pstore).map_err(|e| Fail::new("C39:harness-walker", e))?;
    let selftest = std::env::var("VERIF_SELFTEST").ok();
    for k in 0..assets.len() {
        let title = format!("{TITLE} {k}");
        let ing = pm.ingredients().iter().find(|i| i.title() == Some(title.as_str())).ok_or_else(|| Fail::new(format!("C39:ingredient-missing-in-report:{st}"), format!("no ingredient titled {title:?}")))?;
        let mut snap = snapshot(ing);
        // the report resolves manifest data lazily: presence of a manifest is judged through active_manifest / the store
        snap.has_manifest_data = false;
        if selftest.as_deref() == Some("codes") && !snap.failures.is_empty() {
            snap.failures.pop();
        }
        compare(run, "in-report", st, &alone[k], &snap, k == 1)?;
        let want_rel = if k == 0 { rel } else if rel == "componentOf" { "inputTo" } else { "componentOf" };
        let got_rel = serde_json::to_value(ing.relationship()).ok().and_then(|v| v.as_str().map(|s| s.to_string())).unwrap_or_default();
        if got_rel != want_rel {
            return Err(Fail::new(format!("C39:relationship-differs:{st}"), format!("added as {want_rel}, reported {got_rel}")));
        }
        if let Some(a) = &alone[k] {
            let mut ib = manifest_boxes(&a.store).map_err(|e| Fail::new("C39:harness-walker", e))?;
            if selftest.as_deref() == Some("bytes") {
                if let Some(x) = ib.first_mut() {
                    let n = x.1.len();
                    x.1[n - 1] ^= 1;
                }
            }
            let active = a.label.clone().unwrap_or_default();
            let relabelled = k == 1 && snap.active.as_deref() != Some(active.as_str());
            for (label, whole, content) in &ib {
                if relabelled && *label == active {
                    let new_label = snap.active.clone().unwrap_or_default();
                    match pboxes.iter().find(|p| p.0 == new_label) {
                        Some(p) if p.2 == *content => run.count("conflict_relabelled_content_identical"),
                        Some(_) => return Err(Fail::new("C39:relabelled-manifest-content-differs", format!("manifest {label} relabelled {new_label}: content boxes differ"))),
                        None => return Err(Fail::new("C39:relabelled-manifest-missing", format!("manifest {new_label} not in the parent's store"))),
                    }
                    continue;
                }
                match pboxes.iter().find(|p| p.0 == *label) {
                    None => {
                        return Err(Fail::new(
                            format!("C39:ingredient-manifest-missing-in-parent-store:{st}"),
                            format!("manifest {label} of the {kind} ingredient is not a child of the parent's store superbox (has {:?})", pboxes.iter().map(|p| p.0.clone()).collect::<Vec<_>>()),
                        ))
                    }
                    Some(p) if p.1 != *whole => {
                        // in the conflict pair the intact copy and the modified copy share the label: the second copy is
                        // the one expected to be relabelled, the first must be the byte-identical one
                        if st == "conflict" && k == 1 {
                            run.count("conflict_second_copy_not_identical_under_own_label");
                            continue;
                        }
                        let first = p.1.iter().zip(whole.iter()).position(|(x, y)| x != y).unwrap_or(p.1.len().min(whole.len()));
                        return Err(Fail::new(
                            format!("C39:ingredient-manifest-bytes-differ:{st}"),
                            format!("manifest {label} of the {kind} ingredient: {} bytes in the ingredient, {} in the parent's store, first difference at {first}", whole.len(), p.1.len()),
                        ));
                    }
                    Some(_) => run.count("manifest_box_identical"),
                }
            }
        } else {
            // unsigned: the parent's store holds the parent's manifest only
            if pboxes.len() != 1 {
                return Err(Fail::new("C39:unsigned-ingredient-added-manifests", format!("parent store has {} manifests", pboxes.len())));
            }
        }
    }
    Ok(())
}

fn main() {
    vh::quiet_panics();
    let run = Run::from_args("C39", "exploration");
    run.set_rule("case = (ingredient container: every synthesised kind of vh::assets (16), seed, state signed/tampered/unsigned/chain/chain with tampered inner ingredient/conflict pair, relationship parentOf/componentOf/inputTo, route add_ingredient_from_stream or write_ingredient_archive -> add_ingredient_from_archive, parent container png/jpeg/mp4). Enumeration: every kind x {signed, tampered, unsigned} and every state x relationship x route on png/jpeg/mp4; then random cases. Non-trivial = tampered, chained or conflicting ingredient, or the archive route.");
    run.assume("reading the ingredient alone and adding it use the same settings (fixture trust anchors, no network, thumbnails off); tampered = one bit of a protected media byte (outside the manifest container located by the independent walker; mdat payload for BMFF) such that reading alone is Invalid, other tamper outcomes are skipped and counted");
    run.assume("for the conflict pair the second copy may be relabelled <label>:<n>_<reason>; then its content boxes (everything after the description box) must be byte-identical");

    let mut cases = vec![];
    let nk = vh::assets::KINDS.len() as u8;
    for k in 0..nk {
        for state in [0u8, 1, 2] {
            cases.push(Case { kind: k, aseed: (run.seed as u16).wrapping_add(k as u16 * 13 + state as u16), state, rel: (k + state) % 3, archive: false, parent: k % 3, tamper_sel: 4711 + k as u32 * 97 });
        }
    }
    for (ki, k) in [1u8, 0, 11].iter().enumerate() {
        for state in 0..7u8 {
            for rel in 0..3u8 {
                for archive in [false, true] {
                    if run.quick() && (ki as u8 + state + rel) % 2 == 1 {
                        continue;
                    }
                    cases.push(Case { kind: *k, aseed: (run.seed as u16) ^ (0x3900 + state as u16 * 16 + rel as u16), state, rel, archive, parent: (state + rel) % 3, tamper_sel: 999 + state as u32 * 31 });
                }
            }
        }
    }
    let threads = if run.quick() { 6 } else { 12 };
    run.drive_enum_par("enumerated", cases, threads, |c| judge(&run, c));

    let strat = (0..nk, any::<u16>(), 0u8..7, 0u8..3, any::<bool>(), 0u8..3, any::<u32>()).prop_map(|(kind, aseed, state, rel, archive, parent, tamper_sel)| Case { kind, aseed, state, rel, archive, parent, tamper_sel });
    run.drive_par("random", run.scale(120, 2900), threads, strat, |c| judge(&run, c));
    run.finish();
}
