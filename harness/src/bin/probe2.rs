//! Scratch probe: BMFF + merkle signing validity.
use vh::sdk::*;
fn main() {
    let mut st = base_settings(true);
    merge(&mut st, &serde_json::json!({"core": {"merkle_tree_chunk_size_in_kb": 1}}));
    let mut bad = 0;
    for seed in [2u64,2,2,2,2,2,15,15,15,15,15,15,21,21,21,21,21,21,11,11,11,11,23] {
        let mut rng = vh::rng::SplitMix64::new(seed);
        let s = vh::assets::synth("mp4", &mut rng, 1500);
        let out = sign_with(context_with(&st), &simple_definition("p"), Some(c2pa::BuilderIntent::Create(c2pa::DigitalSourceType::Empty)), signer("ed25519").as_ref(), "video/mp4", &s.bytes);
        match out {
            Ok(o) => { let r = read("video/mp4", &o).unwrap(); let f = failure_codes(&r); if !f.is_empty() { bad += 1; println!("seed {seed}: {} -> {:?}", s.desc, f); } }
            Err(e) => println!("seed {seed}: sign err {e} ({})", s.desc),
        }
    }
    println!("bad {bad}/40");
    let src = fixture("video1_no_manifest.mp4");
    let o = sign_with(context_with(&st), &simple_definition("p"), Some(c2pa::BuilderIntent::Create(c2pa::DigitalSourceType::Empty)), signer("ed25519").as_ref(), "video/mp4", &src).unwrap();
    let r = read("video/mp4", &o).unwrap();
    println!("fixture video1 merkle: {:?} {:?}", r.validation_state(), failure_codes(&r));
}
