//! Scratch probe: BMFF offset refs before/after remove.
fn main() {
    let a: Vec<String> = std::env::args().collect();
    let bytes = std::fs::read(&a[1]).unwrap();
    let fmt = a.get(2).map(|s| s.as_str()).unwrap_or("image/avif");
    let show = |b: &[u8]| {
        let mut p = 0usize;
        while p + 8 <= b.len() { let sz = u32::from_be_bytes([b[p],b[p+1],b[p+2],b[p+3]]) as usize; let ty = String::from_utf8_lossy(&b[p+4..p+8]).to_string(); let size = if sz==1 { u64::from_be_bytes(b[p+8..p+16].try_into().unwrap()) as usize } else if sz==0 { b.len()-p } else { sz }; print!("{ty}@{p}+{size} "); if size < 8 {break;} p += size; }
        println!();
        match vh::walk::bmff_offset_refs(b) { Ok(r) => for x in r { println!("   {:?}", x); }, Err(e) => println!("   refs err {e}") }
    };
    show(&bytes);
    match c2pa::verif_hooks::remove_manifest(fmt, &bytes) { Ok(o) => show(&o), Err(e) => println!("remove err {e}") }
}
