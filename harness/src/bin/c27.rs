//! C27 — redirects never reach internal addresses or leak credentials.
//!
//! Stack under test: the crate-private `RedirectResolver` (constructed through
//! `c2pa::verif_hooks::redirect_resolver_{sync,async}`) over a recording mock transport that serves a
//! scripted list of responses. That is the stack `Context::resolver()` builds when no allow-list is set.
//!
//! Oracle: invariants over the *recorded request history* of the mock, decided by the harness's own
//! strict authority parser, WHATWG-style IPv4 number parser, IPv6 parser and integer CIDR tables (no SDK
//! classification code):
//!   * at most 11 requests (initial + 10 redirects);
//!   * `allow_redirects = false` => at most 1 request, and a 3xx answer with a usable `Location` gives
//!     `Err(RedirectDisallowed)`;
//!   * the host of every request i >= 1 is not in a class the property lists;
//!   * requests i >= 1 carry none of Authorization / Cookie / Proxy-Authorization / Host and all benign headers;
//!   * a request i >= 1 is only ever sent after a 3xx answer carrying a `Location`;
//!   * an `Ok` result is the last served answer, unchanged (status, headers, body).
//! A redirect hop refused with any error is always acceptable.

use std::{
    io::{Cursor, Read},
    sync::{Arc, Mutex},
};

use async_trait::async_trait;
use c2pa::http::{AsyncHttpResolver, HttpResolverError, SyncHttpResolver};
use http::{HeaderName, HeaderValue, Request, Response};
use proptest::prelude::*;
use serde::{Deserialize, Serialize};
use vh::{CaseResult, Fail, Run};

// =====================================================================================================
// case
// =====================================================================================================

#[derive(Clone, Debug, Serialize, Deserialize, PartialEq, Eq, Hash)]
struct Resp {
    /// HTTP status; 0 = the transport itself fails with an I/O error
    status: u16,
    /// response headers in order (a `Location` value is sent as the UTF-8 bytes of the string)
    headers: Vec<(String, String)>,
    body: String,
    /// generator's intent (coverage label only, never used in the verdict)
    tag: String,
}

#[derive(Clone, Debug, Serialize, Deserialize, PartialEq, Eq, Hash)]
struct Case {
    asynch: bool,
    allow: bool,
    method: String,
    start: String,
    headers: Vec<(String, String)>,
    body: String,
    script: Vec<Resp>,
}

// =====================================================================================================
// recording mock transport
// =====================================================================================================

#[derive(Clone, Debug)]
struct Rec {
    uri: String,
    method: String,
    headers: Vec<(String, Vec<u8>)>,
    body: Vec<u8>,
}

/// What the mock really puts on the wire for a scripted answer (invalid header names/values are dropped).
#[derive(Clone, Debug, PartialEq)]
struct Served {
    status: u16,
    headers: Vec<(String, Vec<u8>)>,
    body: Vec<u8>,
}

fn served(r: &Resp) -> Option<Served> {
    if r.status == 0 {
        return None;
    }
    let status = if http::StatusCode::from_u16(r.status).is_ok() { r.status } else { 200 };
    let mut headers = vec![];
    for (n, v) in &r.headers {
        if let (Ok(n), Ok(v)) = (HeaderName::from_bytes(n.as_bytes()), HeaderValue::from_bytes(v.as_bytes())) {
            headers.push((n.as_str().to_string(), v.as_bytes().to_vec()));
        }
    }
    Some(Served { status, headers, body: r.body.as_bytes().to_vec() })
}

fn default_answer() -> Resp {
    Resp { status: 200, headers: vec![("x-mock".into(), "end-of-script".into())], body: "end".into(), tag: "default".into() }
}

/// A served answer that any HTTP client would call a redirect: 3xx and a first `Location` made of visible ASCII.
fn clear_redirect(s: &Served) -> bool {
    (300..400).contains(&s.status)
        && s.headers
            .iter()
            .find(|(n, _)| n == "location")
            .map(|(_, v)| v.iter().all(|b| (0x20..0x7f).contains(b) || *b == b'\t'))
            .unwrap_or(false)
}

/// 3xx carrying any `Location` header at all.
fn any_redirect(s: &Served) -> bool {
    (300..400).contains(&s.status) && s.headers.iter().any(|(n, _)| n == "location")
}

struct Mock {
    script: Vec<Resp>,
    log: Mutex<Vec<Rec>>,
}

impl Mock {
    fn new(script: Vec<Resp>) -> Arc<Mock> {
        Arc::new(Mock { script, log: Mutex::new(vec![]) })
    }

    fn serve(&self, req: Request<Vec<u8>>) -> Result<Response<Box<dyn Read>>, HttpResolverError> {
        let idx = {
            let mut g = self.log.lock().unwrap();
            g.push(Rec {
                uri: req.uri().to_string(),
                method: req.method().as_str().to_string(),
                headers: req.headers().iter().map(|(n, v)| (n.as_str().to_string(), v.as_bytes().to_vec())).collect(),
                body: req.body().clone(),
            });
            g.len() - 1
        };
        // hard stop far beyond anything the property allows, so a runaway follower cannot hang the check
        if idx > 40 {
            return Err(HttpResolverError::Io(std::io::Error::other("mock: runaway request loop")));
        }
        let spec = self.script.get(idx).cloned().unwrap_or_else(default_answer);
        let Some(s) = served(&spec) else {
            return Err(HttpResolverError::Io(std::io::Error::other("scripted transport error")));
        };
        let mut b = Response::builder().status(s.status);
        for (n, v) in &s.headers {
            b = b.header(n.as_str(), v.as_slice());
        }
        b.body(Box::new(Cursor::new(s.body)) as Box<dyn Read>).map_err(HttpResolverError::Http)
    }

    fn history(&self) -> Vec<Rec> {
        self.log.lock().unwrap().clone()
    }
}

impl SyncHttpResolver for Mock {
    fn http_resolve(&self, request: Request<Vec<u8>>) -> Result<Response<Box<dyn Read>>, HttpResolverError> {
        self.serve(request)
    }
}

#[async_trait]
impl AsyncHttpResolver for Mock {
    async fn http_resolve_async(&self, request: Request<Vec<u8>>) -> Result<Response<Box<dyn Read>>, HttpResolverError> {
        // one yield so the future is really suspended once per hop
        tokio::task::yield_now().await;
        self.serve(request)
    }
}

// =====================================================================================================
// reference: strict authority parser + address classifier (written from RFC 3986 / WHATWG / IANA tables)
// =====================================================================================================

#[derive(Clone, Debug, PartialEq)]
struct Authority {
    scheme: String,
    host: String,
    bracketed: bool,
    port: Option<String>,
    /// authority-form request target (no scheme)
    odd: bool,
}

/// `scheme://[userinfo@]host[:port]` followed by `/`, `?`, `#` or the end; or, without `://`, the
/// authority form `[userinfo@]host[:port]` (that is how `http::Uri` — the type the transport is handed —
/// reads a string such as `mailto:a@example.com` or `javascript:alert(1)`; there the text after the colon
/// is not required to be a port number and `odd` is set). Anything else is `None`.
fn strict_parse(uri: &str) -> Option<Authority> {
    let (scheme, auth, authority_form) = match uri.find("://") {
        Some(i) => {
            let scheme = &uri[..i];
            let mut sc = scheme.chars();
            if !sc.next()?.is_ascii_alphabetic() || !sc.all(|c| c.is_ascii_alphanumeric() || "+-.".contains(c)) {
                return None;
            }
            let rest = &uri[i + 3..];
            let end = rest.find(['/', '?', '#']).unwrap_or(rest.len());
            (scheme, &rest[..end], false)
        }
        None => {
            if uri.is_empty() || uri.contains(['/', '?', '#']) {
                return None;
            }
            ("", uri, true)
        }
    };
    let hostport = match auth.rfind('@') {
        Some(k) => &auth[k + 1..],
        None => auth,
    };
    let (host, bracketed, port) = if let Some(inner) = hostport.strip_prefix('[') {
        let j = inner.find(']')?;
        let after = &inner[j + 1..];
        let port = if after.is_empty() {
            None
        } else {
            Some(after.strip_prefix(':')?)
        };
        (&inner[..j], true, port)
    } else {
        if hostport.matches(':').count() > 1 {
            return None;
        }
        match hostport.split_once(':') {
            Some((h, p)) => (h, false, Some(p)),
            None => (hostport, false, None),
        }
    };
    let mut odd = authority_form;
    let mut port = port;
    if let Some(p) = port {
        if !p.bytes().all(|b| b.is_ascii_digit()) {
            if !authority_form {
                return None;
            }
            odd = true;
            port = None;
        }
    }
    if host.bytes().any(|b| b <= 0x20 || b >= 0x7f || b"[]@/\\".contains(&b)) && !bracketed {
        return None;
    }
    Some(Authority {
        scheme: scheme.to_ascii_lowercase(),
        host: host.to_string(),
        bracketed,
        port: port.filter(|p| !p.is_empty()).map(|p| p.to_string()),
        odd,
    })
}

/// WHATWG "IPv4 number": decimal, `0x`/`0X` hex, leading-0 octal.
fn ipv4_number(s: &str) -> Option<u64> {
    if s.is_empty() {
        return None;
    }
    let (digits, radix) = if let Some(r) = s.strip_prefix("0x").or_else(|| s.strip_prefix("0X")) {
        (r, 16)
    } else if s.len() >= 2 && s.starts_with('0') {
        (&s[1..], 8)
    } else {
        (s, 10)
    };
    if digits.is_empty() {
        return Some(0);
    }
    let mut v: u64 = 0;
    for c in digits.chars() {
        let d = c.to_digit(radix)? as u64;
        v = v.checked_mul(radix as u64)?.checked_add(d)?;
        if v > u32::MAX as u64 {
            return None;
        }
    }
    Some(v)
}

/// An IPv4 literal in any notation a URL parser / `inet_aton` accepts: 1–4 dot-separated numbers, each
/// decimal / octal / hex, the last one filling the remaining bytes; one trailing dot tolerated.
fn ipv4_any_notation(host: &str) -> Option<u32> {
    let mut parts: Vec<&str> = host.split('.').collect();
    if parts.last() == Some(&"") {
        parts.pop();
    }
    if parts.is_empty() || parts.len() > 4 {
        return None;
    }
    let nums: Option<Vec<u64>> = parts.iter().map(|p| ipv4_number(p)).collect();
    let mut nums = nums?;
    let last = nums.pop()?;
    if nums.iter().any(|n| *n > 255) {
        return None;
    }
    let room_bits = 8 * (4 - nums.len() as u32);
    if room_bits < 32 && last >= (1u64 << room_bits) {
        return None;
    }
    let mut v = last;
    for (i, n) in nums.iter().enumerate() {
        v += n << (8 * (3 - i as u32));
    }
    Some(v as u32)
}

/// RFC 4291 text form (with optional trailing dotted quad). No zone ids.
fn ipv6_parse(s: &str) -> Option<u128> {
    if s.is_empty() || s.contains('%') {
        return None;
    }
    fn groups(part: &str, allow_v4_tail: bool) -> Option<Vec<u16>> {
        if part.is_empty() {
            return Some(vec![]);
        }
        let toks: Vec<&str> = part.split(':').collect();
        let mut out = vec![];
        for (i, t) in toks.iter().enumerate() {
            if t.contains('.') {
                if !(allow_v4_tail && i == toks.len() - 1) {
                    return None;
                }
                let o: Vec<&str> = t.split('.').collect();
                if o.len() != 4 {
                    return None;
                }
                let mut b = [0u16; 4];
                for (k, x) in o.iter().enumerate() {
                    if x.is_empty() || x.len() > 3 || !x.bytes().all(|c| c.is_ascii_digit()) {
                        return None;
                    }
                    let v: u16 = x.parse().ok()?;
                    if v > 255 {
                        return None;
                    }
                    b[k] = v;
                }
                out.push((b[0] << 8) | b[1]);
                out.push((b[2] << 8) | b[3]);
            } else {
                if t.is_empty() || t.len() > 4 {
                    return None;
                }
                out.push(u16::from_str_radix(t, 16).ok()?);
            }
        }
        Some(out)
    }
    let g: Vec<u16> = match s.find("::") {
        Some(i) => {
            if s[i + 2..].contains("::") {
                return None;
            }
            let head = groups(&s[..i], false)?;
            let tail = groups(&s[i + 2..], true)?;
            if head.len() + tail.len() > 7 {
                return None;
            }
            let mut v = head;
            let fill = 8 - v.len() - tail.len();
            v.extend(std::iter::repeat(0).take(fill));
            v.extend(tail);
            v
        }
        None => {
            let v = groups(s, true)?;
            if v.len() != 8 {
                return None;
            }
            v
        }
    };
    let mut r: u128 = 0;
    for x in g {
        r = (r << 16) | x as u128;
    }
    Some(r)
}

/// IPv4 special-purpose blocks. `listed` = named in the property text.
const V4_TABLE: &[(u32, u32, &str, bool)] = &[
    (0x0000_0000, 32, "unspecified", true),
    (0x7f00_0000, 8, "loopback", true),
    (0x0a00_0000, 8, "private", true),
    (0xac10_0000, 12, "private", true),
    (0xc0a8_0000, 16, "private", true),
    (0xa9fe_0000, 16, "link-local", true),
    (0xe000_0000, 4, "multicast", true),
    (0xffff_ffff, 32, "broadcast", true),
    (0xc000_0200, 24, "documentation", true),
    (0xc633_6400, 24, "documentation", true),
    (0xcb00_7100, 24, "documentation", true),
    (0x6440_0000, 10, "shared", true),
    // not named by the property: recorded only
    (0x0000_0000, 8, "this-network", false),
    (0xf000_0000, 4, "reserved-240", false),
    (0xc612_0000, 15, "benchmarking", false),
    (0xc000_0000, 24, "ietf-protocol", false),
    (0xc058_6300, 24, "6to4-relay", false),
];

fn in_block(a: u32, base: u32, prefix: u32) -> bool {
    let mask = if prefix == 0 { 0 } else { u32::MAX << (32 - prefix) };
    (a & mask) == (base & mask)
}

fn classify_v4(a: u32) -> (String, bool) {
    for (base, p, name, listed) in V4_TABLE {
        if in_block(a, *base, *p) {
            return (name.to_string(), *listed);
        }
    }
    ("global".into(), false)
}

fn in_block6(a: u128, base: u128, prefix: u32) -> bool {
    let mask = if prefix == 0 { 0 } else { u128::MAX << (128 - prefix) };
    (a & mask) == (base & mask)
}

fn classify_v6(a: u128) -> (String, bool) {
    let low32 = a as u32;
    if a == 0 {
        return ("v6-unspecified".into(), true);
    }
    if a == 1 {
        return ("v6-loopback".into(), true);
    }
    if in_block6(a, 0xffff_0000_0000, 96) {
        let (c, listed) = classify_v4(low32);
        return (format!("v4mapped-{c}"), listed);
    }
    if in_block6(a, 0xfc00u128 << 112, 7) {
        return ("v6-unique-local".into(), true);
    }
    if in_block6(a, 0xfe80u128 << 112, 10) {
        return ("v6-link-local".into(), true);
    }
    if in_block6(a, 0xff00u128 << 112, 8) {
        return ("v6-multicast".into(), true);
    }
    // forms the property does not name: recorded, never judged
    if in_block6(a, 0, 96) {
        return (format!("v4compatible-{}", classify_v4(low32).0), false);
    }
    if in_block6(a, 0x0064_ff9bu128 << 96, 96) {
        return (format!("nat64-{}", classify_v4(low32).0), false);
    }
    if in_block6(a, 0x2002u128 << 112, 16) {
        return (format!("6to4-{}", classify_v4((a >> 80) as u32).0), false);
    }
    if in_block6(a, 0xffffu128 << 48, 96) {
        return (format!("siit-{}", classify_v4(low32).0), false);
    }
    if in_block6(a, 0x2001_0db8u128 << 96, 32) {
        return ("v6-documentation".into(), false);
    }
    if in_block6(a, 0xfec0u128 << 112, 10) {
        return ("v6-site-local".into(), false);
    }
    ("v6-global".into(), false)
}

/// (class label, form, listed-by-the-property)
fn classify_host(a: &Authority) -> (String, &'static str, bool) {
    if a.bracketed {
        return match ipv6_parse(&a.host) {
            Some(v) => {
                let (c, l) = classify_v6(v);
                let form = if c.starts_with("v4mapped") { "v4mapped" } else { "v6" };
                (c, form, l)
            }
            None => ("bad-ip-literal".into(), "v6", false),
        };
    }
    if a.host.is_empty() {
        return ("empty-host".into(), "name", false);
    }
    if let Some(v) = ipv4_any_notation(&a.host) {
        let (c, l) = classify_v4(v);
        return (c, "v4", l);
    }
    let name = a.host.to_ascii_lowercase();
    let name = name.strip_suffix('.').unwrap_or(&name);
    if name == "localhost" {
        return ("localhost".into(), "name", true);
    }
    if name.ends_with(".localhost") {
        return ("localhost-subdomain".into(), "name", true);
    }
    ("name".into(), "name", false)
}

const CREDENTIAL: [&str; 4] = ["authorization", "cookie", "proxy-authorization", "host"];
const BENIGN: [&str; 7] = ["accept", "user-agent", "content-type", "accept-language", "x-custom", "range", "if-none-match"];

// =====================================================================================================
// running the SDK (or, for the self-test, a deliberately wrong follower)
// =====================================================================================================

fn err_kind(e: &HttpResolverError) -> &'static str {
    match e {
        HttpResolverError::UriDisallowed { .. } => "UriDisallowed",
        HttpResolverError::RedirectDisallowed { .. } => "RedirectDisallowed",
        HttpResolverError::RedirectTargetDisallowed { .. } => "RedirectTargetDisallowed",
        HttpResolverError::TooManyRedirects { .. } => "TooManyRedirects",
        HttpResolverError::Http(_) => "Http",
        HttpResolverError::Io(_) => "Io",
        HttpResolverError::Other(_) => "Other",
        _ => "other-variant",
    }
}

/// Self-test only: a plausible but wrong redirect follower (VERIF_SELFTEST = limit12 | cookie | nocgnat |
/// nomapped | ignore-disabled | dotted-only).
struct Naive {
    inner: Arc<Mock>,
    allow: bool,
    variant: String,
}

impl Naive {
    fn blocked(&self, u: &url::Url) -> bool {
        use std::net::IpAddr;
        let h = u.host_str().unwrap_or("");
        let h = h.trim_start_matches('[').trim_end_matches(']').to_ascii_lowercase();
        let h = h.strip_suffix('.').unwrap_or(&h);
        if h == "localhost" || h.ends_with(".localhost") {
            return true;
        }
        match h.parse::<IpAddr>() {
            Ok(IpAddr::V4(v)) => {
                let o = v.octets();
                v.is_loopback()
                    || v.is_private()
                    || v.is_link_local()
                    || v.is_unspecified()
                    || v.is_multicast()
                    || v.is_broadcast()
                    || v.is_documentation()
                    || (self.variant != "nocgnat" && o[0] == 100 && (o[1] & 0xc0) == 64)
            }
            Ok(IpAddr::V6(v)) => {
                if self.variant != "nomapped" {
                    if let Some(m) = v.to_ipv4_mapped() {
                        let s = format!("http://{m}/");
                        return self.blocked(&url::Url::parse(&s).unwrap());
                    }
                }
                let s = v.segments();
                v.is_loopback() || v.is_unspecified() || v.is_multicast() || (s[0] & 0xfe00) == 0xfc00 || (s[0] & 0xffc0) == 0xfe80
            }
            Err(_) => false,
        }
    }
}

impl SyncHttpResolver for Naive {
    fn http_resolve(&self, mut request: Request<Vec<u8>>) -> Result<Response<Box<dyn Read>>, HttpResolverError> {
        let max = if self.variant == "limit12" { 12 } else { 10 };
        for _ in 0..=max {
            let from = request.uri().clone();
            let method = request.method().clone();
            let headers = request.headers().clone();
            let body = request.body().clone();
            let resp = self.inner.http_resolve(request)?;
            let loc = if resp.status().is_redirection() {
                resp.headers().get("location").and_then(|v| v.to_str().ok()).map(|s| s.to_string())
            } else {
                None
            };
            let Some(loc) = loc else { return Ok(resp) };
            if !self.allow && self.variant != "ignore-disabled" {
                return Err(HttpResolverError::RedirectDisallowed { uri: from.to_string(), location: loc });
            }
            let target = if self.variant == "dotted-only" {
                // forgets that the URL parser accepts other IPv4 notations: works on the raw Location text
                let raw = if loc.contains("://") { loc.clone() } else { url::Url::parse(&from.to_string()).and_then(|b| b.join(&loc)).map(|u| u.to_string()).map_err(|e| HttpResolverError::Other(Box::new(e)))? };
                if let Ok(u) = url::Url::parse(&raw) {
                    let rawhost = raw.split("://").nth(1).unwrap_or("").split(['/', '?', '#']).next().unwrap_or("").rsplit('@').next().unwrap_or("").to_string();
                    let rawhost = rawhost.split(':').next().unwrap_or("").to_string();
                    if rawhost.parse::<std::net::Ipv4Addr>().is_ok() && self.blocked(&u) {
                        return Err(HttpResolverError::RedirectTargetDisallowed { uri: from.to_string(), location: loc });
                    }
                    if rawhost.eq_ignore_ascii_case("localhost") || u.host_str().map(|h| h.starts_with('[')).unwrap_or(false) && self.blocked(&u) {
                        return Err(HttpResolverError::RedirectTargetDisallowed { uri: from.to_string(), location: loc });
                    }
                    u
                } else {
                    return Err(HttpResolverError::Io(std::io::Error::other("bad url")));
                }
            } else {
                let u = url::Url::parse(&from.to_string()).and_then(|b| b.join(&loc)).map_err(|e| HttpResolverError::Other(Box::new(e)))?;
                if self.blocked(&u) {
                    return Err(HttpResolverError::RedirectTargetDisallowed { uri: from.to_string(), location: loc });
                }
                u
            };
            let uri: http::Uri = target.as_str().parse().map_err(|e: http::uri::InvalidUri| HttpResolverError::Http(e.into()))?;
            let mut b = Request::builder().method(method).uri(uri);
            for (n, v) in headers.iter() {
                let drop = n == "host" || n == "authorization" || n == "proxy-authorization" || (n == "cookie" && self.variant != "cookie");
                if !drop {
                    b = b.header(n, v);
                }
            }
            request = b.body(body).map_err(HttpResolverError::Http)?;
        }
        Err(HttpResolverError::TooManyRedirects { uri: request.uri().to_string() })
    }
}

enum Outcome {
    Ok(Served),
    Err(&'static str, String),
    Panic(String),
}

fn build_request(c: &Case) -> Option<Request<Vec<u8>>> {
    let uri: http::Uri = c.start.parse().ok()?;
    uri.scheme()?;
    uri.host()?;
    let mut b = Request::builder().method(c.method.as_str()).uri(uri);
    for (n, v) in &c.headers {
        let n = HeaderName::from_bytes(n.as_bytes()).ok()?;
        let v = HeaderValue::from_bytes(v.as_bytes()).ok()?;
        b = b.header(n, v);
    }
    b.body(c.body.as_bytes().to_vec()).ok()
}

fn read_out(r: Result<Response<Box<dyn Read>>, HttpResolverError>) -> Outcome {
    match r {
        Ok(resp) => {
            let (parts, mut body) = resp.into_parts();
            let mut buf = vec![];
            let _ = body.read_to_end(&mut buf);
            Outcome::Ok(Served {
                status: parts.status.as_u16(),
                headers: parts.headers.iter().map(|(n, v)| (n.as_str().to_string(), v.as_bytes().to_vec())).collect(),
                body: buf,
            })
        }
        Err(e) => Outcome::Err(err_kind(&e), e.to_string()),
    }
}

fn run_sdk(c: &Case, req: Request<Vec<u8>>, mock: Arc<Mock>, selftest: &Option<String>) -> Outcome {
    let allow = c.allow;
    let asynch = c.asynch;
    let st = selftest.clone();
    let r = vh::catch(move || {
        if let Some(v) = st {
            let n = Naive { inner: mock, allow, variant: v };
            return read_out(n.http_resolve(req));
        }
        if asynch {
            let rt = tokio::runtime::Builder::new_current_thread().build().expect("tokio runtime");
            let resolver = c2pa::verif_hooks::redirect_resolver_async(mock, allow);
            read_out(rt.block_on(resolver.http_resolve_async(req)))
        } else {
            let resolver = c2pa::verif_hooks::redirect_resolver_sync(mock, allow);
            read_out(resolver.http_resolve(req))
        }
    });
    match r {
        Ok(o) => o,
        Err(p) => Outcome::Panic(p),
    }
}

// =====================================================================================================
// judge
// =====================================================================================================

/// Collapse `nat64-loopback` etc. to `nat64(listed v4 inside)` / `nat64(other)` for the histogram.
fn coarse(class: &str) -> String {
    for p in ["v4compatible", "nat64", "6to4", "siit"] {
        if let Some(inner) = class.strip_prefix(p).and_then(|r| r.strip_prefix('-')) {
            let listed = V4_TABLE.iter().any(|(_, _, n, l)| *l && *n == inner);
            return format!("{p}({})", if listed { "v4 inside is a listed class" } else { "other" });
        }
    }
    class.to_string()
}

fn sorted(mut v: Vec<(String, Vec<u8>)>) -> Vec<(String, Vec<u8>)> {
    v.sort();
    v
}

fn judge(run: &Run, c: &Case, selftest: &Option<String>) -> CaseResult {
    let Some(req) = build_request(c) else {
        run.count("generator_rejected");
        return Ok(());
    };
    let original: Vec<(String, Vec<u8>)> = req.headers().iter().map(|(n, v)| (n.as_str().to_string(), v.as_bytes().to_vec())).collect();
    let mock = Mock::new(c.script.clone());
    let out = run_sdk(c, req, mock.clone(), selftest);
    let hist = mock.history();
    let answers: Vec<Option<Served>> = (0..hist.len().max(1)).map(|i| served(c.script.get(i).unwrap_or(&default_answer()))).collect();

    // ---- coverage ---------------------------------------------------------------------------------
    run.count(if c.asynch { "mode_async" } else { "mode_sync" });
    run.count(if c.allow { "allow_redirects_true" } else { "allow_redirects_false" });
    run.count(&format!("requests_{:02}", hist.len().min(12)));
    for r in &c.script {
        // tag = shape[:kNN[:host class[:notation]]] — counted per component to keep the histogram readable
        let mut it = r.tag.split(':');
        let shape = it.next().unwrap_or("");
        match it.next() {
            Some(k) => run.count(&format!("gen_answer:{shape}:{k}")),
            None => run.count(&format!("gen_answer:{shape}")),
        }
        if let Some(h) = it.next() {
            run.count(&format!("gen_host:{h}"));
        }
        if let Some(n) = it.next() {
            run.count(&format!("gen_notation:{n}"));
        }
    }
    match &out {
        Outcome::Ok(_) => run.count("result_ok"),
        Outcome::Err(k, _) => run.count(&format!("result_err:{k}")),
        Outcome::Panic(p) => {
            run.count("result_panic");
            run.note(format!("SDK panicked ({}) on {}", vh::core::panic_site(p), serde_json::to_string(c).unwrap_or_default()));
        }
    }
    // what a URL library makes of the answer that ended the exchange (coverage only, never the verdict)
    let mut internal_target_seen = false;
    if c.allow && !hist.is_empty() {
        let last = hist.len() - 1;
        if let Some(Some(s)) = answers.get(last) {
            if clear_redirect(s) && !matches!(out, Outcome::Ok(_)) {
                let loc = s.headers.iter().find(|(n, _)| n == "location").map(|(_, v)| String::from_utf8_lossy(v).to_string()).unwrap_or_default();
                let cls = match url::Url::parse(&hist[last].uri).and_then(|b| b.join(&loc)) {
                    Ok(u) => match strict_parse(u.as_str()) {
                        Some(a) => {
                            let (cl, _, listed) = classify_host(&a);
                            if listed {
                                internal_target_seen = true;
                            }
                            cl
                        }
                        None => "no-authority".to_string(),
                    },
                    Err(_) => "url-join-error".to_string(),
                };
                let tag = c.script.get(last).map(|r| r.tag.clone()).unwrap_or_default();
                let notation = tag.split(':').find(|p| p.starts_with("n")).unwrap_or("");
                let kind = match &out {
                    Outcome::Err(k, _) => k,
                    _ => "panic",
                };
                run.count(&format!("ended_on_location_to:{}:{kind}", coarse(&cls)));
                if internal_target_seen && !notation.is_empty() {
                    run.count(&format!("refused_listed_target_by_notation:{notation}"));
                }
            }
        }
    }
    let sensitive_sent = original.iter().any(|(n, _)| CREDENTIAL.contains(&n.as_str()));
    let redirects_in_script = c.script.iter().filter(|r| served(r).map(|s| any_redirect(&s)).unwrap_or(false)).count();
    if internal_target_seen || redirects_in_script >= 10 || (sensitive_sent && hist.len() >= 2) || (!c.allow && redirects_in_script >= 1) {
        run.nontrivial(c);
    }

    // ---- H1: hop limit ----------------------------------------------------------------------------
    if hist.len() > 11 {
        return Err(Fail::new("C27:more-than-ten-redirects", format!("{} requests reached the transport (limit is 1 + 10)", hist.len())));
    }
    // ---- H2: redirects disabled -------------------------------------------------------------------
    if !c.allow {
        if hist.len() > 1 {
            return Err(Fail::new("C27:redirect-followed-when-disabled", format!("allow_redirects=false but {} requests were sent; second went to {}", hist.len(), hist[1].uri)));
        }
        if let Some(Some(s)) = answers.first() {
            if hist.len() == 1 && clear_redirect(s) {
                match &out {
                    Outcome::Err("RedirectDisallowed", _) => run.count("disabled_redirect_refused"),
                    Outcome::Panic(_) => {}
                    Outcome::Err(k, m) => return Err(Fail::new("C27:disabled-redirect-wrong-error", format!("allow_redirects=false, answer {} with Location, got Err({k}): {m}", s.status))),
                    Outcome::Ok(r) => return Err(Fail::new("C27:disabled-redirect-not-refused", format!("allow_redirects=false, answer {} with Location was returned as Ok({})", s.status, r.status))),
                }
            } else if hist.len() == 1 && any_redirect(s) {
                run.count("disabled_redirect_with_unusable_location");
            }
        }
    }
    // ---- H7: a follow-up request needs a redirect answer before it ---------------------------------
    for i in 1..hist.len() {
        let prev_is_redirect = answers[i - 1].as_ref().map(any_redirect).unwrap_or(false);
        if !prev_is_redirect {
            return Err(Fail::new("C27:request-after-non-redirect", format!("request {i} ({}) was sent although answer {} was not a redirect", hist[i].uri, i - 1)));
        }
    }
    // ---- H3: hop targets ----------------------------------------------------------------------------
    for (i, r) in hist.iter().enumerate().skip(1) {
        run.count("hop_followed");
        let Some(a) = strict_parse(&r.uri) else {
            return Err(Fail::new("C27:hop-uri-not-a-strict-authority", format!("request {i} went to {:?}, which has no strictly parsable scheme://host[:port]", r.uri)));
        };
        let (class, form, listed) = classify_host(&a);
        run.count(&format!("hop_class:{}", coarse(&class)));
        if a.odd {
            run.count("hop_uri_in_authority_form");
        }
        if listed {
            return Err(Fail::new(
                format!("C27:hop-to-{class}:{form}"),
                format!("redirect hop {i} was sent to {} (host {:?} is {class}); Location was {:?}", r.uri, a.host, c.script.get(i - 1).map(|s| s.headers.clone())),
            ));
        }
    }
    // ---- H4: headers on hops ------------------------------------------------------------------------
    for (i, r) in hist.iter().enumerate().skip(1) {
        for (n, _) in &r.headers {
            if CREDENTIAL.contains(&n.as_str()) {
                return Err(Fail::new(format!("C27:credential-header-forwarded:{n}"), format!("redirect hop {i} to {} carries the {n} header", r.uri)));
            }
        }
        let want: Vec<(String, Vec<u8>)> = sorted(original.iter().filter(|(n, _)| BENIGN.contains(&n.as_str())).cloned().collect());
        let got: Vec<(String, Vec<u8>)> = sorted(r.headers.iter().filter(|(n, _)| BENIGN.contains(&n.as_str())).cloned().collect());
        if want != got {
            return Err(Fail::new("C27:benign-header-dropped", format!("redirect hop {i} benign headers {got:?} differ from the original {want:?}")));
        }
        if !want.is_empty() {
            run.count("hop_with_benign_headers_kept");
        }
        if sensitive_sent {
            run.count("hop_with_credentials_stripped");
        }
        if r.method == hist[0].method && r.body == hist[0].body {
            run.count("hop_method_body_preserved");
        } else {
            run.count("hop_method_body_changed");
        }
    }
    // ---- H6: a successful result is the last answer, unchanged -------------------------------------
    if let Outcome::Ok(got) = &out {
        if hist.is_empty() {
            return Err(Fail::new("C27:answer-without-request", "Ok result although nothing reached the transport"));
        }
        let last = hist.len() - 1;
        match &answers[last] {
            None => return Err(Fail::new("C27:final-response-altered", "Ok result although the transport failed on the last request")),
            Some(s) => {
                if got.status != s.status || sorted(got.headers.clone()) != sorted(s.headers.clone()) || got.body != s.body {
                    return Err(Fail::new("C27:final-response-altered", format!("returned {got:?}, the transport answered {s:?}")));
                }
                if any_redirect(s) && !clear_redirect(s) {
                    run.count("ok_result_is_3xx_with_unusable_location");
                } else if clear_redirect(s) {
                    // allow=true and an ordinary redirect answer came back as Ok: nothing was sent, so the
                    // property is not touched, but it is worth seeing in the evidence
                    run.count("ok_result_is_redirect_answer");
                } else {
                    run.count("non_redirect_returned_unchanged");
                }
            }
        }
    }
    Ok(())
}

// =====================================================================================================
// generators
// =====================================================================================================

/// IPv4 blocks used by the generator: (base, prefix). Boundaries and neighbours are derived per block.
const GEN_V4_BLOCKS: &[(u32, u32)] = &[
    (0x7f00_0000, 8),
    (0x0a00_0000, 8),
    (0xac10_0000, 12),
    (0xc0a8_0000, 16),
    (0xa9fe_0000, 16),
    (0xa9fe_a9fe, 32), // 169.254.169.254 metadata
    (0x0000_0000, 32),
    (0x0000_0000, 8),
    (0xe000_0000, 4),
    (0xffff_ffff, 32),
    (0xc000_0200, 24),
    (0xc633_6400, 24),
    (0xcb00_7100, 24),
    (0x6440_0000, 10),
    (0xf000_0000, 4),
    (0xc612_0000, 15),
    (0xc000_0000, 24),
    (0x5db8_d822, 32), // 93.184.216.34
    (0x0808_0808, 32),
    (0x0101_0101, 32),
    (0x2000_0000, 3), // a large global-ish range
];

fn v4_pick(sel: u16, rnd: u32) -> u32 {
    let (base, p) = GEN_V4_BLOCKS[sel as usize % GEN_V4_BLOCKS.len()];
    let size_mask = if p == 32 { 0 } else { u32::MAX >> p };
    let first = base & !size_mask;
    let last = first | size_mask;
    match (sel as usize / GEN_V4_BLOCKS.len()) % 6 {
        0 => first.wrapping_add(1).min(last),
        1 => first,
        2 => last,
        3 => first.wrapping_sub(1),
        4 => last.wrapping_add(1),
        _ => first | (rnd & size_mask),
    }
}

fn num(v: u32, base: u32) -> String {
    match base & 3 {
        0 => format!("{v}"),
        1 => format!("0x{v:x}"),
        2 => format!("0X{v:X}"),
        _ => format!("0{v:o}"),
    }
}

fn pct_all(s: &str) -> String {
    s.bytes().map(|b| format!("%{b:02X}")).collect()
}

const V4_NOTATIONS: u8 = 29;

/// Render an IPv4 address as a URL host in notation `n` (returned with brackets where it is an IPv6 form).
fn render_v4(a: u32, n: u8, rnd: u32) -> String {
    let o = a.to_be_bytes();
    let dotted = format!("{}.{}.{}.{}", o[0], o[1], o[2], o[3]);
    let hi = (a >> 16) as u16;
    let lo = a as u16;
    match n % V4_NOTATIONS {
        0 => dotted,
        1 => format!("{dotted}."),
        2 => format!("{a}"),
        3 => format!("0x{a:x}"),
        4 => format!("0X{a:08X}"),
        5 => format!("0{a:o}"),
        6 => format!("0x{:x}.0x{:x}.0x{:x}.0x{:x}", o[0], o[1], o[2], o[3]),
        7 => format!("0{:o}.0{:o}.0{:o}.0{:o}", o[0], o[1], o[2], o[3]),
        8 => (0..4).map(|i| num(o[i] as u32, rnd >> (2 * i))).collect::<Vec<_>>().join("."),
        9 => format!("{}.{}.{}", num(o[0] as u32, rnd), num(o[1] as u32, rnd >> 2), num(((o[2] as u32) << 8) | o[3] as u32, rnd >> 4)),
        10 => format!("{}.{}", num(o[0] as u32, rnd), num(a & 0x00ff_ffff, rnd >> 2)),
        11 => format!("0x{:x}.{}", o[0], a & 0x00ff_ffff),
        12 => (0..4).map(|i| if o[i] < 8 { format!("00{}", o[i]) } else { format!("{}", o[i]) }).collect::<Vec<_>>().join("."),
        13 => pct_all(&dotted),
        14 => dotted.bytes().enumerate().map(|(i, b)| if (rnd >> (i % 32)) & 1 == 1 { format!("%{b:02x}") } else { (b as char).to_string() }).collect(),
        15 => dotted.chars().map(|ch| match ch.to_digit(10) { Some(d) => pct_all(&char::from_u32(0xFF10 + d).unwrap().to_string()), None => ".".to_string() }).collect(),
        16 => dotted.replace('.', "%E3%80%82"),
        17 => dotted.chars().map(|ch| match ch.to_digit(10) { Some(d) => char::from_u32(0xFF10 + d).unwrap(), None => '.' }).collect(),
        18 => format!("{dotted}.."),
        19 => format!("[::ffff:{dotted}]"),
        20 => format!("[::ffff:{hi:x}:{lo:x}]"),
        21 => format!("[0:0:0:0:0:ffff:{hi:x}:{lo:x}]"),
        22 => format!("[::FFFF:{hi:X}:{lo:X}]"),
        23 => format!("[0000:0000:0000:0000:0000:ffff:{hi:04x}:{lo:04x}]"),
        24 => format!("[::{dotted}]"),
        25 => format!("[64:ff9b::{dotted}]"),
        26 => format!("[2002:{hi:x}:{lo:x}::1]"),
        27 => format!("{dotted}.example.com"),
        _ => format!("[::ffff:0:{dotted}]"),
    }
}

const GEN_V6: &[u128] = &[
    0,
    1,
    2,
    0xfc00 << 112,
    (0xfc00 << 112) | 1,
    (0xfd12_3456_789a << 80) | 1,
    (0xfe00 << 112) - 1, // fdff:ffff:...:ffff
    (0xfc00 << 112) - 1, // fbff:ffff:...:ffff
    0xfe00 << 112,
    0xfe80 << 112,
    (0xfe80 << 112) | 1,
    (0xfec0 << 112) - 1, // febf:ffff:...
    (0xfe80 << 112) - 1, // fe7f:ffff:...
    0xfec0 << 112,
    0xff00 << 112,
    (0xff02 << 112) | 1,
    u128::MAX,
    (0xff00 << 112) - 1, // feff:ffff:...
    (0x2001_0db8 << 96) | 1,
    0x2606_2800_0220_0001_0248_1893_25c8_1946,
    (0x2001_4860_4860 << 80) | 0x8888,
    (0xfe80 << 112) | 0xa9fe_a9fe,
];

fn render_v6(a: u128, n: u8) -> String {
    let g: Vec<u16> = (0..8).map(|i| (a >> (112 - 16 * i)) as u16).collect();
    match n % 5 {
        0 => format!("[{}]", std::net::Ipv6Addr::from(a)),
        1 => format!("[{}]", g.iter().map(|x| format!("{x:04x}")).collect::<Vec<_>>().join(":")),
        2 => format!("[{}]", std::net::Ipv6Addr::from(a).to_string().to_ascii_uppercase()),
        3 => format!("[{}]", g.iter().map(|x| format!("{x:x}")).collect::<Vec<_>>().join(":")),
        _ => format!(
            "[{}:{}.{}.{}.{}]",
            g[..6].iter().map(|x| format!("{x:x}")).collect::<Vec<_>>().join(":"),
            g[6] >> 8,
            g[6] & 0xff,
            g[7] >> 8,
            g[7] & 0xff
        ),
    }
}

const GLOBAL_NAMES: &[&str] = &[
    "example.com",
    "sub.example.org",
    "contentauthenticity.org",
    "cafe.example.com",
    "xn--bcher-kva.example",
    "EXAMPLE.NET",
    "example.com.",
    "127.0.0.1.example.com",
    "0x7f.example.com",
    "localhost.example.com",
    "notlocalhost",
    "localhost.localdomain",
];

const SPECIAL_NAMES: &[&str] = &[
    "localhost",
    "LOCALHOST",
    "LocalHost",
    "localhost.",
    "foo.localhost",
    "a.b.LOCALHOST.",
    "localhost..",
    "%6Cocalhost",
    "loc%61lhost.",
    "%EF%BD%8C%EF%BD%8F%EF%BD%83%EF%BD%81%EF%BD%8C%EF%BD%88%EF%BD%8F%EF%BD%93%EF%BD%94",
    "localhost%2E",
    "foo.localhost%E3%80%82",
    "",
    "exa mple.com",
    "ex%00ample.com",
    "LOCALHOST%2e%2E",
];

#[derive(Clone, Debug)]
struct HostSpec {
    fam: u8,
    sel: u16,
    rnd: u32,
    notation: u8,
}

/// (host text, coverage tag)
fn render_host(h: &HostSpec) -> (String, String) {
    match h.fam % 4 {
        0 => (GLOBAL_NAMES[h.sel as usize % GLOBAL_NAMES.len()].to_string(), "name-global".into()),
        1 => {
            let a = v4_pick(h.sel, h.rnd);
            let (cl, _) = classify_v4(a);
            (render_v4(a, h.notation, h.rnd), format!("v4-{cl}:n{:02}", h.notation % V4_NOTATIONS))
        }
        2 => {
            let a = if h.sel as usize % (GEN_V6.len() + 2) >= GEN_V6.len() { (0x2000u128 << 112) | ((h.rnd as u128) << 64) | h.sel as u128 } else { GEN_V6[h.sel as usize % (GEN_V6.len() + 2)] };
            (render_v6(a, h.notation), format!("{}:m{}", classify_v6(a).0, h.notation % 5))
        }
        _ => (SPECIAL_NAMES[h.sel as usize % SPECIAL_NAMES.len()].to_string(), format!("name-special-{:02}", h.sel as usize % SPECIAL_NAMES.len())),
    }
}

#[derive(Clone, Debug)]
struct HopSpec {
    roll: u8,
    kind: u8,
    status: u8,
    host: HostSpec,
    userinfo: u8,
    port: u8,
    path: u8,
}

const LOC_KINDS: u8 = 11;

fn render_location(h: &HopSpec, force_global: bool) -> (String, String) {
    let host = if force_global { HostSpec { fam: 0, ..h.host.clone() } } else { h.host.clone() };
    let (hs, htag) = render_host(&host);
    let ui = ["", "", "user@", "user:pw@", "example.com@", "a%40b:c@"][h.userinfo as usize % 6];
    let port = ["", "", ":80", ":443", ":8080", ":0", ":65535", ":"][h.port as usize % 8];
    let path = ["/", "/next", "/a/b?x=1", "", "/final#frag"][h.path as usize % 5];
    let hp = format!("{ui}{hs}{port}");
    let sel = host.sel as usize;
    let kind = if force_global { [0u8, 1, 2, 3][h.kind as usize % 4] } else { h.kind % LOC_KINDS };
    let loc = match kind {
        0 => format!("{}://{hp}{path}", if h.host.rnd & 1 == 0 { "http" } else { "https" }),
        1 => format!("//{hp}{path}"),
        2 => ["/next", "/", "/a/b/c?d=e", "/x#y"][sel % 4].to_string(),
        3 => ["next", "../x", "./", "?q=1", "#f", "", ".", "a/b/../c"][sel % 8].to_string(),
        4 => format!("{}://{hp}{path}", ["ftp", "ws", "wss", "foo", "file", "gopher", "HTTP", "hTTps"][sel % 8]),
        5 => ["data:text/plain,hi", "mailto:a@example.com", "javascript:alert(1)", "about:blank", "urn:x:y", "http:", "http://", "://", ":", "file:///etc/passwd"][sel % 10].to_string(),
        6 => match sel % 5 {
            0 => format!("\\\\{hp}\\p"),
            1 => format!("/\\{hp}/p"),
            2 => format!("http:\\\\{hp}\\p"),
            3 => format!("http:/\\{hp}/"),
            _ => format!("\\/{hp}"),
        },
        7 => match sel % 5 {
            0 => format!("http:/{hp}/p"),
            1 => format!("http:{hp}/p"),
            2 => format!("http:///{hp}/p"),
            3 => format!("https:////{hp}"),
            _ => format!("http:/\t/{hp}"),
        },
        8 => match sel % 6 {
            0 => format!(" http://{hp}/"),
            1 => format!("\thttp://{hp}/"),
            2 => format!("http://{hp}/  "),
            3 => format!("ht\ttp://{hp}/"),
            4 => {
                let mut s = hs.clone();
                let at = s.char_indices().nth(s.chars().count() / 2).map(|x| x.0).unwrap_or(0);
                s.insert(at, '\t');
                format!("http://{ui}{s}{port}/")
            }
            _ => format!("http://{hp}/\t"),
        },
        9 => match sel % 8 {
            0 => format!("http://example.com@{hp}/"),
            1 => format!("http://{hp}#@example.com/"),
            2 => format!("http://example.com\\@{hp}/"),
            3 => format!("http://{hs}:80@example.com/"),
            4 => format!("http://example.com:80@{hp}/"),
            5 => format!("http://{hp}?@example.com"),
            6 => format!("http://example.com%2f@{hp}/"),
            _ => format!("http://example.com#\\@{hp}/"),
        },
        _ => format!("http://{ui}{hs}{}/", [":65536", ":080", ":+80", ":8a", ":00000080"][sel % 5]),
    };
    let tag = if matches!(kind, 2 | 3 | 5) { format!("k{kind:02}:relative-or-opaque") } else { format!("k{kind:02}:{htag}") };
    (loc, tag)
}

const STATUS_REDIRECT: [u16; 8] = [302, 301, 303, 307, 308, 300, 305, 399];
const STATUS_PLAIN: [u16; 6] = [200, 404, 500, 204, 201, 418];

fn render_hop(h: &HopSpec, force_global: bool, force_redirect: bool) -> Resp {
    let roll = if force_redirect { 0 } else { h.roll % 100 };
    let (loc, tag) = render_location(h, force_global);
    let body = ["", "body", "redirecting..."][h.path as usize % 3].to_string();
    if roll < 76 {
        Resp { status: STATUS_REDIRECT[h.status as usize % 8], headers: vec![("Location".into(), loc)], body, tag: format!("redirect:{tag}") }
    } else if roll < 82 {
        Resp { status: [304u16, 302, 300][h.status as usize % 3], headers: vec![("X-Other".into(), "1".into())], body, tag: "3xx-without-location".into() }
    } else if roll < 93 {
        Resp {
            status: STATUS_PLAIN[h.status as usize % 6],
            headers: vec![("Content-Type".into(), "text/plain".into()), ("Location".into(), loc), ("Set-Cookie".into(), "a=b".into())],
            body: "final body".into(),
            tag: "non-redirect-with-location".into(),
        }
    } else if roll < 96 {
        Resp { status: 0, headers: vec![], body: String::new(), tag: "transport-error".into() }
    } else {
        // two Location headers (the second one internal) / lower-case name
        Resp {
            status: 302,
            headers: vec![("location".into(), loc), ("Location".into(), "http://127.0.0.1/second".into())],
            body,
            tag: format!("two-locations:{tag}"),
        }
    }
}

const STARTS: &[&str] = &[
    "http://example.com/start",
    "https://example.com/a/b?q=1",
    "http://user:pw@example.com/x",
    "https://sub.example.org:8443/",
    "HTTP://EXAMPLE.COM/UP",
    "http://127.0.0.1:8080/local",
    "http://localhost/x",
    "http://[::1]/x",
    "http://10.0.0.5/",
    "ftp://example.com/f",
    "foo://example.com/x",
    "http://example.com",
];

const REQ_HEADERS: &[(&str, &str)] = &[
    ("Accept", "application/json"),
    ("Authorization", "Bearer secret"),
    ("Cookie", "sid=secret"),
    ("User-Agent", "c2pa-verif/1"),
    ("Proxy-Authorization", "Basic cHJveHk="),
    ("Host", "old.example.com"),
    ("X-Custom", "v1"),
    ("authorization", "Basic dXNlcjpwdw=="),
    ("COOKIE", "second=1"),
    ("Content-Type", "application/ocsp-request"),
    ("PROXY-authorization", "Digest x"),
    ("hOsT", "evil.example"),
    ("Accept-Language", "en"),
    ("X-Custom", "v2"),
    ("Cookie2", "$Version=1"),
    ("X-Authorization", "tok"),
    ("Range", "bytes=0-9"),
    ("If-None-Match", "\"etag\""),
    ("Accept", "text/plain"),
];

fn hop_strategy() -> impl Strategy<Value = HopSpec> {
    (0u8..100, 0u8..LOC_KINDS, 0u8..8, (0u8..4, 0u16..2000, any::<u32>(), 0u8..V4_NOTATIONS), 0u8..6, 0u8..8, 0u8..5).prop_map(|(roll, kind, status, (fam, sel, rnd, notation), userinfo, port, path)| HopSpec {
        roll,
        kind,
        status,
        host: HostSpec { fam, sel, rnd, notation },
        userinfo,
        port,
        path,
    })
}

fn case_strategy() -> impl Strategy<Value = Case> {
    (
        (0u8..100, 0u8..100, any::<bool>(), 0u8..4, 0usize..STARTS.len() * 3, 0u8..3),
        proptest::collection::vec(0usize..REQ_HEADERS.len(), 0..7),
        proptest::collection::vec(hop_strategy(), 0..14),
    )
        .prop_map(|((profile, allow_roll, asynch, method, start, body), hdrs, hops)| {
            let allow = allow_roll < 85;
            let start = if start >= STARTS.len() { STARTS[0] } else { STARTS[start] };
            let mut script: Vec<Resp> = vec![];
            if profile < 40 {
                // exactly one freely generated (usually internal) target, reached after all-global hops
                let n = hops.len();
                for (i, h) in hops.iter().enumerate() {
                    let free = i + 1 == n.min(1 + (h.host.sel as usize % 6));
                    let mut hh = h.clone();
                    if free && hh.host.fam == 0 {
                        hh.host.fam = 1 + (hh.host.rnd % 3) as u8;
                    }
                    script.push(render_hop(&hh, !free, !free));
                    if free {
                        break;
                    }
                }
            } else if profile < 62 {
                // long chain of global redirects (hop limit)
                let n = 9 + (hops.len() % 5);
                for i in 0..n {
                    let h = if hops.is_empty() { None } else { Some(&hops[i % hops.len()]) };
                    match h {
                        Some(h) => script.push(render_hop(h, true, i + 1 < n || h.roll < 70)),
                        None => script.push(Resp { status: 302, headers: vec![("Location".into(), "/loop".into())], body: String::new(), tag: "redirect:k02:relative-or-opaque".into() }),
                    }
                }
            } else {
                for h in &hops {
                    script.push(render_hop(h, false, false));
                }
            }
            Case {
                asynch,
                allow,
                method: ["GET", "POST", "HEAD", "PUT"][method as usize].to_string(),
                start: start.to_string(),
                headers: hdrs.iter().map(|i| (REQ_HEADERS[*i].0.to_string(), REQ_HEADERS[*i].1.to_string())).collect(),
                body: ["", "payload", "\u{1}\u{2}binary"][body as usize].to_string(),
                script,
            }
        })
}

/// Deterministic matrix: one redirect from a public URL to every (IPv4 block x position x notation),
/// every IPv6 pool address x rendering, every special name, wrapped in the absolute / scheme-relative /
/// backslash / userinfo-confusion Location shapes.
fn matrix() -> Vec<Case> {
    let mut out = vec![];
    let all_headers: Vec<(String, String)> = REQ_HEADERS.iter().take(7).map(|(a, b)| (a.to_string(), b.to_string())).collect();
    let mut push = |host: HostSpec, kind: u8, i: usize| {
        let h = HopSpec { roll: 0, kind, status: (i % 8) as u8, host, userinfo: (i % 6) as u8, port: (i % 8) as u8, path: (i % 5) as u8 };
        let r = render_hop(&h, false, true);
        out.push(Case {
            asynch: i % 2 == 1,
            allow: true,
            method: "GET".into(),
            start: STARTS[i % 4].to_string(),
            headers: all_headers.clone(),
            body: String::new(),
            script: vec![r, Resp { status: 200, headers: vec![], body: "ok".into(), tag: "final".into() }],
        });
    };
    let mut i = 0usize;
    for b in 0..GEN_V4_BLOCKS.len() {
        for pos in 0..6 {
            for n in 0..V4_NOTATIONS {
                let sel = (b + pos * GEN_V4_BLOCKS.len()) as u16;
                for kind in [0u8, 1, 6, 9] {
                    i += 1;
                    // keep userinfo/port plain for half of them so that the notation itself is what decides
                    push(HostSpec { fam: 1, sel, rnd: 0x9E37_79B9u32.wrapping_mul(i as u32), notation: n }, kind, if i % 2 == 0 { 0 } else { i });
                }
            }
        }
    }
    for s in 0..GEN_V6.len() + 2 {
        for n in 0..5u8 {
            for kind in [0u8, 1, 4, 9] {
                i += 1;
                push(HostSpec { fam: 2, sel: s as u16, rnd: i as u32, notation: n }, kind, if i % 2 == 0 { 0 } else { i });
            }
        }
    }
    for s in 0..SPECIAL_NAMES.len() {
        for kind in 0..LOC_KINDS {
            for v in 0..8u16 {
                i += 1;
                push(HostSpec { fam: 3, sel: s as u16 + v * SPECIAL_NAMES.len() as u16, rnd: i as u32, notation: 0 }, kind, if v == 0 { 0 } else { i });
            }
        }
    }
    out
}

fn main() {
    vh::quiet_panics();
    let run = Run::from_args("C27", "exploration");
    let selftest = std::env::var("VERIF_SELFTEST").ok().filter(|s| !s.is_empty());
    if let Some(s) = &selftest {
        run.note(format!("SELF-TEST: the SDK follower is replaced by a deliberately wrong one ({s}); a violation is the expected outcome"));
    }
    run.set_rule("case = (sync|async, allow_redirects, method, start URI, request headers drawn from credential / benign / look-alike names in mixed case, body, script of 0..13 scripted answers). Answers: 3xx+Location (76%), 3xx without Location, non-3xx carrying a Location, transport error, two Location headers. Location grammar: absolute, scheme-relative, relative, other schemes, opaque schemes, backslash and slash-count variants, embedded whitespace, userinfo/fragment confusion, odd ports; hosts: global names, localhost family (case, trailing dots, percent-encoded, full-width), IPv4 from every special-purpose block (first/last/+-1/random) in 29 notations (dotted, integer, hex, octal, mixed, 2- and 3-part, zero-padded, percent-encoded, full-width, mapped/compatible/NAT64/6to4 IPv6 embeddings), IPv6 pool with block boundaries in 5 renderings. Profiles: one free target after a global chain (40%), long global chain 9..13 (22%), fully random (38%). A deterministic matrix (every block x position x notation x 4 Location shapes) runs first. Non-trivial = the exchange ended on a Location that resolves to an address class the property lists, or the script holds >= 10 redirects, or credential headers were sent and at least one hop was followed, or redirects were disabled and a redirect was served.");
    run.assume("the transport contacts the host named in the request URI it is handed; for a numeric host it may apply inet_aton/WHATWG IPv4 number rules (decimal, octal, hex, 1-4 parts)");
    run.assume("address classes are the ones the property names; IPv4-compatible, NAT64, 6to4, SIIT, 240/4, 0/8 (other than 0.0.0.0), 198.18/15 are recorded, not judged");
    run.assume("benign headers that must survive a redirect: accept, user-agent, content-type, accept-language, x-custom, range, if-none-match; look-alikes (cookie2, x-authorization) are not judged");
    run.assume("a 3xx answer whose Location is not visible ASCII may be returned as-is or refused (no request may follow either way)");

    // ---- reference self-checks (harness sanity, never part of the verdict on the SDK) ----------------
    let sanity: &[(&str, Option<u32>)] = &[
        ("127.0.0.1", Some(0x7f000001)),
        ("2130706433", Some(0x7f000001)),
        ("0x7f.1", Some(0x7f000001)),
        ("0177.0.0.01", Some(0x7f000001)),
        ("127.0.0.1.", Some(0x7f000001)),
        ("1.2.3.4.5", None),
        ("256.0.0.1", None),
        ("example.com", None),
        ("08.0.0.1", None),
    ];
    for (h, want) in sanity {
        if ipv4_any_notation(h) != *want {
            run.inconclusive(format!("harness IPv4 parser self-check failed on {h}"));
        }
    }
    for (h, want) in [("::1", Some(1u128)), ("::ffff:127.0.0.1", Some(0xffff_7f00_0001)), ("fe80::1", Some((0xfe80u128 << 112) | 1)), ("1::2::3", None), ("0:0:0:0:0:0:0:1", Some(1))] {
        if ipv6_parse(h) != want {
            run.inconclusive(format!("harness IPv6 parser self-check failed on {h}"));
        }
    }

    let threads = std::thread::available_parallelism().map(|n| n.get()).unwrap_or(4).min(16);
    let mut m = matrix();
    // shortest Location first, so the first failure reported per signature is the simplest one
    m.sort_by_key(|c| c.script[0].headers.iter().map(|h| h.1.len()).sum::<usize>() + c.headers.len());
    run.extra("matrix_cases", serde_json::json!(m.len()));
    run.drive_enum_par("matrix", m, threads, |c| judge(&run, c, &selftest));
    run.drive_par("scripts", run.scale(600_000, 10_000_000), run.scale(4, 16), case_strategy(), |c| judge(&run, c, &selftest));
    run.finish();
}
