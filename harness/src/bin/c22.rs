//! C22 — saving and restoring a working store (archive) preserves the manifest.
//!
//! Two identical builders are made from one generated definition (`vh::defgen`).  One is signed
//! directly; the other goes through 1–3 `to_archive → restore` hops first (restore =
//! `Builder::from_context(ctx).with_archive`, or `Reader::with_stream("application/c2pa") → into_builder`)
//! and is then signed on the same asset with the same signer.  Oracle: the two read-backs report the
//! same manifest content after cross-run normalisation (URNs, instance ids, times, hashes), the same
//! validation verdict / ingredient validation results, and every resource is retrievable from both with
//! identical bytes (and equal to the supplied bytes where the harness supplied them).

use std::io::Cursor;

use c2pa::{Builder, Context, Manifest, Reader};
use proptest::prelude::*;
use serde::{Deserialize, Serialize};
use serde_json::{json, Value};
use vh::{
    defgen::{self, DefOpts, DefSpec, GenDef, ResKind},
    sdk, CaseResult, Fail, Run,
};

#[derive(Clone, Debug, Serialize, Deserialize, PartialEq, Eq, Hash)]
struct Case {
    /// index into ASSETS
    asset: u8,
    /// index into `sdk::ALGS`
    alg: u8,
    /// number of archive hops, 1..=3
    hops: u8,
    /// 0 `with_archive`, 1 `Reader::with_stream(application/c2pa)` + `into_builder`, 2 alternate per hop
    route: u8,
    thumbs: bool,
    spec: DefSpec,
}

const ASSETS: [(&str, &str, &str); 5] = [
    ("png", "image/png", "libpng-test.png"),
    ("jpeg", "image/jpeg", "no_manifest.jpg"),
    ("webp", "image/webp", "test.webp"),
    ("svg", "image/svg+xml", "sample1.svg"),
    ("mp4", "video/mp4", "video1_no_manifest.mp4"),
];

fn opts() -> DefOpts {
    // Update manifests are C21's subject; `to_archive` with an Edit intent needs an explicit parent
    // (the source stream that could become one is only known at sign time) — see `fix_spec`.
    DefOpts { allow_update: false, ..DefOpts::default() }
}

fn fix_spec(s: &DefSpec) -> DefSpec {
    let mut s = s.clone();
    if s.intent == 3 || s.intent == 5 {
        s.intent = 4; // Edit with an explicit parentOf ingredient
    }
    defgen::normalise(&mut s, &opts());
    s
}

fn err_variant(e: &c2pa::Error) -> String {
    let d = format!("{e:?}");
    d.split(|c: char| c == '(' || c == '{' || c == ' ').next().unwrap_or("Error").to_string()
}

// ---- normalisation on top of sdk::report_cross_run ---------------------------------------------------

/// What `sdk::report_cross_run` leaves behind for two different signing runs (found while writing this check):
/// * `claim_generator_info[*]."org.contentauth.c2pa_rs"` is fine (same SDK) — kept;
/// * resource identifiers that embed the *xmp instance id* of the run (auto thumbnails are registered under
///   `definition.instance_id`, a fresh `xmp:iid:<uuid>` per builder) — renamed to `IID<n>` in order of appearance.
fn normalise(v: &mut Value) {
    let txt = v.to_string();
    let mut ids: Vec<String> = vec![];
    let mut i = 0;
    while let Some(p) = txt[i..].find("xmp:iid:") {
        let s = i + p;
        let e = txt[s..]
            .find(|c: char| !(c.is_ascii_alphanumeric() || c == ':' || c == '-' || c == '.'))
            .map(|e| s + e)
            .unwrap_or(txt.len());
        let id = txt[s..e].to_string();
        if !ids.contains(&id) {
            ids.push(id);
        }
        i = e;
    }
    fn walk(v: &mut Value, ids: &[String]) {
        match v {
            Value::String(s) => {
                for (i, id) in ids.iter().enumerate() {
                    if s.contains(id.as_str()) {
                        *s = s.replace(id.as_str(), &format!("IID{i}"));
                    }
                }
            }
            Value::Array(a) => a.iter_mut().for_each(|x| walk(x, ids)),
            Value::Object(m) => m.values_mut().for_each(|x| walk(x, ids)),
            _ => {}
        }
    }
    // longest first
    ids.sort_by_key(|s| std::cmp::Reverse(s.len()));
    walk(v, &ids);
}

/// Own cross-run normaliser.  When this check was written `sdk::report_cross_run` panicked on non-ASCII
/// report text and numbered ingredient manifests in HashMap order (both since fixed in vh::sdk); this one
/// never depended on either: it renames only the active manifest label and compares every other URN verbatim.
/// Here: the active manifest label (the only URN that is new per signing run) is renamed `M0`, volatile
/// members are blanked.
fn cross_run(r: &Reader) -> Value {
    let txt = r.json();
    let mut v: Value = serde_json::from_str(&txt).unwrap_or(Value::Null);
    // Only the label of the active manifest is new in each signing run; ingredient manifests are embedded
    // unchanged and must keep their labels, so they are compared verbatim.
    let ranked: Vec<(usize, String)> = r.active_label().map(|l| vec![(0usize, l.to_string())]).unwrap_or_default();
    fn rename(s: &str, ranked: &[(usize, String)]) -> String {
        let mut out = s.to_string();
        for (i, u) in ranked {
            if out.contains(u.as_str()) {
                out = out.replace(u.as_str(), &format!("M{i}"));
            }
        }
        out
    }
    fn walk(v: &mut Value, ranked: &[(usize, String)]) {
        match v {
            Value::String(s) => *s = rename(s, ranked),
            Value::Array(a) => a.iter_mut().for_each(|x| walk(x, ranked)),
            Value::Object(m) => {
                let old = std::mem::take(m);
                for (k, mut val) in old {
                    walk(&mut val, ranked);
                    m.insert(rename(&k, ranked), val);
                }
            }
            _ => {}
        }
    }
    walk(&mut v, &ranked);
    sdk::blank_keys(
        &mut v,
        &[
            "instance_id", "instanceID", "instanceId", "time", "when", "validation_time", "hash", "pad", "pad1", "pad2", "signature",
            "serial_number", "validationTime", "salt",
        ],
    );
    v
}

fn report(r: &Reader) -> Value {
    let mut v = cross_run(r);
    normalise(&mut v);
    v
}

/// Verdict with manifest URNs renamed in order of appearance (codes carry JUMBF URIs).
fn verdict_norm(r: &Reader) -> Value {
    let v = sdk::verdict(r);
    let mut urns: Vec<String> = vec![];
    let mut codes = vec![];
    for c in &v.codes {
        let mut c2 = c.clone();
        let mut i = 0;
        while let Some(p) = c2[i..].find("urn:") {
            let s = i + p;
            let e = c2[s..].find('/').map(|e| s + e).unwrap_or(c2.len());
            let u = c2[s..e].to_string();
            let idx = match urns.iter().position(|x| *x == u) {
                Some(k) => k,
                None => {
                    urns.push(u.clone());
                    urns.len() - 1
                }
            };
            let rep = format!("M{idx}");
            c2.replace_range(s..e, &rep);
            i = s + rep.len();
        }
        codes.push(c2);
    }
    // order of URN discovery depends on sorted code order, which depends on the URNs: compare as multiset of
    // codes with all URNs collapsed as a fallback key
    let mut collapsed: Vec<String> = v
        .codes
        .iter()
        .map(|c| {
            let mut out = String::new();
            let mut rest = c.as_str();
            while let Some(p) = rest.find("urn:") {
                out.push_str(&rest[..p]);
                out.push_str("URN");
                let tail = &rest[p..];
                let e = tail.find('/').unwrap_or(tail.len());
                rest = &tail[e..];
            }
            out.push_str(rest);
            out
        })
        .collect();
    collapsed.sort();
    let _ = codes;
    json!({ "state": v.state, "codes": collapsed })
}

// ---- resources ---------------------------------------------------------------------------------------------

fn fetch(r: &Reader, id: &str) -> Result<Vec<u8>, String> {
    let mut out = Cursor::new(Vec::new());
    r.resource_to_stream(id, &mut out).map_err(|e| format!("{e}"))?;
    Ok(out.into_inner())
}

/// (description, format, identifier) of every resource reference of the active manifest, in a fixed order.
fn resource_refs(m: &Manifest) -> Vec<(String, String, String)> {
    let mut v = vec![];
    if let Some(t) = m.thumbnail_ref() {
        v.push(("claim thumbnail".to_string(), t.format.clone(), t.identifier.clone()));
    }
    if let Some(cgi) = &m.claim_generator_info {
        for (i, g) in cgi.iter().enumerate() {
            // UriOrResource is not nameable from outside the crate: go through its serde form
            let j = serde_json::to_value(g).unwrap_or(Value::Null);
            if let (Some(f), Some(id)) = (j["icon"]["format"].as_str(), j["icon"]["identifier"].as_str()) {
                v.push((format!("claim generator #{i} icon"), f.to_string(), id.to_string()));
            }
        }
    }
    for (i, ing) in m.ingredients().iter().enumerate() {
        if let Some(t) = ing.thumbnail_ref() {
            v.push((format!("ingredient #{i} thumbnail"), t.format.clone(), t.identifier.clone()));
        }
        if let Some(d) = ing.data_ref() {
            v.push((format!("ingredient #{i} data"), d.format.clone(), d.identifier.clone()));
        }
        if let Some(d) = ing.manifest_data_ref() {
            v.push((format!("ingredient #{i} manifest_data"), d.format.clone(), d.identifier.clone()));
        }
    }
    v
}

// ---- the check ---------------------------------------------------------------------------------------------

struct Env {
    assets: Vec<Vec<u8>>,
    selftest: u8,
}

fn settings(c: &Case) -> Value {
    let mut s = sdk::base_settings(true);
    sdk::merge(&mut s, &json!({ "builder": { "thumbnail": { "enabled": c.thumbs } } }));
    s
}

fn ctx(c: &Case) -> Context {
    sdk::context_with(&settings(c))
}

fn restore(c: &Case, hop: u8, archive: Vec<u8>) -> c2pa::Result<Builder> {
    let via_reader = match c.route % 3 {
        0 => false,
        1 => true,
        _ => hop % 2 == 1,
    };
    if via_reader {
        Reader::from_context(ctx(c)).with_stream("application/c2pa", Cursor::new(archive))?.into_builder()
    } else {
        Builder::from_context(ctx(c)).with_archive(Cursor::new(archive))
    }
}

fn sign_and_read(c: &Case, b: &mut Builder, mime: &str, src: &[u8]) -> Result<Reader, Fail> {
    let alg = sdk::ALGS[c.alg as usize % sdk::ALGS.len()];
    let signer = sdk::signer(alg);
    let mut s = Cursor::new(src.to_vec());
    let mut d = Cursor::new(Vec::new());
    match vh::catch(|| b.sign(signer.as_ref(), mime, &mut s, &mut d)) {
        Err(p) => return Err(Fail::new(format!("C22:sign-panic:{}", vh::core::panic_site(&p)), format!("sign panicked: {p}"))),
        Ok(Err(e)) => return Err(Fail::new(format!("sign:{}", err_variant(&e)), format!("{e}"))),
        Ok(Ok(_)) => {}
    }
    match vh::catch(|| Reader::from_context(ctx(c)).with_stream(mime, Cursor::new(d.into_inner()))) {
        Err(p) => Err(Fail::new(format!("C22:read-panic:{}", vh::core::panic_site(&p)), format!("read panicked: {p}"))),
        Ok(Err(e)) => Err(Fail::new(format!("read:{}", err_variant(&e)), format!("{e}"))),
        Ok(Ok(r)) => Ok(r),
    }
}

fn judge(run: &Run, env: &Env, c: &Case) -> CaseResult {
    let spec = fix_spec(&c.spec);
    let gd: GenDef = defgen::expand_with(&spec, &opts());
    let ai = c.asset as usize % ASSETS.len();
    let (alabel, mime, _) = ASSETS[ai];
    let src = &env.assets[ai];
    let hops = 1 + (c.hops % 3);
    if std::env::var("VERIF_DUMP").is_ok() {
        let mut t = gd.json.to_string();
        t.truncate(6000);
        eprintln!("definition: {t}\nintent: {:?}\nstream ingredients: {:?}\nresources: {:?}", gd.intent, gd.stream_ingredients.iter().map(|p| (&p.source, p.json.to_string())).collect::<Vec<_>>(), gd.resources.iter().map(|r| (&r.0, r.1.len())).collect::<Vec<_>>());
    }
    run.count(&format!("asset_{alabel}"));
    run.count(&format!("hops_{hops}"));
    run.count(&format!("route_{}", ["with_archive", "reader_into_builder", "alternating"][(c.route % 3) as usize]));
    run.count(if c.thumbs { "thumbnails_on" } else { "thumbnails_off" });
    for f in &gd.features {
        run.count(&format!("def_{f}"));
    }

    // ---- original builder, signed directly -----------------------------------------------------------
    let mut a = match gd.builder(ctx(c), &gd.json) {
        Ok(b) => b,
        Err(e) => {
            run.count("generator_rejected");
            return Err(Fail::new(format!("C22:definition-rejected:{}", err_variant(&e)), format!("{e}")));
        }
    };
    let ra = match sign_and_read(c, &mut a, mime, src) {
        Ok(r) => r,
        Err(f) if f.signature.starts_with("C22:") => return Err(f),
        Err(f) => {
            // the direct signature failing is C03's subject; here it only means there is nothing to compare
            if std::env::var("VERIF_DUMP").is_ok() {
                eprintln!("direct sign/read failed: {} {}\ncase: {}", f.signature, f.what, serde_json::to_string(c).unwrap_or_default());
            }
            run.count(&format!("skipped_direct_{}", f.signature));
            return Ok(());
        }
    };
    if !sdk::is_valid_or_trusted(&ra) {
        run.count("skipped_direct_read_invalid");
        return Ok(());
    }
    // non-trivial: an ingredient with a manifest, or at least one resource (supplied, or generated thumbnails)
    if gd.has_signed_ingredient() || !gd.resources.is_empty() || ra.active_manifest().map(|m| !resource_refs(m).is_empty()).unwrap_or(false) {
        run.nontrivial(c);
    }

    // ---- identical builder through the archive hops --------------------------------------------------
    let mut b = gd.builder(ctx(c), &gd.json).map_err(|e| Fail::new("C22:second-builder-rejected", format!("{e}")))?;
    for hop in 0..hops {
        let mut ar = Cursor::new(Vec::new());
        match vh::catch(|| b.to_archive(&mut ar)) {
            Err(p) => return Err(Fail::new(format!("C22:to-archive-panic:{}", vh::core::panic_site(&p)), format!("to_archive panicked: {p}"))),
            Ok(Err(e)) => {
                if hop > 0 && matches!(e, c2pa::Error::AssertionRedactionNotFound) && !gd.expect.redactions.is_empty() {
                    return Err(Fail::new(
                        "C22:redactions-break-restored-builder",
                        format!("definition with redactions {:?}: after {hop} archive hop(s) the restored builder cannot be archived again: {e}", gd.expect.redactions),
                    ));
                }
                if hop > 0 && matches!(e, c2pa::Error::ResourceNotFound(_)) && format!("{e}").contains("c2pa.databoxes/") && gd.expect.claim_version == 1 {
                    return Err(Fail::new(
                        "C22:v1-databox-resource-lost-after-restore",
                        format!("claim v1 definition with resources: after {hop} archive hop(s) the restored builder cannot be archived again: {e}"),
                    ));
                }
                let msg = format!("{e}");
                if hop > 0
                    && matches!(e, c2pa::Error::ResourceNotFound(_))
                    && (msg.contains("c2pa.assertions/c2pa.icon") || msg.contains("c2pa.assertions/c2pa.thumbnail.claim"))
                    && gd.expect.ingredients.is_empty()
                {
                    return Err(Fail::new(
                        "C22:manifest-resources-unresolvable-without-ingredient",
                        format!("definition with a claim thumbnail / generator icon resource and no ingredient: after {hop} archive hop(s) the restored builder cannot be archived again: {e}"),
                    ));
                }
                return Err(Fail::new(
                    format!("C22:to-archive-failed:{}", err_variant(&e)),
                    format!("to_archive (hop {hop}) failed although the same builder signs fine: {e}"),
                ))
            }
            Ok(Ok(())) => {}
        }
        let bytes = ar.into_inner();
        b = match vh::catch(|| restore(c, hop, bytes)) {
            Err(p) => return Err(Fail::new(format!("C22:restore-panic:{}", vh::core::panic_site(&p)), format!("restore panicked: {p}"))),
            Ok(Err(e)) => {
                return Err(Fail::new(
                    format!("C22:restore-failed:{}", err_variant(&e)),
                    format!("restoring the archive written by to_archive (hop {hop}) failed: {e}"),
                ))
            }
            Ok(Ok(b)) => b,
        };
    }
    let rb = match sign_and_read(c, &mut b, mime, src) {
        Ok(r) => r,
        Err(f) if f.signature.starts_with("C22:") => return Err(f),
        Err(f) => {
            if f.signature == "sign:AssertionRedactionNotFound" && !gd.expect.redactions.is_empty() {
                return Err(Fail::new(
                    "C22:redactions-break-restored-builder",
                    format!("definition with redactions {:?}: the original builder signs, the builder restored after {hops} archive hop(s) fails to sign: {}", gd.expect.redactions, f.what),
                ));
            }
            if f.signature == "sign:ResourceNotFound"
                && (f.what.contains("c2pa.assertions/c2pa.icon") || f.what.contains("c2pa.assertions/c2pa.thumbnail.claim"))
                && gd.expect.ingredients.is_empty()
            {
                return Err(Fail::new(
                    "C22:manifest-resources-unresolvable-without-ingredient",
                    format!("definition with a claim thumbnail / generator icon resource and no ingredient: the original builder signs, the builder restored after {hops} archive hop(s) fails to sign: {}", f.what),
                ));
            }
            if f.signature == "sign:ResourceNotFound" && f.what.contains("c2pa.databoxes") && gd.expect.claim_version == 1 {
                return Err(Fail::new(
                    "C22:v1-databox-resource-lost-after-restore",
                    format!("claim v1 definition with ingredient resources: the original builder signs, the builder restored after {hops} archive hop(s) fails to sign: {}", f.what),
                ));
            }
            return Err(Fail::new(
                format!("C22:restored-{}", f.signature.replace(':', "-failed:")),
                format!("the original builder signs and reads fine, the restored one does not: {}", f.what),
            ))
        }
    };

    compare_readers(run, env, &gd, hops, &ra, &rb)
}

/// Compare the read-back of the directly signed builder (`ra`) with the read-back of the builder that went
/// through the archive (`rb`).
fn compare_readers(run: &Run, env: &Env, gd: &GenDef, hops: u8, ra: &Reader, rb: &Reader) -> CaseResult {
    let (ra, rb) = (ra, rb);
    // ---- compare ---------------------------------------------------------------------------------------
    // A recognised low-severity difference is remembered and normalised away so that the rest of the
    // comparison still runs; it is reported at the end if nothing else differs.
    let mut minor: Option<Fail> = None;
    let (va, vb) = (verdict_norm(ra), verdict_norm(rb));
    if va != vb {
        let list = |v: &Value| -> Vec<String> { v["codes"].as_array().map(|a| a.iter().filter_map(|x| x.as_str().map(String::from)).collect()).unwrap_or_default() };
        let (mut la, lb) = (list(&va), list(&vb));
        let mut extra_b = vec![];
        for c in lb {
            if let Some(p) = la.iter().position(|x| *x == c) {
                la.remove(p);
            } else {
                extra_b.push(c);
            }
        }
        let is_thumb = |c: &String| c.starts_with("S:assertion.hashedURI.match") && c.contains("c2pa.assertions/c2pa.thumbnail.ingredient");
        let same_state = va["state"] == vb["state"];
        if same_state && la.is_empty() && !extra_b.is_empty() && extra_b.iter().all(is_thumb) {
            minor = Some(Fail::new(
                "C22:ingredient-thumbnail-copied-after-restore",
                format!(
                    "the restored+signed manifest carries {} extra c2pa.thumbnail.ingredient assertion(s): an ingredient that referenced its own manifest's claim thumbnail now references a copy embedded in the active manifest",
                    extra_b.len()
                ),
            ));
        } else if same_state && extra_b.is_empty() && !la.is_empty() && la.iter().all(is_thumb) {
            minor = Some(Fail::new(
                "C22:ingredient-thumbnail-lost-after-restore",
                format!(
                    "{} c2pa.thumbnail.ingredient assertion(s) of the directly signed manifest are missing after the archive round trip (thumbnail of an ingredient that has a manifest of its own)",
                    la.len()
                ),
            ));
        } else {
            let d = defgen::first_diff(&va, &vb, "").unwrap_or_default();
            return Err(Fail::new(
                "C22:verdict-differs",
                format!("validation verdict original vs restored differs at {d}: only in original {la:?}, only in restored {extra_b:?}"),
            ));
        }
    }
    let (mut ja, mut jb) = (report(ra), report(rb));
    if env.selftest == 1 {
        // corrupt the restored report: the check must notice
        if let Some(m) = jb["manifests"].as_object_mut().and_then(|m| m.values_mut().next()) {
            m["title"] = json!("corrupted-by-selftest");
        }
    }
    if minor.is_some() {
        for j in [&mut ja, &mut jb] {
            drop_thumb_copy_traces(j);
        }
    }
    // validation_results / status live in the same report; they are compared with everything else, and
    // separately first so that the signature says which part differs
    let take = |j: &mut Value, k: &str| j.as_object_mut().and_then(|m| m.remove(k)).unwrap_or(Value::Null);
    let (vra, vrb) = (take(&mut ja, "validation_results"), take(&mut jb, "validation_results"));
    let (vsa, vsb) = (take(&mut ja, "validation_status"), take(&mut jb, "validation_status"));
    let (sta, stb) = (take(&mut ja, "validation_state"), take(&mut jb, "validation_state"));
    if sta != stb {
        return Err(Fail::new("C22:state-differs", format!("validation_state {sta} vs {stb}")));
    }
    // Instance numbers of repeated labels are assigned in insertion order; a restored builder re-inserts the
    // assertions in *reported* order (created before gathered), so `x` / `x__1` can swap between two assertions
    // with equal label and unchanged data and order.  Like URNs these are SDK-assigned identifiers: counted,
    // then compared without the instance member.
    {
        let inst = |j: &Value| -> Vec<Value> {
            j["manifests"].as_object().map(|m| m.values().flat_map(|x| x["assertions"].as_array().cloned().unwrap_or_default()).map(|a| a["instance"].clone()).collect()).unwrap_or_default()
        };
        if inst(&ja) != inst(&jb) {
            run.count("note_instance_numbers_reassigned");
        }
        for j in [&mut ja, &mut jb] {
            if let Some(m) = j["manifests"].as_object_mut() {
                for x in m.values_mut() {
                    if let Some(a) = x["assertions"].as_array_mut() {
                        for e in a {
                            if let Some(o) = e.as_object_mut() {
                                o.remove("instance");
                            }
                        }
                    }
                }
            }
        }
    }
    // created/gathered attribution, from the typed accessors
    {
        let list = |r: &Reader| -> Vec<(String, Value, bool)> {
            r.active_manifest()
                .map(|m| {
                    m.assertions()
                        .iter()
                        // actions carry run-specific hashed URIs: label and attribution only
                        .map(|a| (a.label().to_string(), if a.label().starts_with("c2pa.actions") || a.label().starts_with("c2pa.hash.") { Value::Null } else { a.value().cloned().unwrap_or(Value::Null) }, a.created()))
                        .collect()
                })
                .unwrap_or_default()
        };
        let (la, lb) = (list(ra), list(rb));
        // multiset equality under JSON equivalence, with or without the created flag
        let multiset_eq = |with_created: bool| -> bool {
            if la.len() != lb.len() {
                return false;
            }
            let mut used = vec![false; lb.len()];
            la.iter().all(|x| {
                match (0..lb.len()).find(|j| !used[*j] && lb[*j].0 == x.0 && (!with_created || lb[*j].2 == x.2) && defgen::json_equiv(&lb[*j].1, &x.1)) {
                    Some(j) => {
                        used[j] = true;
                        true
                    }
                    None => false,
                }
            })
        };
        let same_sequence = la.len() == lb.len() && la.iter().zip(&lb).all(|(x, y)| x.0 == y.0 && x.2 == y.2 && defgen::json_equiv(&x.1, &y.1));
        let mixed_created_on_one_label = gd.expect.assertions.iter().any(|a| a.created && gd.expect.assertions.iter().any(|b| !b.created && b.label == a.label));
        if multiset_eq(false) && (!multiset_eq(true) || (!same_sequence && mixed_created_on_one_label)) {
            return Err(Fail::new(
                "C22:gathered-assertion-becomes-created",
                format!(
                    "same assertions (label, data) but the created/gathered attribution (and with it the order) changed after the archive round trip: original {:?}, restored {:?}; supplied created flags {:?}",
                    la.iter().map(|x| (x.0.as_str(), x.2)).collect::<Vec<_>>(),
                    lb.iter().map(|x| (x.0.as_str(), x.2)).collect::<Vec<_>>(),
                    gd.expect.assertions.iter().map(|a| (a.label.as_str(), a.created)).collect::<Vec<_>>()
                ),
            ));
        }
    }
    if std::env::var("VERIF_DUMP").is_ok() {
        for (n, r) in [("original", ra), ("restored", rb)] {
            if let Some(m) = r.active_manifest() {
                eprintln!("{n}: {:?}", m.assertions().iter().map(|a| format!("{}#{}{}", a.label(), a.instance(), if a.created() { "(created)" } else { "" })).collect::<Vec<_>>());
            }
        }
    }
    let mut diff = defgen::first_diff(&ja, &jb, "");
    if let Some(d) = &diff {
        // claim v1 flavour of the recognised thumbnail differences (data boxes have no hashedURI status entry,
        // so the verdicts agree and the difference first shows up in the ingredient's thumbnail reference)
        if minor.is_none() && d.contains("/ingredients/") && d.contains("/thumbnail") {
            let lost = d.contains("missing on the right");
            minor = Some(Fail::new(
                if lost { "C22:ingredient-thumbnail-lost-after-restore" } else { "C22:ingredient-thumbnail-copied-after-restore" },
                format!("ingredient thumbnail reference original vs restored: {d}"),
            ));
            for j in [&mut ja, &mut jb] {
                drop_thumb_copy_traces(j);
            }
            diff = defgen::first_diff(&ja, &jb, "");
        }
    }
    if let Some(d) = &diff {
        if d.ends_with("/alg: \"sha384\" vs \"sha256\"") || d.ends_with("/alg: \"sha512\" vs \"sha256\"") {
            // recognised (hash_alg is not restored): remember, blank the alg members, keep comparing
            if minor.is_none() {
                minor = Some(Fail::new(
                    "C22:hash-alg-lost-after-restore",
                    format!("definition.hash_alg {:?} is not restored from the archive: the restored builder hashes with sha256 ({d})", gd.expect.hash_alg),
                ));
            }
            for j in [&mut ja, &mut jb] {
                sdk::blank_keys(j, &["alg"]);
            }
            diff = defgen::first_diff(&ja, &jb, "");
        }
    }
    if let Some(d) = diff {
        let part = ["title", "assertions", "ingredients", "redactions", "claim_generator_info", "thumbnail", "label", "format", "instance_id"]
            .iter()
            .find(|p| d.contains(&format!("/{p}")))
            .copied()
            .unwrap_or("other");
        return Err(Fail::new(
            format!("C22:report-differs:{part}"),
            format!("manifest report original vs restored ({hops} hop(s)) differs at {d}"),
        ));
    }
    // status lists are reported in assertion-store order, which follows the (reassigned) instance numbers:
    // compare them as multisets
    fn sort_status(v: &mut Value) {
        match v {
            Value::Array(a) => {
                a.iter_mut().for_each(sort_status);
                if a.iter().all(|x| x.get("code").is_some()) {
                    a.sort_by_key(|x| x.to_string());
                }
            }
            Value::Object(m) => m.values_mut().for_each(sort_status),
            _ => {}
        }
    }
    let (mut vra, mut vrb, mut vsa, mut vsb) = (vra, vrb, vsa, vsb);
    for v in [&mut vra, &mut vrb, &mut vsa, &mut vsb] {
        sort_status(v);
    }
    if let Some(d) = defgen::first_diff(&vra, &vrb, "").or_else(|| defgen::first_diff(&vsa, &vsb, "")) {
        return Err(Fail::new(
            "C22:validation-results-differ",
            format!("validation results original vs restored differ at {d}"),
        ));
    }

    // claim hash algorithm (visible in the detailed report only)
    let claim_alg = |r: &Reader| -> String {
        let d: Value = serde_json::from_str(&r.detailed_json()).unwrap_or(Value::Null);
        d["manifests"][r.active_label().unwrap_or("")]["claim"]["alg"].as_str().unwrap_or("").to_string()
    };
    let (alg_a, alg_b) = (claim_alg(ra), claim_alg(rb));
    if alg_a != alg_b && minor.is_none() {
        minor = Some(Fail::new(
            "C22:hash-alg-lost-after-restore",
            format!("definition.hash_alg {:?}: claim alg of the directly signed manifest is {alg_a:?}, after the archive round trip {alg_b:?}", gd.expect.hash_alg),
        ));
    }

    // ---- resources ---------------------------------------------------------------------------------------
    let (Some(ma), Some(mb)) = (ra.active_manifest(), rb.active_manifest()) else {
        return Err(Fail::new("C22:no-active-manifest", "a read-back has no active manifest"));
    };
    let (fa, fb) = (resource_refs(ma), resource_refs(mb));
    let (fa, fb): (Vec<_>, Vec<_>) = if minor.is_some() {
        // recognised thumbnail difference: ingredient thumbnails are compared only where both sides have one
        let keep = |x: &(String, String, String), other: &Vec<(String, String, String)>| !x.0.ends_with(" thumbnail") || !x.0.starts_with("ingredient") || other.iter().any(|y| y.0 == x.0);
        (fa.iter().filter(|x| keep(x, &fb)).cloned().collect(), fb.iter().filter(|x| keep(x, &fa)).cloned().collect())
    } else {
        (fa, fb)
    };
    if fa.len() != fb.len() {
        return Err(Fail::new(
            "C22:resource-set-differs",
            format!("original reports {} resource references, restored {}: {:?} vs {:?}", fa.len(), fb.len(), fa.iter().map(|x| &x.0).collect::<Vec<_>>(), fb.iter().map(|x| &x.0).collect::<Vec<_>>()),
        ));
    }
    let mut n_res = 0;
    for (x, y) in fa.iter().zip(&fb) {
        if x.0 != y.0 || x.1 != y.1 {
            return Err(Fail::new("C22:resource-set-differs", format!("resource {:?} ({}) vs {:?} ({})", x.0, x.1, y.0, y.1)));
        }
        let ba = fetch(ra, &x.2);
        let mut bb = fetch(rb, &y.2);
        if env.selftest == 2 && (x.0 == "claim thumbnail" || x.0.ends_with(" icon")) {
            // sensitivity: answer a manifest-level resource with an ingredient's resource bytes
            if let Some(other) = fb.iter().find(|z| z.0.starts_with("ingredient") && z.0.ends_with(" thumbnail")) {
                bb = fetch(rb, &other.2);
            }
        }
        match (ba, bb) {
            (Ok(p), Ok(q)) => {
                if p != q {
                    if std::env::var("VERIF_DUMP").is_ok() {
                        eprintln!("resource {}: original id {} -> {} bytes {:02x?}; restored id {} -> {} bytes {:02x?}", x.0, x.2, p.len(), &p[..p.len().min(24)], y.2, q.len(), &q[..q.len().min(24)]);
                        eprintln!("all refs restored: {fb:?}");
                    }
                    if gd.expect.claim_version == 1 && y.2.contains("c2pa.databoxes/") && q.len() > 8 && &q[4..8] == b"jumb" {
                        return Err(Fail::new(
                            "C22:v1-databox-resource-returns-manifest-store",
                            format!("{}: after restore the reported identifier {} makes Reader::resource_to_stream return a {}-byte JUMBF manifest store instead of the {}-byte resource", x.0, y.2, q.len(), p.len()),
                        ));
                    }
                    return Err(Fail::new(
                        "C22:resource-bytes-differ",
                        format!("{}: {} bytes in the original, {} bytes (different content) after restore", x.0, p.len(), q.len()),
                    ));
                }
                // supplied bytes, where the harness supplied them
                let supplied = gd.expect.resources.iter().find(|r| match &r.kind {
                    ResKind::ClaimThumbnail => x.0 == "claim thumbnail",
                    ResKind::GeneratorIcon(i) => x.0 == format!("claim generator #{i} icon"),
                    ResKind::IngredientThumbnail(i) => x.0 == format!("ingredient #{i} thumbnail"),
                    ResKind::IngredientData(i) => x.0 == format!("ingredient #{i} data"),
                });
                if let Some(s) = supplied {
                    if s.bytes != q {
                        return Err(Fail::new(
                            "C22:resource-not-as-supplied",
                            format!("{}: supplied {} bytes, retrieved {} bytes (different content)", x.0, s.bytes.len(), q.len()),
                        ));
                    }
                    run.count("resource_checked_against_supplied");
                }
                n_res += 1;
            }
            (Ok(_), Err(e)) => {
                return Err(Fail::new(
                    "C22:resource-lost-after-restore",
                    format!("{} ({}) is retrievable from the original but not after restore: {e}", x.0, y.2),
                ))
            }
            (Err(e), Ok(_)) => run.count(&format!("note_resource_only_after_restore:{e}")),
            (Err(_), Err(_)) => run.count("note_resource_unretrievable_in_both"),
        }
    }
    run.count_n("resources_compared", n_res);
    for s in &gd.expect.resources {
        let name = match &s.kind {
            ResKind::ClaimThumbnail => "claim thumbnail".to_string(),
            ResKind::GeneratorIcon(i) => format!("claim generator #{i} icon"),
            ResKind::IngredientThumbnail(i) => format!("ingredient #{i} thumbnail"),
            ResKind::IngredientData(i) => format!("ingredient #{i} data"),
        };
        if !fb.iter().any(|x| x.0 == name) {
            return Err(Fail::new(
                "C22:supplied-resource-not-reported",
                format!("{name} was supplied as a resource but the restored+signed manifest has no reference to it"),
            ));
        }
    }

    if gd.has_signed_ingredient() {
        run.count("with_signed_ingredient");
    }
    match minor {
        Some(f) => Err(f),
        None => Ok(()),
    }
}

/// Remove what the recognised "ingredient thumbnail copied" difference leaves in a report: the success
/// entries for the extra `c2pa.thumbnail.ingredient` assertions and the ingredient thumbnail identifiers.
fn drop_thumb_copy_traces(v: &mut Value) {
    match v {
        Value::Array(a) => {
            a.retain(|x| !(x["code"] == "assertion.hashedURI.match" && x["url"].as_str().map(|u| u.contains("c2pa.thumbnail.ingredient")).unwrap_or(false)));
            a.iter_mut().for_each(drop_thumb_copy_traces);
        }
        Value::Object(m) => {
            let is_ingredient = m.contains_key("relationship");
            for (k, x) in m.iter_mut() {
                if !(is_ingredient && k == "thumbnail") {
                    drop_thumb_copy_traces(x);
                }
            }
            if is_ingredient {
                m.remove("thumbnail");
            }
        }
        _ => {}
    }
}

// ---- extra stream: write_ingredient_archive -> add_ingredient_from_archive --------------------------------

#[derive(Clone, Debug, Serialize, Deserialize, PartialEq, Eq, Hash)]
struct ICase {
    /// 0 unsigned PNG, 1 unsigned WebP, 2 C.jpg, 3 CA.jpg, 4.. harness-signed kinds
    src: u8,
    /// false componentOf, true inputTo
    input_to: bool,
    title: u8,
    thumbs: bool,
    alg: u8,
    asset: u8,
}

/// Oracle: adding an ingredient directly from its stream and adding it through an ingredient archive written
/// by another builder (same JSON, same stream) give the same reported manifest after signing.
fn judge_ingredient_archive(run: &Run, env: &Env, c: &ICase) -> CaseResult {
    let src = match c.src % 7 {
        0 => defgen::IngSource::Unsigned("libpng-test.png".into(), "image/png".into()),
        1 => defgen::IngSource::Unsigned("test.webp".into(), "image/webp".into()),
        2 => defgen::IngSource::SignedFixture("C.jpg".into(), "image/jpeg".into()),
        3 => defgen::IngSource::SignedFixture("CA.jpg".into(), "image/jpeg".into()),
        k => defgen::IngSource::HarnessSigned(k - 4),
    };
    run.count(&format!("ingarchive_src_{}", c.src % 7));
    let Some((imime, ibytes)) = defgen::ingredient_bytes(&src) else { return Ok(()) };
    let title = match c.title % 3 {
        0 => "archived ingredient.png".to_string(),
        1 => "成分 🎨 é.png".to_string(),
        _ => "\"quoted\" <tag> & more".to_string(),
    };
    let ing_json = json!({ "title": title, "relationship": if c.input_to { "inputTo" } else { "componentOf" }, "label": "verif_ing_1" }).to_string();
    let case = Case { asset: c.asset, alg: c.alg, hops: 0, route: 0, thumbs: c.thumbs, spec: DefSpec::default() };
    let mut st = settings(&case);
    sdk::merge(&mut st, &json!({ "builder": { "generate_c2pa_archive": true } }));
    let mk = || -> c2pa::Result<Builder> {
        let mut b = Builder::from_context(sdk::context_with(&st)).with_definition(sdk::simple_definition("ingredient archive host").to_string())?;
        b.set_intent(c2pa::BuilderIntent::Create(c2pa::DigitalSourceType::Empty));
        Ok(b)
    };
    let ai = c.asset as usize % 3; // png, jpeg, webp
    let (_, mime, _) = ASSETS[ai];
    let host = &env.assets[ai];

    // direct
    let mut y1 = mk().map_err(|e| Fail::new("C22:ingarchive-setup", format!("{e}")))?;
    if let Err(e) = y1.add_ingredient_from_stream(ing_json.clone(), &imime, &mut Cursor::new(ibytes.clone())) {
        run.count(&format!("skipped_ingredient_rejected_{}", err_variant(&e)));
        return Ok(());
    }
    let ra = match sign_and_read(&case, &mut y1, mime, host) {
        Ok(r) => r,
        Err(f) if f.signature.starts_with("C22:") => return Err(f),
        Err(f) => {
            run.count(&format!("skipped_direct_{}", f.signature));
            return Ok(());
        }
    };
    // through an ingredient archive written by another builder
    let mut x = mk().map_err(|e| Fail::new("C22:ingarchive-setup", format!("{e}")))?;
    x.add_ingredient_from_stream(ing_json.clone(), &imime, &mut Cursor::new(ibytes.clone()))
        .map_err(|e| Fail::new("C22:ingarchive-setup", format!("second add_ingredient_from_stream failed: {e}")))?;
    let mut ar = Cursor::new(Vec::new());
    match vh::catch(|| x.write_ingredient_archive("verif_ing_1", &mut ar)) {
        Err(p) => return Err(Fail::new(format!("C22:write-ingredient-archive-panic:{}", vh::core::panic_site(&p)), p)),
        Ok(Err(e)) => return Err(Fail::new(format!("C22:write-ingredient-archive-failed:{}", err_variant(&e)), format!("{e}"))),
        Ok(Ok(())) => {}
    }
    let mut y2 = mk().map_err(|e| Fail::new("C22:ingarchive-setup", format!("{e}")))?;
    match vh::catch(|| y2.add_ingredient_from_archive(&mut Cursor::new(ar.into_inner())).map(|_| ())) {
        Err(p) => return Err(Fail::new(format!("C22:add-ingredient-from-archive-panic:{}", vh::core::panic_site(&p)), p)),
        Ok(Err(e)) => {
            return Err(Fail::new(
                format!("C22:add-ingredient-from-archive-failed:{}", err_variant(&e)),
                format!("archive written by write_ingredient_archive is not accepted: {e}"),
            ))
        }
        Ok(Ok(())) => {}
    }
    let rb = match sign_and_read(&case, &mut y2, mime, host) {
        Ok(r) => r,
        Err(f) if f.signature.starts_with("C22:") => return Err(f),
        Err(f) => {
            return Err(Fail::new(
                format!("C22:ingarchive-{}", f.signature.replace(':', "-failed:")),
                format!("host with the ingredient added directly signs, with the ingredient added from its archive it does not: {}", f.what),
            ))
        }
    };
    let gd = defgen::expand_with(&DefSpec::default(), &opts());
    if matches!(src, defgen::IngSource::SignedFixture(..) | defgen::IngSource::HarnessSigned(_)) || c.thumbs {
        run.nontrivial(c);
    }
    compare_readers(run, env, &gd, 1, &ra, &rb).map_err(|f| {
        // the two recognised ingredient-thumbnail differences are the same defects on this route
        if f.signature.starts_with("C22:ingredient-thumbnail-") {
            Fail::new(f.signature, format!("(ingredient archive route) {}", f.what))
        } else {
            Fail::new(f.signature.replace("C22:", "C22:ingarchive:"), f.what)
        }
    })
}

// ---- stream: same-label resources in the builder and in an SDK-signed (v2) ingredient ---------------------

/// Ingredient assets signed by the harness with this SDK (claim v2) that carry their OWN claim thumbnail
/// (`c2pa.thumbnail.claim`) and/or claim generator icon (`c2pa.icon`) — the same assertion labels (and
/// instance 0) an outer builder with a thumbnail/icon uses, with different bytes.
/// kind bit 0: thumbnail, bit 1: icon (kind 1..=3); the bytes depend on `variant` (two different ingredients).
fn rich_ingredient(kind: u8, variant: u8) -> (String, Vec<u8>) {
    static CACHE: std::sync::Mutex<Vec<((u8, u8), Vec<u8>)>> = std::sync::Mutex::new(Vec::new());
    let key = (kind, variant);
    let mut g = CACHE.lock().unwrap();
    if let Some(e) = g.iter().find(|e| e.0 == key) {
        return ("image/png".into(), e.1.clone());
    }
    let mut r = vh::rng::SplitMix64::new(0x51C0_0000 + kind as u64 * 16 + variant as u64);
    let mut def = json!({
        "title": format!("rich-ingredient-{kind}-{variant}.png"),
        "claim_generator_info": [{ "name": "verif-rich-ingredient-maker", "version": "1.0" }],
        "assertions": [ { "label": "org.verif.note", "data": { "note": "rich ingredient", "kind": kind, "variant": variant } } ]
    });
    let mut b_res: Vec<(String, Vec<u8>)> = vec![];
    if kind & 1 != 0 {
        let mut t = vec![0xFF, 0xD8, 0xFF, 0xE0, 0x00, 0x10, b'J', b'F', b'I', b'F', 0x00];
        t.extend(r.bytes(700 + 97 * variant as usize));
        t.extend(b"INGREDIENT-THUMBNAIL");
        t.extend([0xFF, 0xD9]);
        def["thumbnail"] = json!({ "format": "image/jpeg", "identifier": "rich-thumb.jpg" });
        b_res.push(("rich-thumb.jpg".into(), t));
    }
    if kind & 2 != 0 {
        let icon = format!("<svg xmlns=\"http://www.w3.org/2000/svg\"><!-- INGREDIENT ICON {kind}/{variant} {} --></svg>", r.next_u64()).into_bytes();
        def["claim_generator_info"][0]["icon"] = json!({ "format": "image/svg+xml", "identifier": "rich-icon.svg" });
        b_res.push(("rich-icon.svg".into(), icon));
    }
    let mut b = Builder::from_context(sdk::context()).with_definition(def.to_string()).expect("rich ingredient definition");
    b.set_intent(c2pa::BuilderIntent::Create(c2pa::DigitalSourceType::DigitalCapture));
    for (id, bytes) in b_res {
        b.add_resource(&id, Cursor::new(bytes)).expect("rich ingredient resource");
    }
    let signer = sdk::signer(if variant % 2 == 0 { "es256" } else { "ps384" });
    let mut src = Cursor::new(sdk::fixture("libpng-test.png"));
    let mut dst = Cursor::new(Vec::new());
    b.sign(signer.as_ref(), "image/png", &mut src, &mut dst).expect("rich ingredient signature");
    let bytes = dst.into_inner();
    g.push((key, bytes.clone()));
    ("image/png".into(), bytes)
}

#[derive(Clone, Debug, Serialize, Deserialize, PartialEq, Eq, Hash)]
struct SCase {
    asset: u8,
    alg: u8,
    hops: u8,
    route: u8,
    /// outer builder: bit 0 claim thumbnail, bit 1 generator icon (1..=3)
    outer: u8,
    /// rich ingredients: kinds (1..=3 each), 1 or 2 of them
    rich: Vec<u8>,
    /// 0 none, 1 unsigned PNG stream, 2 C.jpg, 3 JSON-only — an additional ordinary ingredient
    other: u8,
    /// the ordinary ingredient comes first (true) or last
    other_first: bool,
    /// one rich ingredient is the parentOf ingredient of an Edit intent
    edit: bool,
    seed: u64,
}

fn judge_same_label(run: &Run, env: &Env, c: &SCase) -> CaseResult {
    use defgen::{ExpIngredient, ExpResource, Expectation, IntentKind};
    let mut r = vh::rng::SplitMix64::new(c.seed ^ 0x5A3E_1ABE);
    let case = Case { asset: c.asset, alg: c.alg, hops: c.hops, route: c.route, thumbs: false, spec: DefSpec::default() };
    let ai = c.asset as usize % ASSETS.len();
    let (alabel, mime, _) = ASSETS[ai];
    let src = &env.assets[ai];
    let hops = 1 + (c.hops % 3);
    let outer = if c.outer % 4 == 0 { 1 } else { c.outer % 4 };
    run.count(&format!("samelabel_asset_{alabel}"));
    run.count(&format!("samelabel_hops_{hops}"));
    run.count(&format!("samelabel_outer_{}", ["", "thumbnail", "icon", "thumbnail+icon"][outer as usize]));

    // ---- outer definition with its own thumbnail / icon (bytes differ from every ingredient's) -----------
    let mut exp = Expectation { claim_version: 2, ..Expectation::default() };
    let mut resources: Vec<(String, Vec<u8>)> = vec![];
    let mut cgi = json!({ "name": "verif-outer", "version": "2.0" });
    let mut def = json!({
        "title": format!("outer {}", r.below(100000)),
        "assertions": [ { "label": "org.verif.outer", "data": { "n": r.below(1000), "text": "outer assertion" } } ]
    });
    if outer & 1 != 0 {
        let mut t = vec![0xFF, 0xD8, 0xFF, 0xE0, 0x00, 0x10, b'J', b'F', b'I', b'F', 0x00];
        let tn = 300 + r.usize(3000);
        t.extend(r.bytes(tn));
        t.extend(b"OUTER-THUMBNAIL");
        t.extend([0xFF, 0xD9]);
        def["thumbnail"] = json!({ "format": "image/jpeg", "identifier": "outer-thumb.jpg" });
        resources.push(("outer-thumb.jpg".into(), t.clone()));
        exp.resources.push(ExpResource { kind: ResKind::ClaimThumbnail, format: "image/jpeg".into(), bytes: t });
    }
    if outer & 2 != 0 {
        let icon = format!("<svg xmlns=\"http://www.w3.org/2000/svg\"><!-- OUTER ICON {} --></svg>", r.next_u64()).into_bytes();
        cgi["icon"] = json!({ "format": "image/svg+xml", "identifier": "outer-icon.svg" });
        resources.push(("outer-icon.svg".into(), icon.clone()));
        exp.resources.push(ExpResource { kind: ResKind::GeneratorIcon(0), format: "image/svg+xml".into(), bytes: icon });
    }
    def["claim_generator_info"] = json!([cgi]);

    // ---- ingredient plan ---------------------------------------------------------------------------------
    // (json, Some((mime, bytes)) for stream ingredients / None for a definition ingredient)
    let mut plan: Vec<(Value, Option<(String, Vec<u8>)>, bool)> = vec![];
    let mut same_label = false;
    for (i, k) in c.rich.iter().take(2).enumerate() {
        let kind = if k % 4 == 0 { 3 } else { k % 4 };
        if kind & outer != 0 {
            same_label = true;
        }
        let rel = if c.edit && i == 0 { "parentOf" } else if r.chance(1, 4) { "inputTo" } else { "componentOf" };
        let j = json!({ "title": format!("rich {i} kind {kind}"), "relationship": rel, "label": format!("rich_{i}") });
        plan.push((j, Some(rich_ingredient(kind, i as u8)), true));
        run.count(&format!("samelabel_rich_kind_{}", ["", "thumbnail", "icon", "thumbnail+icon"][kind as usize]));
    }
    let other = match c.other % 4 {
        1 => Some((json!({ "title": "plain.png", "relationship": "componentOf" }), Some(("image/png".to_string(), sdk::fixture("libpng-test.png"))), false)),
        2 => Some((json!({ "title": "C.jpg", "relationship": "componentOf" }), Some(("image/jpeg".to_string(), sdk::fixture("C.jpg"))), true)),
        3 => Some((json!({ "title": "json only", "relationship": "componentOf", "format": "image/png", "instance_id": "xmp:iid:verif-json-only" }), None, false)),
        _ => None,
    };
    if let Some(o) = other {
        if c.other_first {
            plan.insert(0, o);
        } else {
            plan.push(o);
        }
    }
    // definition ingredients are reported first
    let json_only: Vec<Value> = plan.iter().filter(|p| p.1.is_none()).map(|p| p.0.clone()).collect();
    if !json_only.is_empty() {
        def["ingredients"] = json!(json_only);
    }
    for p in plan.iter().filter(|p| p.1.is_none()).chain(plan.iter().filter(|p| p.1.is_some())) {
        exp.ingredients.push(ExpIngredient {
            title: p.0["title"].as_str().map(String::from),
            format: None,
            relationship: p.0["relationship"].as_str().unwrap_or("componentOf").to_string(),
            has_manifest: p.2,
            description: None,
            informational_uri: None,
        });
    }
    if same_label {
        run.count("same_label_resource_in_ingredient");
    }
    let intent = if c.edit { IntentKind::Edit } else { IntentKind::Create("http://c2pa.org/digitalsourcetype/empty".into()) };
    let gd = GenDef { json: def, intent, expect: exp, features: vec![], stream_ingredients: vec![], resources, boundary: 0 };

    let make = || -> c2pa::Result<Builder> {
        let mut b = gd.builder(ctx(&case), &gd.json)?;
        for p in &plan {
            if let Some((m, bytes)) = &p.1 {
                b.add_ingredient_from_stream(p.0.to_string(), m, &mut Cursor::new(bytes.clone()))?;
            }
        }
        Ok(b)
    };
    let mut a = make().map_err(|e| Fail::new(format!("C22:samelabel-setup:{}", err_variant(&e)), format!("{e}")))?;
    let ra = sign_and_read(&case, &mut a, mime, src).map_err(|f| {
        if f.signature.starts_with("C22:") { f } else { Fail::new(format!("C22:samelabel-direct-{}", f.signature.replace(':', "-failed:")), f.what) }
    })?;
    if !sdk::is_valid_or_trusted(&ra) {
        return Err(Fail::new("C22:samelabel-direct-invalid", format!("directly signed builder reads {:?}", sdk::failure_codes(&ra))));
    }
    let mut b = make().map_err(|e| Fail::new(format!("C22:samelabel-setup:{}", err_variant(&e)), format!("{e}")))?;
    for hop in 0..hops {
        let mut ar = Cursor::new(Vec::new());
        match vh::catch(|| b.to_archive(&mut ar)) {
            Err(p) => return Err(Fail::new(format!("C22:to-archive-panic:{}", vh::core::panic_site(&p)), p)),
            Ok(Err(e)) => return Err(Fail::new(format!("C22:samelabel-to-archive-failed:{}", err_variant(&e)), format!("hop {hop}: {e}"))),
            Ok(Ok(())) => {}
        }
        b = match vh::catch(|| restore(&case, hop, ar.into_inner())) {
            Err(p) => return Err(Fail::new(format!("C22:restore-panic:{}", vh::core::panic_site(&p)), p)),
            Ok(Err(e)) => return Err(Fail::new(format!("C22:samelabel-restore-failed:{}", err_variant(&e)), format!("hop {hop}: {e}"))),
            Ok(Ok(b)) => b,
        };
    }
    let rb = sign_and_read(&case, &mut b, mime, src).map_err(|f| {
        if f.signature.starts_with("C22:") { f } else { Fail::new(format!("C22:samelabel-restored-{}", f.signature.replace(':', "-failed:")), format!("the original builder signs and reads fine, the restored one does not: {}", f.what)) }
    })?;
    run.nontrivial(c);
    compare_readers(run, env, &gd, hops, &ra, &rb)
}

fn main() {
    vh::quiet_panics();
    let run = Run::from_args("C22", "exploration");
    run.set_rule("case = (small fixture asset, generated definition [vh::defgen: assertions incl. repeated labels / actions / metadata, JSON-only, unsigned, fixture-signed and harness-signed ingredients, redactions, claim thumbnail / ingredient thumbnail / ingredient data / generator icon resources], signing alg, 1-3 archive hops, restore route with_archive | Reader::into_builder | alternating, thumbnails on/off). Two identical builders: one signed directly, one signed after the hops; read-backs compared after cross-run normalisation. Non-trivial = at least one ingredient with a manifest or at least one resource.");
    run.assume("Edit intents carry an explicit parentOf ingredient (to_archive cannot derive one from a source stream); Update manifests are left to C21");
    run.assume("two signing runs legitimately differ in manifest URNs, instance ids, times, hashes/signatures: normalised away (vh::sdk::report_cross_run + xmp:iid renaming)");
    run.assume("the restored builder is signed as restored (no intent re-applied): the archived claim already carries the inception action");
    let selftest: u8 = std::env::var("VERIF_SELFTEST").ok().and_then(|s| s.parse().ok()).unwrap_or(0);
    let env = Env { assets: ASSETS.iter().map(|a| sdk::fixture(a.2)).collect(), selftest };

    let n = run.scale(80u32, 2000u32);
    let strat = (0u8..5, 0u8..7, 0u8..3, 0u8..3, any::<bool>(), 0u8..6, defgen::spec_strategy(opts())).prop_map(
        |(asset, alg, hops, route, thumbs, boost, mut spec)| {
            // raise the share of non-trivial cases: ingredients and resources
            if boost % 2 == 0 {
                spec.n_ingredients = spec.n_ingredients.max(1 + boost / 2 % 3);
            }
            if boost % 3 != 0 {
                spec.resources = spec.resources.max(1 + boost % 2);
            }
            if boost == 5 {
                spec.thumb = 1;
            }
            // keep the triggers of already recognised defects rare so that they do not mask the rest:
            // generator icon (restored builder cannot sign), redactions (ditto), icon + sha384/512 (C03 finding)
            if spec.n_ingredients == 0 && (spec.resources == 2 || spec.thumb == 1) && spec.seed % 4 != 0 {
                spec.n_ingredients = 1;
            }
            if spec.redact && spec.seed % 3 != 0 {
                spec.redact = false;
            }
            if spec.resources == 2 && spec.hash_alg >= 2 {
                spec.hash_alg = 1;
            }
            // the mp4 fixture is 800 KB: keep it rare
            let asset = if asset == 4 && boost != 0 { 0 } else { asset };
            Case { asset, alg, hops, route, thumbs, spec }
        },
    );
    run.drive_par("archive_roundtrip", n, 8, strat, |c| judge(&run, &env, c));

    // extra stream (enumerated): ingredient archives
    let mut icases = vec![];
    for src in 0..7u8 {
        for thumbs in [false, true] {
            for input_to in [false, true] {
                for k in 0..run.scale(1u8, 6u8) {
                    icases.push(ICase { src, input_to, title: (src + k) % 3, thumbs, alg: (src + 2 * k) % 7, asset: (src + k) % 3 });
                }
            }
        }
    }
    run.drive_enum_par("ingredient_archive", icases, 8, |c| judge_ingredient_archive(&run, &env, c));

    // stream: same-label manifest-level resources in the builder and in SDK-signed v2 ingredients
    {
        let n = run.scale(60u64, 600u64);
        let mut sm = vh::rng::SplitMix64::new(run.seed ^ 0x5A3E);
        let mut scases = vec![];
        for i in 0..n {
            // systematic part: outer kind x rich kind x hops x route rotate, the rest is seeded
            let outer = 1 + (i % 3) as u8;
            let k0 = 1 + ((i / 3) % 3) as u8;
            let two = sm.chance(1, 3);
            let rich = if two { vec![k0, 1 + sm.usize(3) as u8] } else { vec![k0] };
            scases.push(SCase {
                asset: if sm.chance(1, 12) { 4 } else { sm.usize(4) as u8 },
                alg: sm.usize(7) as u8,
                hops: ((i / 9) % 3) as u8,
                route: ((i / 27) % 3) as u8,
                outer,
                rich,
                other: sm.usize(4) as u8,
                other_first: sm.bool(),
                edit: sm.chance(1, 4),
                seed: sm.next_u64(),
            });
        }
        run.drive_enum_par("same_label_resources", scases, 8, |c| judge_same_label(&run, &env, c));
    }

    let rejected = run.hist_get("generator_rejected");
    let evals = run.evals().max(1);
    if rejected * 20 > evals {
        run.inconclusive(format!("{rejected} of {evals} generated definitions were rejected (> 5 %): the generator is wrong"));
    }
    run.finish();
}
