//! C07 — embedding round trip: write, read, replace and remove manifest stores.
//!
//! Model-based check. State = `Option<Vec<u8>>` (the store the asset should carry). A case is
//! (container kind, start asset, op sequence of `write(store)` / `remove`). After every `write(s)` the SDK's
//! reader must return exactly `s` **and** the independent container walker (`vh::walk`, no SDK parsing code)
//! must find exactly one manifest container holding exactly `s`; after every `remove` the reader must answer
//! `JumbfNotFound`, the walker must find no container, and a probe write of a fresh store must succeed and
//! read back (the handler still accepts the asset).
//!
//! Store byte strings: class A = JUMBF superbox with the complete C2PA description box (what every caller
//! passes; `vh::assets::fake_store`, >= 38 bytes) — strict. Class B = anything else (raw bytes, truncated
//! frames of 29..37 bytes, superbox with a wrong LBox or a foreign description UUID) — judged only by
//! "the read returns exactly the bytes written, or some step returns an error".

use std::{
    collections::BTreeMap,
    sync::atomic::{AtomicU64, Ordering},
};

use proptest::prelude::*;
use serde::{Deserialize, Serialize};
use serde_json::json;
use vh::{assets, rng::SplitMix64, walk, CaseResult, Fail, Run};

const WORK: &str = "/verif/work/C07";

#[derive(Clone, Debug, Serialize, Deserialize, PartialEq, Eq, Hash)]
enum AssetSrc {
    /// `synth_default(kind)`
    Default,
    /// `synth(kind, rng(seed), size)`
    Fresh { seed: u64, size: usize },
    /// `synth_with_store(kind, rng(seed), size, fake_store(slen, rng(seed ^ 0x51)))`
    WithStore { seed: u64, size: usize, slen: usize },
    /// repository fixture (file name under sdk/tests/fixtures)
    Fixture { name: String },
}

#[derive(Clone, Debug, Serialize, Deserialize, PartialEq, Eq, Hash)]
enum Op {
    Write { len: usize, seed: u64 },
    Remove,
}

#[derive(Clone, Debug, Serialize, Deserialize, PartialEq, Eq, Hash)]
struct Case {
    kind: String,
    asset: AssetSrc,
    /// stores of this case are class B (not a well-formed store frame): judged by "exact or error" only
    class_b: bool,
    /// use the file based public API (`save_jumbf_to_file` / `remove_jumbf_from_file`) instead of the memory one
    via_file: bool,
    ops: Vec<Op>,
}

fn is_bmff(kind: &str) -> bool {
    walk::family(kind) == Some("bmff")
}

/// Smallest class A store for a kind (complete description box; BMFF: + 8 bytes, see the toolkit guide).
fn min_a(kind: &str) -> usize {
    if is_bmff(kind) {
        46
    } else {
        38
    }
}

/// Class A store of `len` bytes (clamped to the smallest class A length).
fn store_a(kind: &str, len: usize, seed: u64) -> Vec<u8> {
    assets::fake_store(len.max(min_a(kind)), &mut SplitMix64::new(seed ^ 0xA11CE))
}

/// Class B byte string: four shapes, selected by the seed.
fn store_b(len: usize, seed: u64) -> Vec<u8> {
    let mut r = SplitMix64::new(seed ^ 0xB0B);
    let len = len.max(1);
    match seed % 4 {
        0 => r.bytes(len),
        1 => assets::fake_store(29 + len % 9, &mut r), // truncated description box (29..37 bytes)
        2 => {
            // superbox whose LBox does not equal the total length
            let mut v = assets::fake_store(len.max(38), &mut r);
            let wrong = (v.len() as u32).wrapping_add(1 + (seed % 7) as u32);
            v[0..4].copy_from_slice(&wrong.to_be_bytes());
            v
        }
        _ => {
            // well-formed superbox with a foreign description UUID and label
            let mut v = assets::fake_store(len.max(38), &mut r);
            v[16..20].copy_from_slice(b"xxxx");
            v[33..37].copy_from_slice(b"abcd");
            v
        }
    }
}

fn store_of(c: &Case, len: usize, seed: u64) -> Vec<u8> {
    if c.class_b {
        store_b(len, seed)
    } else {
        store_a(&c.kind, len, seed)
    }
}

/// Store lengths at which a handler changes its layout (kind specific) — "hard" boundaries: a length within
/// +-2 of one of them makes a case non-trivial.
fn hard_boundaries(kind: &str, id3: &BTreeMap<String, Vec<usize>>) -> Vec<usize> {
    let mut v: Vec<usize> = vec![65_535, 65_536];
    match walk::family(kind).unwrap_or("") {
        // jpeg_io.rs: MAX_JPEG_MARKER_SIZE = 64000 store bytes per APP11 segment (store_bytes.chunks(64000))
        "jpeg" => v.extend([64_000, 128_000, 192_000]),
        // GIF data sub-blocks hold 255 bytes
        "gif" => v.extend([255, 510, 65_025]),
        // ID3v2.4 sync-safe 7-bit groups of the frame size and of the tag size
        "mp3" | "flac" => v.extend(id3.get(kind).cloned().unwrap_or_default()),
        _ => {}
    }
    v.retain(|b| *b >= 40 && *b <= 200_000);
    v.sort();
    v.dedup();
    v
}

/// Stratified list of interesting store lengths for a kind, ascending.
fn length_list(kind: &str, id3: &BTreeMap<String, Vec<usize>>) -> Vec<usize> {
    let mut v: Vec<usize> = vec![38, 39, 40, 41, 46, 47, 48, 100, 101, 254, 255, 256, 257, 999, 1000, 1001, 1002, 4095, 4096, 4097, 16_383, 16_384, 16_385, 70_000, 199_999, 200_000];
    for b in hard_boundaries(kind, id3) {
        for d in -2i64..=2 {
            v.push((b as i64 + d) as usize);
        }
    }
    v.retain(|l| *l >= min_a(kind) && *l <= 200_000);
    v.sort();
    v.dedup();
    v
}

fn near_boundary(len: usize, hard: &[usize]) -> bool {
    hard.iter().any(|b| len + 2 >= *b && len <= *b + 2)
}

struct Built {
    bytes: Vec<u8>,
    store: Option<Vec<u8>>,
    desc: String,
}

fn build_asset(kind: &str, a: &AssetSrc) -> Result<Built, String> {
    let b = match a {
        AssetSrc::Default => {
            let s = assets::synth_default(kind);
            Built { bytes: s.bytes, store: None, desc: s.desc }
        }
        AssetSrc::Fresh { seed, size } => {
            let s = assets::synth(kind, &mut SplitMix64::new(*seed), *size);
            Built { bytes: s.bytes, store: None, desc: s.desc }
        }
        AssetSrc::WithStore { seed, size, slen } => {
            let st = assets::fake_store((*slen).max(min_a(kind)), &mut SplitMix64::new(*seed ^ 0x51));
            let s = assets::synth_with_store(kind, &mut SplitMix64::new(*seed), *size, &st);
            Built { bytes: s.bytes, store: Some(st), desc: s.desc }
        }
        AssetSrc::Fixture { name } => {
            let bytes = std::fs::read(format!("{}/{}", vh::sdk::FIXTURES, name)).map_err(|e| format!("fixture {name}: {e}"))?;
            Built { bytes, store: None, desc: format!("fixture {name}") }
        }
    };
    if kind == assets::SIDECAR && b.store.is_none() {
        // a sidecar *is* a store
        let st = b.bytes.clone();
        return Ok(Built { store: if st.is_empty() { None } else { Some(st) }, ..b });
    }
    Ok(b)
}

/// Number of logical manifest containers the walker sees (JPEG: the APP11 segments of one JUMBF box instance are
/// one container; the walker itself refuses a second box instance / chunk / frame with a "more than one" error).
fn logical_containers(kind: &str, spans: &[(usize, usize)]) -> usize {
    if walk::family(kind) == Some("jpeg") {
        usize::from(!spans.is_empty())
    } else {
        spans.len()
    }
}

static FILE_NO: AtomicU64 = AtomicU64::new(0);

fn tmp_path(ext: &str) -> std::path::PathBuf {
    let n = FILE_NO.fetch_add(1, Ordering::SeqCst);
    std::path::PathBuf::from(format!("{WORK}/a{n}.{ext}"))
}

/// `Ok(Ok(bytes))` written asset, `Ok(Err(e))` handler error, `Err(p)` panic.
fn sdk_write(fmt: &str, ext: &str, via_file: bool, asset: &[u8], store: &[u8]) -> Result<Result<Vec<u8>, String>, String> {
    vh::catch(|| {
        if via_file {
            let p = tmp_path(ext);
            std::fs::write(&p, asset).map_err(|e| format!("harness io: {e}"))?;
            let r = c2pa::jumbf_io::save_jumbf_to_file(store, &p, Some(&p));
            let out = std::fs::read(&p);
            let _ = std::fs::remove_file(&p);
            r.map_err(|e| format!("{e:?}"))?;
            out.map_err(|e| format!("harness io: {e}"))
        } else {
            c2pa::jumbf_io::save_jumbf_to_memory(fmt, asset, store).map_err(|e| format!("{e:?}"))
        }
    })
}

fn sdk_remove(fmt: &str, ext: &str, via_file: bool, asset: &[u8]) -> Result<Result<Vec<u8>, String>, String> {
    vh::catch(|| {
        if via_file {
            let p = tmp_path(ext);
            std::fs::write(&p, asset).map_err(|e| format!("harness io: {e}"))?;
            let r = c2pa::jumbf_io::remove_jumbf_from_file(&p);
            let out = std::fs::read(&p);
            let _ = std::fs::remove_file(&p);
            r.map_err(|e| format!("{e:?}"))?;
            out.map_err(|e| format!("harness io: {e}"))
        } else {
            c2pa::verif_hooks::remove_manifest(fmt, asset).map_err(|e| format!("{e:?}"))
        }
    })
}

enum Loaded {
    Store(Vec<u8>),
    NotFound,
    OtherErr(String),
    Panic(String),
}

static SELFTEST: std::sync::OnceLock<String> = std::sync::OnceLock::new();

fn sdk_load(fmt: &str, asset: &[u8]) -> Loaded {
    match vh::catch(|| c2pa::jumbf_io::load_jumbf_from_memory(fmt, asset)) {
        Err(p) => Loaded::Panic(p),
        Ok(Ok(mut v)) => {
            // Sensitivity self-test (VERIF_SELFTEST=jpeg-split): pretend the JPEG reader loses the first byte of
            // the second APP11 segment, i.e. an off-by-one at the 64000-byte split.
            if SELFTEST.get().map(|s| s == "jpeg-split").unwrap_or(false) && fmt == "image/jpeg" && v.len() > 64_000 {
                v.remove(64_000);
            }
            Loaded::Store(v)
        }
        Ok(Err(c2pa::Error::JumbfNotFound)) => Loaded::NotFound,
        Ok(Err(e)) => Loaded::OtherErr(format!("{e:?}")),
    }
}

/// Signature of a panic inside a write / remove. The BMFF handler shifts *every* absolute offset (stco / co64 /
/// iloc / ...) by the size delta of the C2PA box, also offsets of data located before the box; when the box
/// shrinks and such an offset is smaller than the delta the subtraction overflows (one defect, many panic sites).
fn panic_sig(kind: &str, op: &str, p: &str) -> String {
    if is_bmff(kind) && p.contains("bmff_io.rs") && p.contains("subtract with overflow") {
        format!("C07:bmff-offset-underflow-panic:{op}")
    } else {
        format!("C07:{op}-panic:{kind}:{}", vh::core::panic_site(p))
    }
}

fn short(e: &str) -> String {
    e.chars().take(160).collect()
}

fn diff_at(a: &[u8], b: &[u8]) -> String {
    let n = a.len().min(b.len());
    let first = (0..n).find(|i| a[*i] != b[*i]).unwrap_or(n);
    format!("lengths {} vs {}, first difference at {}", a.len(), b.len(), first)
}

/// Strict checks after a class A write produced `out`: reader exact, walker exact, one container.
fn check_written(kind: &str, fmt: &str, out: &[u8], s: &[u8], ctx: &str) -> CaseResult {
    match sdk_load(fmt, out) {
        Loaded::Store(v) if v == s => {}
        Loaded::Store(v) => {
            return Err(Fail::new(
                format!("C07:read-differs:{kind}"),
                format!("{ctx}: load_jumbf_from_memory returns other bytes than the store written ({})", diff_at(&v, s)),
            ))
        }
        Loaded::NotFound => return Err(Fail::new(format!("C07:read-notfound-after-write:{kind}"), format!("{ctx}: write succeeded but load_jumbf_from_memory says JumbfNotFound"))),
        Loaded::OtherErr(e) => return Err(Fail::new(format!("C07:read-error-after-write:{kind}"), format!("{ctx}: write succeeded but load_jumbf_from_memory fails: {}", short(&e)))),
        Loaded::Panic(p) => return Err(Fail::new(format!("C07:read-panic:{kind}:{}", vh::core::panic_site(&p)), format!("{ctx}: load_jumbf_from_memory panics: {p}"))),
    }
    match walk::extract_store(kind, out) {
        Err(e) if e.contains("more than one") => return Err(Fail::new(format!("C07:multiple-containers:{kind}"), format!("{ctx}: independent walker: {e}"))),
        Err(e) => return Err(Fail::new(format!("C07:output-malformed:{kind}"), format!("{ctx}: independent walker cannot parse the written asset: {e}"))),
        Ok(None) => return Err(Fail::new(format!("C07:walker-finds-no-store:{kind}"), format!("{ctx}: independent walker finds no manifest container in the written asset"))),
        Ok(Some(v)) if v != s => {
            return Err(Fail::new(
                format!("C07:walker-store-differs:{kind}"),
                format!("{ctx}: the container located by the independent walker holds other bytes than the store written ({})", diff_at(&v, s)),
            ))
        }
        Ok(Some(_)) => {}
    }
    let spans = walk::manifest_spans(kind, out).map_err(|e| Fail::new(format!("C07:output-malformed:{kind}"), format!("{ctx}: {e}")))?;
    let n = logical_containers(kind, &spans);
    if n != 1 {
        return Err(Fail::new(format!("C07:multiple-containers:{kind}"), format!("{ctx}: independent walker finds {n} manifest containers at {spans:?}")));
    }
    Ok(())
}

/// Strict checks after `remove` produced `out`.
fn check_removed(kind: &str, fmt: &str, out: &[u8], ctx: &str) -> CaseResult {
    match sdk_load(fmt, out) {
        Loaded::NotFound => {}
        Loaded::Store(v) => {
            return Err(Fail::new(
                format!("C07:remove-keeps-manifest:{kind}"),
                format!("{ctx}: after remove load_jumbf_from_memory still returns a {}-byte store", v.len()),
            ))
        }
        Loaded::OtherErr(e) => return Err(Fail::new(format!("C07:read-error-after-remove:{kind}"), format!("{ctx}: after remove load fails with {} instead of JumbfNotFound", short(&e)))),
        Loaded::Panic(p) => return Err(Fail::new(format!("C07:read-panic:{kind}:{}", vh::core::panic_site(&p)), format!("{ctx}: load after remove panics: {p}"))),
    }
    match walk::manifest_spans(kind, out) {
        Err(e) => return Err(Fail::new(format!("C07:output-malformed:{kind}"), format!("{ctx}: independent walker cannot parse the asset after remove: {e}"))),
        Ok(sp) if !sp.is_empty() => return Err(Fail::new(format!("C07:remove-leaves-container:{kind}"), format!("{ctx}: independent walker still finds a manifest container at {sp:?} after remove"))),
        Ok(_) => {}
    }
    Ok(())
}

struct Env {
    hard: BTreeMap<String, Vec<usize>>,
}

fn judge(run: &Run, env: &Env, c: &Case) -> CaseResult {
    let kind = c.kind.as_str();
    let (fmt, ext) = assets::kind_format(kind);
    let sidecar = kind == assets::SIDECAR;
    let built = match vh::catch(|| build_asset(kind, &c.asset)) {
        Ok(Ok(b)) => b,
        Ok(Err(e)) => {
            run.count("generator_rejected");
            run.note(format!("generator_rejected {kind} {:?}: {e}", c.asset));
            return Ok(());
        }
        Err(p) => {
            run.count("generator_rejected");
            run.note(format!("generator_rejected {kind} {:?}: synthesiser panic {p}", c.asset));
            return Ok(());
        }
    };
    let mut cur = built.bytes;
    let mut model: Option<Vec<u8>> = built.store;
    // the start asset must be what the generator says it is (otherwise the toolkit is at fault, not the SDK)
    match walk::extract_store(kind, &cur) {
        Ok(w) if w == model => {}
        other => {
            run.count("generator_rejected");
            run.count(&format!("generator_rejected:{kind}:walker-initial"));
            run.note(format!("generator_rejected {kind} {:?} ({}): walker on the start asset: {:?}", c.asset, built.desc, other.map(|o| o.map(|v| v.len()))));
            return Ok(());
        }
    }
    if let Some(m) = &model {
        if !matches!(sdk_load(fmt, &cur), Loaded::Store(v) if &v == m) {
            // a pre-embedded store the reader does not return: reading foreign layouts is C11/C09 territory
            run.count("generator_rejected");
            run.count(&format!("generator_rejected:{kind}:prestore-unreadable"));
            run.note(format!("generator_rejected {kind} {:?} ({}): SDK does not read the pre-embedded store", c.asset, built.desc));
            return Ok(());
        }
    }
    let asset_class = match &c.asset {
        AssetSrc::Default => "default",
        AssetSrc::Fresh { .. } => "fresh",
        AssetSrc::WithStore { .. } => "with-store",
        AssetSrc::Fixture { .. } => "fixture",
    };
    run.count(&format!("asset:{asset_class}"));
    run.count(&format!("kind:{kind}"));
    run.count(if c.class_b { "class:B" } else { "class:A" });
    run.count(if c.via_file { "api:file" } else { "api:memory" });

    let hard = env.hard.get(kind).cloned().unwrap_or_default();
    let mut nontrivial = false;
    let mut prev_op = "start";
    let mut sdk_touched = false; // `cur` is the output of an SDK operation
    for (i, op) in c.ops.iter().enumerate() {
        match op {
            Op::Write { len, seed } => {
                let s = store_of(c, *len, *seed);
                let ctx = format!("{kind} op#{i} write({} bytes{}) after {prev_op}", s.len(), if c.class_b { ", class B" } else { "" });
                if near_boundary(s.len(), &hard) {
                    nontrivial = true;
                    run.count("len:near-boundary");
                }
                match &model {
                    Some(m) if m.len() != s.len() => {
                        nontrivial = true;
                        run.count("op:write-after-write-other-length");
                    }
                    Some(_) => run.count("op:write-after-write-same-length"),
                    None if prev_op == "remove" => {
                        nontrivial = true;
                        run.count("op:write-after-remove");
                    }
                    None => run.count("op:write-on-fresh"),
                }
                let out = match sdk_write(fmt, ext, c.via_file, &cur, &s) {
                    Err(p) => return Err(Fail::new(panic_sig(kind, "write", &p), format!("{ctx} on {:?} ({}): panic {p}", c.asset, short(&built.desc)))),
                    Ok(Err(e)) => {
                        if e.starts_with("harness io") {
                            run.inconclusive(format!("{ctx}: {e}"));
                            return Ok(());
                        }
                        if c.class_b {
                            run.count("classB:write-rejected");
                            prev_op = "rejected-write";
                            continue;
                        }
                        if !sdk_touched {
                            // the handler refuses a synthesised / fixture asset: the generator's fault by convention
                            run.count("generator_rejected");
                            run.count(&format!("generator_rejected:{kind}:write"));
                            run.note(format!("generator_rejected {ctx} on {:?} ({}): {}", c.asset, built.desc, short(&e)));
                            return Ok(());
                        }
                        return Err(Fail::new(format!("C07:write-fails-after-{prev_op}:{kind}"), format!("{ctx}: the handler rejects its own output: {}", short(&e))));
                    }
                    Ok(Ok(o)) => o,
                };
                if c.class_b {
                    // exact or error, nothing else
                    match sdk_load(fmt, &out) {
                        Loaded::Store(v) if v == s => {
                            run.count("classB:roundtrip-exact");
                            cur = out;
                            model = Some(s);
                            sdk_touched = true;
                            prev_op = "write";
                        }
                        Loaded::Store(v) => {
                            return Err(Fail::new(
                                format!("C07:classB-read-differs:{kind}"),
                                format!("{ctx}: the handler accepted a malformed store (shape {}) but reads back other bytes ({})", seed % 4, diff_at(&v, &s)),
                            ))
                        }
                        Loaded::Panic(p) => return Err(Fail::new(format!("C07:read-panic:{kind}:{}", vh::core::panic_site(&p)), format!("{ctx}: load panics: {p}"))),
                        Loaded::NotFound | Loaded::OtherErr(_) => {
                            run.count("classB:accepted-then-read-error");
                            // the asset now carries something the reader refuses: stop the sequence here
                            return Ok(());
                        }
                    }
                    continue;
                }
                check_written(kind, fmt, &out, &s, &ctx)?;
                run.count("step:write-verified");
                cur = out;
                model = Some(s);
                sdk_touched = true;
                prev_op = "write";
            }
            Op::Remove => {
                if sidecar {
                    // a sidecar is nothing but the store; "remove" has no asset to leave behind
                    run.count("op:remove-skipped-sidecar");
                    continue;
                }
                let ctx = format!("{kind} op#{i} remove after {prev_op} (model: {})", model.as_ref().map(|m| format!("{}-byte store", m.len())).unwrap_or("none".into()));
                run.count(if model.is_some() { "op:remove-with-store" } else { "op:remove-without-store" });
                let out = match sdk_remove(fmt, ext, c.via_file, &cur) {
                    Err(p) => return Err(Fail::new(panic_sig(kind, "remove", &p), format!("{ctx} on {:?} ({}): panic {p}", c.asset, short(&built.desc)))),
                    Ok(Err(e)) => {
                        if e.starts_with("harness io") {
                            run.inconclusive(format!("{ctx}: {e}"));
                            return Ok(());
                        }
                        if !sdk_touched {
                            run.count("generator_rejected");
                            run.count(&format!("generator_rejected:{kind}:remove"));
                            run.note(format!("generator_rejected {ctx} on {:?} ({}): {}", c.asset, built.desc, short(&e)));
                            return Ok(());
                        }
                        return Err(Fail::new(format!("C07:remove-fails-after-{prev_op}:{kind}"), format!("{ctx}: the handler rejects its own output: {}", short(&e))));
                    }
                    Ok(Ok(o)) => o,
                };
                if c.class_b {
                    // class B sequences are judged on writes only
                    match sdk_load(fmt, &out) {
                        Loaded::NotFound => {
                            cur = out;
                            model = None;
                            sdk_touched = true;
                            prev_op = "remove";
                            continue;
                        }
                        _ => {
                            run.count("classB:remove-not-clean");
                            return Ok(());
                        }
                    }
                }
                check_removed(kind, fmt, &out, &ctx)?;
                // still accepted: a probe write succeeds and reads back (result not carried on)
                let probe = store_a(kind, 100 + i, 0xFEED ^ i as u64);
                let pctx = format!("{ctx}, then probe write({} bytes)", probe.len());
                match sdk_write(fmt, ext, false, &out, &probe) {
                    Err(p) => return Err(Fail::new(panic_sig(kind, "write", &p), format!("{pctx}: panic {p}"))),
                    Ok(Err(e)) => return Err(Fail::new(format!("C07:asset-rejected-after-remove:{kind}"), format!("{pctx}: {}", short(&e)))),
                    Ok(Ok(po)) => check_written(kind, fmt, &po, &probe, &pctx)?,
                }
                run.count("step:remove-verified");
                cur = out;
                model = None;
                sdk_touched = true;
                prev_op = "remove";
            }
        }
    }
    if nontrivial && !c.class_b {
        run.nontrivial(c);
    }
    Ok(())
}

// ---------------------------------------------------------------------------------------------------------
// generation
// ---------------------------------------------------------------------------------------------------------

fn fixtures_of(kind: &str, quick: bool) -> Vec<String> {
    let mut v = vec![];
    for (k, _, f) in vh::sdk::writable_fixtures() {
        if k == kind && !f.is_empty() {
            let sz = std::fs::metadata(format!("{}/{}", vh::sdk::FIXTURES, f)).map(|m| m.len()).unwrap_or(0);
            if sz > 0 && (!quick || sz <= 1_100_000) {
                v.push(f.to_string());
            }
        }
    }
    v
}

fn seq_strategy(kind: String, lens: Vec<usize>, fixtures: Vec<String>) -> impl Strategy<Value = Case> {
    let nl = lens.len();
    let op = (0u8..10, 0u8..20, 0usize..nl.max(1), 0usize..1963, 0usize..68_000, 0usize..130_001, 0u64..4096);
    let asset = (0u8..12, 0u64..100_000, 0u8..8, 0usize..3000);
    (asset, 0u8..8, 0u8..4, proptest::collection::vec(op, 1..=5)).prop_map(move |((asel, aseed, asize, aslen), classsel, apisel, rops)| {
        let size = match asize {
            0..=3 => 0, // the synthesiser's own default range
            4 => 40,
            5 => 1,
            6 => 20_000,
            _ => 60_000,
        };
        let asset = match asel {
            0 | 1 => AssetSrc::Default,
            2..=5 => AssetSrc::Fresh { seed: aseed, size },
            6..=9 => AssetSrc::WithStore { seed: aseed, size, slen: 38 + aslen },
            _ => {
                if fixtures.is_empty() {
                    AssetSrc::Fresh { seed: aseed, size }
                } else {
                    AssetSrc::Fixture { name: fixtures[aseed as usize % fixtures.len()].clone() }
                }
            }
        };
        let class_b = classsel == 7;
        let ops = rops
            .into_iter()
            .map(|(osel, lsel, li, small, medium, large, seed)| {
                if osel >= 7 {
                    Op::Remove
                } else {
                    let len = match lsel {
                        0..=7 => lens[li % nl.max(1)],
                        8..=15 => 38 + small,
                        16..=18 => 2000 + medium,
                        _ => 70_000 + large,
                    };
                    Op::Write { len: if class_b { len.min(70_000) } else { len }, seed }
                }
            })
            .collect();
        Case { kind: kind.clone(), asset, class_b, via_file: apisel == 3, ops }
    })
}

/// Single-length sweep cases: a fresh write of `len`, and a replacement of a store of another length by `len`.
fn sweep_cases(kind: &str, lens: impl Iterator<Item = usize>) -> Vec<Case> {
    let mut v = vec![];
    for len in lens {
        let len = len.max(min_a(kind));
        let seed = (len as u64).wrapping_mul(0x9E37_79B9) >> 7;
        v.push(Case { kind: kind.into(), asset: AssetSrc::Default, class_b: false, via_file: false, ops: vec![Op::Write { len, seed }] });
        let prior = if len % 2 == 0 { len + 5 } else { len.saturating_sub(5).max(min_a(kind)) };
        v.push(Case {
            kind: kind.into(),
            asset: AssetSrc::Default,
            class_b: false,
            via_file: false,
            ops: vec![Op::Write { len: prior, seed: seed ^ 1 }, Op::Write { len, seed }],
        });
    }
    v
}

/// File-API replacement by a store one byte longer / shorter (both parities): `save_jumbf_to_file` first tries the
/// handler's in-place patch path, whose size test is exactly where an off-by-one (e.g. a RIFF pad byte) would hide.
fn adjacent_file_cases(kind: &str, lens: impl Iterator<Item = usize>) -> Vec<Case> {
    let mut v = vec![];
    for len in lens {
        let len = len.max(min_a(kind));
        let seed = (len as u64).wrapping_mul(0x51_7C_C1B7) >> 5;
        for (a, b) in [(len, len + 1), (len + 1, len), (len, len)] {
            v.push(Case {
                kind: kind.into(),
                asset: AssetSrc::Default,
                class_b: false,
                via_file: true,
                ops: vec![Op::Write { len: a, seed: seed ^ 1 }, Op::Write { len: b, seed }],
            });
        }
    }
    v
}

/// ID3v2.4 stores sizes as 4 x 7 bits: find the store lengths at which the GEOB frame size and the tag size of
/// the default asset cross 2^7 and 2^14 (input selection only; measured on the SDK's own output with the walker).
fn id3_boundaries(kind: &str) -> Vec<usize> {
    let (fmt, _) = assets::kind_format(kind);
    let base = assets::synth_default(kind).bytes;
    let probe = store_a(kind, 300, 1);
    let Ok(out) = c2pa::jumbf_io::save_jumbf_to_memory(fmt, &base, &probe) else { return vec![] };
    let Ok(units) = walk::walk(kind, &out) else { return vec![] };
    let Some(m) = units.iter().find(|u| u.is_manifest) else { return vec![] };
    let frame_over = m.len - 10 - 300; // frame body bytes besides the store
    let tag_body: usize = units.iter().filter(|u| u.kind.starts_with("ID3:") || u.kind == "C2PA-GEOB" || u.kind == "ID3-padding").map(|u| u.len).sum();
    let tag_over = tag_body - 300;
    let mut v = vec![];
    for p in [128usize, 16_384] {
        for over in [frame_over, tag_over] {
            if p > over + 38 {
                v.push(p - over);
            }
        }
    }
    v
}

fn main() {
    vh::quiet_panics();
    let run = Run::from_args("C07", "exploration");
    run.set_rule("case = (container kind: the 16 synthesiser kinds + the .c2pa sidecar; start asset: simplest synthesised / random synthesised (all structure knobs) / synthesised with a pre-embedded store at a generated position / repository fixture; store class A (JUMBF superbox with complete C2PA description box, 38..200000 bytes; BMFF from 46) or B (raw bytes, truncated 29..37-byte frames, wrong LBox, foreign description UUID; 1 case in 8); API: in-memory save/load + remove hook, or (1 in 4) the file based save_jumbf_to_file / remove_jumbf_from_file; op sequence vec({write(s) 70%, remove 30%}, 1..5)). Store lengths: 40% from a per-kind stratified list (generic powers of two +-1, JPEG 64000-byte APP11 split x1..3 +-2, GIF 255-byte sub-blocks, ID3 sync-safe 2^7/2^14 frame and tag sizes +-2, 65535/65536 +-2), 40% 38..2000, 15% 2000..70000, 5% up to 200000. Plus length sweeps (one fresh write and one replacement per length on the simplest asset): quick = 38..300 and +-6 around every boundary for every kind, thorough = every length 38..70000 for JPEG/PNG/WebP/SVG and 38..20000 for the other kinds. Non-trivial (class A only) = the sequence contains a write over a store of another length, or a write after a remove, or a store length within +-2 of a kind-specific layout boundary.");
    run.assume("the independent walker (vh::walk) decides where the manifest container is and what it holds; a walker parse error on an SDK output is reported as output-malformed (strict)");
    run.assume("a handler error on the first operation applied to a synthesised or fixture asset is counted generator_rejected (not a verdict); an error on an asset the SDK itself produced is a failure");
    run.assume("class B stores (not a C2PA store frame) are judged only by: the read returns exactly the bytes written, or an error occurs; frames of 29..37 bytes cannot hold the description-box label and are class B");
    run.assume("sidecar (.c2pa): remove is skipped (a sidecar has no asset to leave behind; the stream remover writes nothing by design)");

    let _ = std::fs::remove_dir_all(WORK);
    if let Err(e) = std::fs::create_dir_all(WORK) {
        run.inconclusive(format!("cannot create {WORK}: {e}"));
        run.finish();
    }

    let mut kinds: Vec<String> = assets::KINDS.iter().map(|k| k.to_string()).collect();
    kinds.push(assets::SIDECAR.to_string());

    let mut id3: BTreeMap<String, Vec<usize>> = BTreeMap::new();
    for k in ["mp3", "flac"] {
        let b = vh::catch(|| id3_boundaries(k)).unwrap_or_default();
        if b.is_empty() {
            run.note(format!("could not measure the ID3 size boundaries for {k}"));
        }
        id3.insert(k.to_string(), b);
    }
    run.extra("id3_boundaries", json!(id3));
    let mut hard = BTreeMap::new();
    let mut lens = BTreeMap::new();
    for k in &kinds {
        hard.insert(k.clone(), hard_boundaries(k, &id3));
        lens.insert(k.clone(), length_list(k, &id3));
    }
    run.extra("hard_boundaries", json!(hard));
    let env = Env { hard: hard.clone() };
    let _ = SELFTEST.set(std::env::var("VERIF_SELFTEST").unwrap_or_default());
    if !SELFTEST.get().map(|s| s.is_empty()).unwrap_or(true) {
        run.note(format!("SELF-TEST MODE {:?}: the SDK's answers are deliberately corrupted, failures are expected", SELFTEST.get()));
    }

    // ---- random op sequences, one independent stream per kind ---------------------------------------------
    let n_seq: u32 = run.scale(1000, 4000);
    std::thread::scope(|sc| {
        for k in &kinds {
            let run = &run;
            let env = &env;
            let strat = seq_strategy(k.clone(), lens[k].clone(), fixtures_of(k, run.quick()));
            let name = format!("seq-{k}");
            sc.spawn(move || {
                run.drive(&name, n_seq, strat, |c| judge(run, env, c));
            });
        }
    });

    // ---- length sweeps -------------------------------------------------------------------------------------
    for k in &kinds {
        let cases = if run.quick() {
            let mut l: Vec<usize> = (38..=300).collect();
            for b in &hard[k] {
                l.extend(b.saturating_sub(6)..=b + 6);
            }
            l.sort();
            l.dedup();
            sweep_cases(k, l.into_iter())
        } else {
            let top = if ["jpeg", "png", "webp", "svg"].contains(&k.as_str()) { 70_000 } else { 20_000 };
            let mut l: Vec<usize> = (38..=top).collect();
            for b in &hard[k] {
                l.extend(b.saturating_sub(6)..=b + 6);
            }
            l.sort();
            l.dedup();
            sweep_cases(k, l.into_iter())
        };
        run.count_n(&format!("sweep_cases:{k}"), cases.len() as u64);
        run.drive_enum_par(&format!("sweep-{k}"), cases, 16, |c| judge(&run, &env, c));
    }
    // ---- file-API replacement by an adjacent length ---------------------------------------------------------
    for k in &kinds {
        let top = run.scale(70usize, 1200usize);
        let cases = adjacent_file_cases(k, min_a(k)..=top);
        run.count_n(&format!("adjacent_file_cases:{k}"), cases.len() as u64);
        run.drive_enum_par(&format!("adjacent-file-{k}"), cases, 8, |c| judge(&run, &env, c));
    }
    run.set_exhaustive(false);

    let rejected = run.hist_get("generator_rejected");
    let evals = run.evals().max(1);
    run.extra("generator_rejected_share", json!(rejected as f64 / evals as f64));
    if rejected * 20 > evals {
        run.inconclusive(format!("{rejected} of {evals} cases were rejected by the handlers on the start asset (> 5 %)"));
    }
    let _ = std::fs::remove_dir_all(WORK);
    run.finish();
}
