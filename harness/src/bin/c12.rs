//! C12 — hash-binding layout maps are ordered, disjoint and cover the file.
//!
//! Box map (`verif_hooks::box_map`, formats with `has_box_map`): entries in ascending `range_start`, no two entries
//! share a byte, every entry ends inside the file, at most one entry named `C2PA`, and every byte of the file that
//! is not part of the manifest container (located by the independent walker `vh::walk::manifest_spans`; for inputs
//! the walker cannot parse: the map's own `C2PA` entry) is covered by an entry.
//! Object locations (`verif_hooks::object_locations`, data hashing; every kind except BMFF, which reports none):
//! exactly one `Cai` region, inside the file (manifest-free assets: the handler reports the layout after inserting
//! a placeholder, so only "starts inside the file" can be demanded), disjoint from every non-`Cai` region reported
//! and — when the asset carries a store — containing no byte outside the manifest container found by the walker.

use proptest::prelude::*;
use serde::{Deserialize, Serialize};
use serde_json::json;
use vh::{assets, rng::SplitMix64, walk, CaseResult, Fail, Run};

const MIN_STORE: usize = 46;

#[derive(Clone, Debug, Serialize, Deserialize, PartialEq, Eq, Hash)]
struct Case {
    kind: String,
    format: String,
    seed: u64,
    size_hint: usize,
    existing: Option<usize>,
    /// generator feature asked for (substring of `Synth::desc`, found by a seed walk)
    want: String,
    /// number of structural / byte mutations applied after synthesis (each kept only if the SDK still maps the file)
    mutations: u8,
    /// spec-valid structural variant applied after synthesis, fully judged: "" | "jpeg-fill" (0xFF fill bytes in
    /// front of a marker, ITU-T T.81 B.1.1.2)
    #[serde(default)]
    tweak: String,
    /// repository fixture instead of a synthesised asset
    #[serde(default)]
    fixture: Option<String>,
    /// explicit asset bytes (regression files): overrides everything else
    #[serde(default)]
    asset_hex: Option<String>,
    /// the explicit bytes are a mutated (malformed) input: judged like a mutated case
    #[serde(default)]
    malformed: bool,
}

fn formats_of(kind: &str) -> &'static [&'static str] {
    match kind {
        "jpeg" => &["image/jpeg", "jpg", "jpeg"],
        "png" => &["image/png", "png"],
        "gif" => &["image/gif", "gif"],
        "wav" => &["audio/wav", "wav"],
        "webp" => &["image/webp", "webp"],
        "avi" => &["video/avi", "avi", "video/x-msvideo"],
        "tiff" => &["image/tiff", "tif", "dng"],
        "svg" => &["image/svg+xml", "svg"],
        "mp3" => &["audio/mpeg", "mp3"],
        "flac" => &["audio/flac", "flac"],
        "jxl" => &["image/jxl", "jxl"],
        "c2pa" => &["application/c2pa", "c2pa", "application/x-c2pa-manifest-store"],
        "mp4" => &["video/mp4"],
        "mov" => &["video/quicktime"],
        "heic" => &["image/heic"],
        "avif" => &["image/avif"],
        "m4a" => &["audio/mp4"],
        _ => &[],
    }
}

fn wants_of(kind: &str, existing: bool) -> &'static [&'static str] {
    match (kind, existing) {
        ("jpeg", _) => &["", "restart", "second-image", "trailing", "progressive", "restart", "app11-other-jumbf", "app11-short"],
        ("png", true) => &["", "trailing", "c2pa-before-IHDR", "c2pa-before-IEND", "c2pa-before-IDAT"],
        ("png", false) => &["", "trailing", "xmp"],
        ("gif", true) => &["", "plain-text", "xmp", "trailing", "gce"],
        ("gif", false) => &["", "87a", "plain-text", "xmp", "trailing", "gce"],
        ("jxl", _) => &["", "size0-last", "jxlp", "other-jumb", "xmp"],
        ("svg", _) => &["", "bom", "metadata"],
        ("mp3", _) => &["", "id3v2.3", "id3v2.4", "id3v1"],
        ("tiff", _) => &["", "3 page", "2 page", "trailing"],
        ("avi", _) => &["", "AVIX"],
        _ => &[""],
    }
}

struct Asset {
    bytes: Vec<u8>,
    desc: String,
    mutated: Vec<String>,
}

fn box_map_ok(fmt: &str, b: &[u8]) -> bool {
    matches!(vh::catch(|| c2pa::verif_hooks::box_map(fmt, b)), Ok(Ok(_)))
}

/// One structural mutation on the level of the walker's units (duplicate / swap / delete a unit, junk between units,
/// bytes after the end) or, when the walker cannot parse the current bytes, a toolkit byte mutation.
fn mutate(kind: &str, b: &[u8], regions: &[assets::Region], rng: &mut SplitMix64) -> (Vec<u8>, String) {
    let units = walk::walk(kind, b).unwrap_or_default();
    let pick_unit = |rng: &mut SplitMix64| -> Option<walk::Unit> {
        if units.len() < 2 {
            return None;
        }
        Some(units[1 + rng.usize(units.len() - 1)].clone())
    };
    match rng.below(8) {
        0 => {
            if let Some(u) = pick_unit(rng) {
                let m = assets::Mutation::Duplicate { start: u.start, len: u.len };
                return (assets::apply(b, &m), format!("duplicate unit {} @{}", u.kind, u.start));
            }
        }
        1 => {
            if units.len() >= 3 {
                let i = 1 + rng.usize(units.len() - 2);
                let j = i + 1 + rng.usize(units.len() - 1 - i);
                let (x, y) = (&units[i], &units[j]);
                let m = assets::Mutation::Swap { a_start: x.start, a_len: x.len, b_start: y.start, b_len: y.len };
                return (assets::apply(b, &m), format!("swap units {} @{} and {} @{}", x.kind, x.start, y.kind, y.start));
            }
        }
        2 => {
            if let Some(u) = pick_unit(rng) {
                let m = assets::Mutation::Delete { pos: u.start, len: u.len };
                return (assets::apply(b, &m), format!("delete unit {} @{}", u.kind, u.start));
            }
        }
        3 => {
            let k = 1 + rng.usize(24);
            let m = assets::Mutation::Append { bytes: rng.bytes(k) };
            return (assets::apply(b, &m), format!("append {k} bytes"));
        }
        4 => {
            if let Some(u) = pick_unit(rng) {
                let k = 1 + rng.usize(6);
                let fill = *rng.pick(&[0u8, 0xFF, 0x20]);
                let m = assets::Mutation::Insert { pos: u.start, bytes: vec![fill; k] };
                return (assets::apply(b, &m), format!("insert {k} x {fill:#04x} before unit {} @{}", u.kind, u.start));
            }
        }
        _ => {}
    }
    let m = assets::random_mutation(b, regions, rng);
    (assets::apply(b, &m), format!("{m:?}").chars().take(90).collect())
}

fn build(c: &Case) -> Result<Asset, String> {
    if let Some(h) = &c.asset_hex {
        return Ok(Asset { bytes: hex::decode(h).map_err(|e| format!("asset_hex: {e}"))?, desc: "explicit bytes".into(), mutated: if c.malformed { vec!["explicit malformed input".to_string()] } else { vec![] } });
    }
    let mut rng = SplitMix64::new(c.seed ^ 0xC12);
    let (mut bytes, desc, regions) = if let Some(f) = &c.fixture {
        (vh::sdk::fixture(f), format!("fixture {f}"), vec![])
    } else {
        let mut last = None;
        let tries = if c.want.is_empty() { 1 } else { 48 };
        for k in 0..tries {
            let mut r = SplitMix64::new(c.seed.wrapping_add((k as u64).wrapping_mul(0x9E37_79B9_7F4A_7C15)));
            let s = match c.existing {
                Some(n) => {
                    let store = assets::fake_store(n.max(MIN_STORE), &mut r);
                    assets::synth_with_store(&c.kind, &mut r, c.size_hint, &store)
                }
                None => assets::synth(&c.kind, &mut r, c.size_hint),
            };
            let ok = c.want.is_empty() || s.desc.contains(&c.want);
            last = Some(s);
            if ok {
                break;
            }
        }
        let s = last.unwrap();
        (s.bytes, s.desc, s.regions)
    };
    let mut desc = desc;
    if c.tweak == "jpeg-fill" {
        if let Ok(units) = walk::walk(&c.kind, &bytes) {
            let cands: Vec<&walk::Unit> = units.iter().skip(1).filter(|u| !["scan", "trailing", "fill"].contains(&u.kind.as_str()) && !u.kind.starts_with("RST")).collect();
            if !cands.is_empty() {
                let u = cands[rng.usize(cands.len())];
                let k = 1 + rng.usize(4);
                bytes.splice(u.start..u.start, std::iter::repeat(0xFFu8).take(k));
                desc = format!("{desc}, {k} fill byte(s) before {} @{}", u.kind, u.start);
            }
        }
    }
    let mut mutated = vec![];
    if c.mutations > 0 {
        for _ in 0..c.mutations {
            // keep a mutation only if the handler still maps the file (a few attempts each)
            for _ in 0..6 {
                let (cand, what) = mutate(&c.kind, &bytes, &regions, &mut rng);
                if cand != bytes && box_map_ok(&c.format, &cand) {
                    bytes = cand;
                    mutated.push(what);
                    break;
                }
            }
        }
    }
    Ok(Asset { bytes, desc, mutated })
}

fn selftest() -> u8 {
    std::env::var("VERIF_SELFTEST").ok().and_then(|v| v.parse().ok()).unwrap_or(0)
}

static MKREG: std::sync::Mutex<std::collections::BTreeMap<String, (usize, serde_json::Value)>> = std::sync::Mutex::new(std::collections::BTreeMap::new());

/// `C12_MKREG=1`: remember, per signature, the failing case with the smallest asset as explicit bytes (development
/// aid for writing regression files with concrete inputs).
fn mkreg(c: &Case, a: &Asset, f: &Fail) {
    if std::env::var("C12_MKREG").is_err() {
        return;
    }
    let mut g = MKREG.lock().unwrap();
    if g.get(&f.signature).map(|(n, _)| a.bytes.len() < *n).unwrap_or(true) {
        let case = Case { asset_hex: Some(hex::encode(&a.bytes)), fixture: None, mutations: 0, tweak: String::new(), malformed: !a.mutated.is_empty(), ..c.clone() };
        let check = if c.fixture.is_some() { "fixtures".to_string() } else { format!("layout:{}", c.kind) };
        g.insert(f.signature.clone(), (a.bytes.len(), json!({"check": check, "signature": f.signature, "what": f.what, "note": format!("{}{}", a.desc, if a.mutated.is_empty() { String::new() } else { format!("; mutated: {}", a.mutated.join(" | ")) }), "case": case})));
    }
}

fn survey() -> bool {
    std::env::var("C12_SURVEY").map(|v| v == "1").unwrap_or(false)
}

type Entry = (Vec<String>, u64, u64, Option<bool>);

fn is_c2pa(e: &Entry) -> bool {
    e.0.first().map(|n| n == "C2PA").unwrap_or(false)
}

/// Sub-intervals of `[s,e)` not covered by `spans` (sorted or not).
fn subtract(s: u64, e: u64, spans: &[(u64, u64)]) -> Vec<(u64, u64)> {
    let mut v: Vec<(u64, u64)> = spans.iter().copied().filter(|(a, b)| b > a).collect();
    v.sort();
    let mut out = vec![];
    let mut at = s;
    for (a, b) in v {
        if b <= at {
            continue;
        }
        if a >= e {
            break;
        }
        if a > at {
            out.push((at, a.min(e)));
        }
        at = at.max(b);
        if at >= e {
            break;
        }
    }
    if at < e {
        out.push((at, e));
    }
    out
}

fn unit_at(kind: &str, b: &[u8], pos: u64) -> String {
    walk::walk(kind, b).ok().and_then(|u| u.into_iter().find(|u| (u.start as u64) <= pos && pos < (u.start + u.len) as u64).map(|u| u.kind)).unwrap_or_else(|| "?".into())
}

fn judge_box_map(run: &Run, c: &Case, a: &Asset, fails: &mut Vec<Fail>) {
    let kind = c.kind.as_str();
    let b = &a.bytes;
    let len = b.len() as u64;
    let mut map: Vec<Entry> = match vh::catch(|| c2pa::verif_hooks::box_map(&c.format, b)) {
        Err(p) => {
            // robustness against malformed input is C10's subject; on an unmutated generated asset it is ours
            run.count(&format!("{kind}:boxmap:panic"));
            if a.mutated.is_empty() {
                fails.push(Fail::new(format!("C12:boxmap-panic:{}", vh::core::panic_site(&p)), format!("get_box_map panicked on a well-formed {kind}: {p} [{}]", a.desc)));
            }
            return;
        }
        Ok(Err(e)) => {
            run.count(&format!("{kind}:boxmap:err"));
            if a.mutated.is_empty() && c.fixture.is_none() && c.asset_hex.is_none() {
                run.note(format!("box_map error on generated {kind} [{}]: {e:?}", a.desc));
            }
            return;
        }
        Ok(Ok(m)) => m,
    };
    run.count(&format!("{kind}:boxmap:ok"));
    match selftest() {
        // 1: forget the last non-C2PA entry; 2: let the second entry start one byte early
        1 => {
            if let Some(i) = map.iter().rposition(|e| !is_c2pa(e) && e.2 > 0) {
                map.remove(i);
            }
        }
        2 => {
            if map.len() >= 2 && map[1].1 > 0 {
                map[1].1 -= 1;
                map[1].2 += 1;
            }
        }
        _ => {}
    }
    let names = |e: &Entry| e.0.join("+");
    let ctx = || format!("[{}{}]", a.desc, if a.mutated.is_empty() { String::new() } else { format!("; mutated: {}", a.mutated.join(" | ")) });
    // --- at most one C2PA entry
    let n_c2pa = map.iter().filter(|e| is_c2pa(e)).count();
    run.count(&format!("{kind}:boxmap:c2pa-entries:{n_c2pa}"));
    let mutated = !a.mutated.is_empty();
    // classes that only malformed (mutated) inputs show keep their own signatures
    let mal = if mutated { ":malformed-input" } else { "" };
    // --- order, overlap, bounds
    for w in map.windows(2) {
        let (x, y) = (&w[0], &w[1]);
        if y.1 < x.1 {
            fails.push(Fail::new(format!("C12:boxmap-unordered:{kind}{mal}"), format!("entry {} at {} follows entry {} at {} {}", names(y), y.1, names(x), x.1, ctx())));
            break;
        }
    }
    let mut sorted: Vec<&Entry> = map.iter().collect();
    sorted.sort_by_key(|e| (e.1, e.2));
    for w in sorted.windows(2) {
        let (x, y) = (w[0], w[1]);
        if x.2 > 0 && y.2 > 0 && x.1.saturating_add(x.2) > y.1 {
            let rst = |e: &Entry| e.0.first().map(|n| n.starts_with("RST")).unwrap_or(false);
            let sos = |e: &Entry| e.0.first().map(|n| n == "SOS").unwrap_or(false);
            let sig = if kind == "jpeg" && ((sos(x) && rst(y)) || (rst(x) && sos(y))) { "C12:jpeg-rst-overlaps-sos".to_string() } else { format!("C12:boxmap-overlap:{kind}{mal}") };
            fails.push(Fail::new(sig, format!("entries {} [{},{}) and {} [{},{}) share bytes {}", names(x), x.1, x.1 + x.2, names(y), y.1, y.1.saturating_add(y.2), ctx())));
            break;
        }
    }
    if let Some(e) = map.iter().find(|e| e.1.saturating_add(e.2) > len) {
        fails.push(Fail::new(format!("C12:boxmap-beyond-file:{kind}{mal}"), format!("entry {} [{},{}) ends after the {len}-byte file {}", names(e), e.1, e.1.saturating_add(e.2), ctx())));
    }
    // --- coverage
    let covered: Vec<(u64, u64)> = map.iter().map(|e| (e.1, e.1.saturating_add(e.2).min(len))).collect();
    let mut holes = subtract(0, len, &covered);
    if !holes.is_empty() {
        // bytes of the manifest container itself need no entry
        if let Ok(spans) = walk::manifest_spans(kind, b) {
            let m: Vec<(u64, u64)> = spans.iter().map(|(s, l)| (*s as u64, (*s + *l) as u64)).collect();
            holes = holes.into_iter().flat_map(|(s, e)| subtract(s, e, &m)).collect();
        }
    }
    if !holes.is_empty() {
        let last_end = covered.iter().map(|c| c.1).max().unwrap_or(0);
        let all: u64 = holes.iter().map(|(s, e)| e - s).sum();
        let units = if mutated { None } else { walk::walk(kind, b).ok() };
        let unit_of = |pos: u64| -> String {
            match &units {
                Some(u) => u.iter().find(|u| (u.start as u64) <= pos && pos < (u.start + u.len) as u64).map(|u| u.kind.clone()).unwrap_or_else(|| "?".into()),
                None => "?".into(),
            }
        };
        // one failure per class of hole
        let mut seen: Vec<String> = vec![];
        for (s, e) in &holes {
            let (s, e) = (*s, *e);
            let unit = unit_of(s);
            let all_ff = b[s as usize..e as usize].iter().all(|x| *x == 0xFF);
            // "trailing" is decided by the walker where it can parse the file (so that a missing entry for the
            // last real unit is not mistaken for trailing data), geometrically otherwise
            let is_trailing = if units.is_some() { unit == "trailing" } else { e == len && s >= last_end };
            let sig = if is_trailing {
                format!("C12:boxmap-trailing-bytes-uncovered:{kind}")
            } else if kind == "jpeg" && all_ff {
                format!("C12:boxmap-gap-uncovered:{kind}:fill-bytes")
            } else if mutated {
                format!("C12:boxmap-gap-uncovered:{kind}:malformed-input")
            } else {
                format!("C12:boxmap-gap-uncovered:{kind}:{unit}")
            };
            if seen.contains(&sig) {
                continue;
            }
            seen.push(sig.clone());
            fails.push(Fail::new(
                sig,
                format!("bytes [{s},{e}) (unit '{unit}') are covered by no box map entry; in all {all} byte(s) in {} interval(s) of the {len}-byte file ({} entries) are uncovered {}", holes.len(), map.len(), ctx()),
            ));
        }
    } else {
        run.count(&format!("{kind}:boxmap:covers-file"));
    }
    // --- an entry named C2PA is excluded from the hash: it must not contain bytes outside the manifest container
    // (walker-based, so only judged on well-formed assets)
    if !mutated {
        if let Ok(spans) = walk::manifest_spans(kind, b) {
            let m: Vec<(u64, u64)> = spans.iter().map(|(s, l)| (*s as u64, (*s + *l) as u64)).collect();
            for e in map.iter().filter(|e| is_c2pa(e) && e.2 > 0) {
                let extra = subtract(e.1, e.1.saturating_add(e.2).min(len), &m);
                if let Some((s, t)) = extra.first() {
                    fails.push(Fail::new(
                        format!("C12:boxmap-c2pa-entry-not-manifest:{kind}"),
                        format!("the entry named C2PA [{},{}) contains bytes [{s},{t}) (unit '{}') that are not part of the manifest container {:?}; {n_c2pa} entries are named C2PA {}", e.1, e.1 + e.2, unit_at(kind, b, *s), m, ctx()),
                    ));
                    break;
                }
            }
        }
    }
}

fn judge_locations(run: &Run, c: &Case, a: &Asset, fails: &mut Vec<Fail>) {
    let kind = c.kind.as_str();
    let b = &a.bytes;
    let len = b.len();
    let locs = match vh::catch(|| c2pa::verif_hooks::object_locations(&c.format, b)) {
        Err(p) => {
            run.count(&format!("{kind}:locations:panic"));
            if a.mutated.is_empty() {
                fails.push(Fail::new(format!("C12:locations-panic:{}", vh::core::panic_site(&p)), format!("get_object_locations_from_stream panicked on a well-formed {kind}: {p} [{}]", a.desc)));
            }
            return;
        }
        Ok(Err(e)) => {
            run.count(&format!("{kind}:locations:err"));
            if a.mutated.is_empty() && c.asset_hex.is_none() {
                run.note(format!("object_locations error on generated {kind} [{}]: {e:?}", a.desc));
            }
            return;
        }
        Ok(Ok(l)) => l,
    };
    if locs.is_empty() {
        run.count(&format!("{kind}:locations:none"));
        return;
    }
    run.count(&format!("{kind}:locations:ok"));
    let spans = walk::manifest_spans(kind, b).ok();
    let has_store = spans.as_ref().map(|s| !s.is_empty()).unwrap_or(false);
    let ctx = || format!("[{}{}] regions {:?}", a.desc, if a.mutated.is_empty() { String::new() } else { format!("; mutated: {}", a.mutated.join(" | ")) }, locs);
    let cai: Vec<&(String, usize, usize)> = locs.iter().filter(|l| l.0 == "Cai").collect();
    run.count(&format!("{kind}:locations:cai-regions:{}", cai.len()));
    if cai.len() != 1 {
        fails.push(Fail::new(format!("C12:locations-cai-count:{kind}{}", if a.mutated.is_empty() { "" } else { ":malformed-input" }), format!("{} Cai regions reported {}", cai.len(), ctx())));
        return;
    }
    let mutated = !a.mutated.is_empty();
    let mal = if mutated { ":malformed-input" } else { "" };
    let (_, co, cl) = cai[0].clone();
    let cend = co.saturating_add(cl);
    // inside the file
    if has_store {
        if cend > len {
            fails.push(Fail::new(format!("C12:locations-cai-beyond-file:{kind}{mal}"), format!("Cai region [{co},{cend}) ends after the {len}-byte file {}", ctx())));
        }
    }
    // disjoint from the reported non-Cai regions
    for l in locs.iter().filter(|l| l.0 != "Cai") {
        let (s, e) = (l.1, l.1.saturating_add(l.2));
        if l.2 > 0 && cl > 0 && s < cend && co < e {
            fails.push(Fail::new(format!("C12:locations-cai-overlaps-other:{kind}{mal}") /* "other" = any non-Cai region (Other, Xmp, OtherExclusion) */, format!("Cai region [{co},{cend}) overlaps the {} region [{s},{e}) {}", l.0, ctx())));
            break;
        }
    }
    // contains nothing but the manifest container
    if let (true, false, Some(spans)) = (has_store, mutated, &spans) {
        let m: Vec<(u64, u64)> = spans.iter().map(|(s, l)| (*s as u64, (*s + *l) as u64)).collect();
        let extra = subtract(co as u64, (cend.min(len)) as u64, &m);
        if let Some((s, t)) = extra.first() {
            fails.push(Fail::new(
                format!("C12:locations-cai-covers-other-bytes:{kind}"),
                format!("Cai region [{co},{cend}) contains bytes [{s},{t}) (unit '{}') outside the manifest container {:?} {}", unit_at(kind, b, *s), m, ctx()),
            ));
        } else {
            run.count(&format!("{kind}:locations:cai-inside-container"));
        }
    }
}

fn judge(run: &Run, c: &Case) -> CaseResult {
    let kind = c.kind.as_str();
    let a = match vh::catch(|| build(c)) {
        Ok(Ok(a)) => a,
        Ok(Err(e)) | Err(e) => {
            run.count("harness:asset_build_failed");
            run.inconclusive(format!("asset generation failed for {c:?}: {e}"));
            return Ok(());
        }
    };
    let has_store = walk::manifest_spans(kind, &a.bytes).map(|s| !s.is_empty()).unwrap_or(false);
    run.count(&format!("{kind}:{}{}", if has_store { "with-store" } else { "manifest-free" }, if a.mutated.is_empty() { "" } else { ":mutated" }));
    if c.mutations > 0 && a.mutated.is_empty() {
        run.count(&format!("{kind}:no-accepted-mutation"));
    }
    for k in ["restart", "second-image", "trailing", "progressive", "c2pa-before-IHDR", "c2pa-before-IEND", "87a", "plain-text", "gce", "xmp", "size0-last", "jxlp", "other-jumb", "app11-other-jumbf", "AVIX", "bom"] {
        if a.desc.contains(k) {
            run.count(&format!("{kind}:knob:{k}"));
        }
    }
    let mut fails = vec![];
    let boxhash = c2pa::verif_hooks::has_box_map(&c.format);
    if boxhash {
        judge_box_map(run, c, &a, &mut fails);
    }
    if walk::family(kind) != Some("bmff") {
        judge_locations(run, c, &a, &mut fails);
    } else {
        // BMFF reports no object locations by design (BMFF hash); recorded so that a change shows up
        match vh::catch(|| c2pa::verif_hooks::object_locations(&c.format, &a.bytes)) {
            Ok(Ok(l)) if l.is_empty() => run.count(&format!("{kind}:locations:none")),
            Ok(Ok(_)) => {
                run.count(&format!("{kind}:locations:ok"));
                judge_locations(run, c, &a, &mut fails);
            }
            _ => run.count(&format!("{kind}:locations:err")),
        }
    }
    let interesting = has_store || !a.mutated.is_empty() || ["restart", "second-image", "trailing", "size0-last", "87a", "plain-text", "AVIX", "c2pa-before"].iter().any(|k| a.desc.contains(k));
    if interesting {
        run.nontrivial(c);
    }
    for f in &fails {
        mkreg(c, &a, f);
    }
    if survey() {
        for f in &fails {
            let key = format!("survey:{}{}", f.signature, if a.mutated.is_empty() { "" } else { " (mutated)" });
            run.count(&key);
            if run.hist_get(&key) <= 2 {
                run.note(format!("{} :: {} :: {:?}", key, f.what.chars().take(900).collect::<String>(), c));
            }
        }
        return Ok(());
    }
    // an unregistered failure wins; of the registered ones the first is returned and the others are recorded too
    if let Some(i) = fails.iter().position(|f| !run.is_known(&f.signature)) {
        return Err(fails.swap_remove(i));
    }
    let mut it = fails.into_iter();
    match it.next() {
        Some(first) => {
            for f in it {
                run.fail("layout", &f, serde_json::Value::Null);
            }
            Err(first)
        }
        None => Ok(()),
    }
}

fn strategy(kind: &'static str, boxhash: bool) -> impl Strategy<Value = Case> {
    (any::<u64>(), 0usize..2500, 0u8..3, 0usize..2500, 0usize..16, 0usize..16, 0u8..6, 0u8..6).prop_map(move |(seed, size, emode, elen, fi, wi, mu, tw)| {
        let existing = if emode == 0 || kind == "c2pa" { None } else { Some(MIN_STORE + elen) };
        let formats = formats_of(kind);
        let wants = wants_of(kind, existing.is_some());
        Case {
            kind: kind.to_string(),
            format: formats[fi % formats.len()].to_string(),
            seed,
            size_hint: 48 + size,
            existing,
            want: wants[wi % wants.len()].to_string(),
            // half of the box-hash cases are mutated (1..3 accepted mutations)
            mutations: if boxhash && mu >= 3 { mu - 2 } else { 0 },
            tweak: if kind == "jpeg" && mu < 3 && tw == 0 { "jpeg-fill".to_string() } else { String::new() },
            fixture: None,
            asset_hex: None,
            malformed: false,
        }
    })
}

fn main() {
    vh::quiet_panics();
    let run = Run::from_args("C12", "exploration");
    run.set_rule("case = (container kind, format string, synthesised asset with or without an embedded store (seed walk towards a requested knob: JPEG restart markers / second image / trailing bytes / progressive / foreign APP11, PNG trailing data / caBX before IHDR, IEND or IDAT, GIF87a / plain text / graphic control / XMP / trailing, JXL jxlp / size-0 last box / other jumb, sidecar), 0..3 structural mutations (duplicate / swap / delete a unit, junk between units, appended bytes, toolkit byte mutations) each kept only if get_box_map still accepts the file) + repository fixtures. Box map judged for formats with has_box_map, object locations for every kind but BMFF. Non-trivial = asset carries a store, or is mutated, or has one of the layout knobs.");
    run.assume("the manifest container is located by the independent walker (vh::walk::manifest_spans); for inputs the walker cannot parse only the map's own C2PA entry is exempt from coverage");
    run.assume("get_box_map / get_object_locations_from_stream returning an error is acceptable (robustness is C10's subject); panics are judged only on unmutated generated assets");
    run.assume("manifest-free assets: get_object_locations_from_stream reports the layout after inserting a placeholder of a size (and, for TIFF / SVG, at a position past the original end) the handler chooses, so for them only disjointness is demanded");
    run.assume("rules that need the walker's view of the manifest container (an entry named C2PA / the Cai region contains nothing else) are judged on well-formed assets only; mutated inputs are judged by the walker-independent rules (order, overlap, bounds, coverage) under signatures ending in :malformed-input");
    if survey() {
        run.inconclusive("C12_SURVEY=1: failures are only counted, never judged");
    }
    if selftest() != 0 {
        run.note(format!("VERIF_SELFTEST={} — the SDK's box map is corrupted on purpose", selftest()));
    }

    // which formats are box-hash capable
    let mut capable = vec![];
    for kind in assets::KINDS.iter().copied().chain(["c2pa"]) {
        if c2pa::verif_hooks::has_box_map(formats_of(kind)[0]) {
            capable.push(kind);
        }
    }
    run.extra("box_hash_capable", json!(capable));
    if capable != ["jpeg", "png", "gif", "jxl", "c2pa"] {
        run.note(format!("box-hash capable kinds differ from the expected jpeg, png, gif, jxl, c2pa: {capable:?}"));
    }

    // fixtures of the box-hash formats
    let fx: Vec<Case> = [("jpeg", "C.jpg"), ("jpeg", "CA.jpg"), ("jpeg", "no_manifest.jpg"), ("jpeg", "IMG_0003.jpg"), ("png", "libpng-test.png"), ("gif", "sample1.gif"), ("jxl", "sample1.jxl"), ("c2pa", "cloud_manifest.c2pa")]
        .iter()
        .filter(|(_, f)| std::path::Path::new(&format!("{}/{}", vh::sdk::FIXTURES, f)).exists())
        .map(|(k, f)| Case { kind: k.to_string(), format: formats_of(k)[0].to_string(), seed: 0, size_hint: 0, existing: None, want: String::new(), mutations: 0, tweak: String::new(), fixture: Some(f.to_string()), asset_hex: None, malformed: false })
        .collect();
    run.extra("fixtures", json!(fx.iter().map(|c| c.fixture.clone().unwrap()).collect::<Vec<_>>()));
    run.drive_enum("fixtures", fx, |c| judge(&run, c));

    let n_box: u32 = run.scale(20000, 150000);
    let n_other: u32 = run.scale(6000, 40000);
    for kind in assets::KINDS.iter().copied().chain(["c2pa"]) {
        let kind: &'static str = kind;
        let boxhash = capable.contains(&kind);
        if walk::family(kind) == Some("bmff") && kind != "mp4" {
            continue; // one BMFF kind suffices to record that no object locations are reported
        }
        let n = if boxhash { n_box } else if walk::family(kind) == Some("bmff") { n_other / 4 } else { n_other };
        run.drive_par(&format!("layout:{kind}"), n, run.scale(4, 16), strategy(kind, boxhash), |c| judge(&run, c));
    }
    if std::env::var("C12_MKREG").is_ok() {
        let dir = vh::core::verif_root().join("work").join("C12").join("mkreg");
        let _ = std::fs::create_dir_all(&dir);
        for (sig, (_, v)) in MKREG.lock().unwrap().iter() {
            let name: String = sig.chars().map(|ch| if ch.is_ascii_alphanumeric() || ch == '-' || ch == '.' { ch } else { '_' }).collect();
            let _ = std::fs::write(dir.join(format!("reg-{name}.json")), serde_json::to_string_pretty(v).unwrap());
        }
    }
    run.finish();
}
