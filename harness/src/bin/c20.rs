//! C20 — redaction removes exactly the requested assertions and stays verifiable.
//!
//! Chains of manifests are built with the public Builder only: a base manifest (Create intent) carrying a
//! generated set of redactable assertions, each with a unique random marker string in its payload (custom JSON
//! and CBOR assertions, a second instance of the same label, c2pa.metadata, a claim thumbnail, an unsigned
//! ingredient (marker in the title) and its thumbnail), then 1..3 further manifests (Edit or Update intent, the
//! previous output as source = parentOf ingredient) that list `redactions` = a subset of the assertion URIs of
//! the manifests below them, discovered with a Reader exactly as docs/redaction.md describes, plus the matching
//! `c2pa.redacted` actions.
//!
//! Oracle (all from the property text, none from SDK code):
//!  * allowed set  => sign Ok, output Valid/Trusted, active manifest `redactions()` == requested (as sets), no
//!    marker of any assertion redacted so far occurs in the output file (raw bytes and extracted store) and every
//!    other planted marker still does;
//!  * a disallowed target (actions, hard binding, own assertion, unknown assertion, manifest that is not in the
//!    store, existing label under the wrong manifest) in the list => sign Err or output not Valid/Trusted;
//!  * post-hoc removal (zero / overwrite with a `free` box / delete an assertion box of an ingredient manifest in
//!    the final store, re-embedded with save_jumbf_to_memory) without a redaction entry => not Valid/Trusted;
//!  * an ingredient manifest with 2..3 instances of one label (custom JSON, custom CBOR, c2pa.metadata): the next manifest
//!    redacts instance i only (must be valid), then the box of another instance j is removed post hoc: never
//!    Valid/Trusted, read re-embedded and as external manifest data against the untouched asset (every (i, j));
//!  * two ingredients that share a manifest with different redactions: output Valid/Trusted, requested markers
//!    gone, never-redacted markers present.

use std::{collections::BTreeSet, io::Cursor};

use c2pa::{Builder, BuilderIntent, DigitalSourceType, Reader};
use proptest::prelude::*;
use serde::{Deserialize, Serialize};
use serde_json::{json, Value};
use vh::{jumbf_walk as jw, rng::SplitMix64, sdk, CaseResult, Fail, Run};

const KINDS: [&str; 3] = ["jpeg", "png", "gif"];

const K_NOTE: u8 = 0;
const K_CBOR: u8 = 1;
const K_DUP: u8 = 2;
const K_META: u8 = 3;
const K_CTHUMB: u8 = 4;
const K_ING: u8 = 5;
const K_INGTHUMB: u8 = 6;
const K_RESV: u8 = 7;
const KIND_NAMES: [&str; 8] = ["note", "cbor", "dup", "meta", "cthumb", "ing", "ingthumb", "resv"];

const L_NOTE: &str = "org.verif.c20.note";
const L_CBOR: &str = "org.verif.c20.cbor";
/// a custom (vendor) label that merely contains a reserved label as a substring
const L_RESV: &str = "org.verif.c2pa.actions.like";

fn bit(k: u8) -> u16 {
    1 << k
}

#[derive(Clone, Debug, Serialize, Deserialize, PartialEq, Eq, Hash)]
struct Layer {
    /// bit set of own redactable assertion kinds (K_*)
    own: u16,
    /// Update intent instead of Edit (ignored for the base layer)
    update: bool,
    /// bit i set = redact candidate i (candidates = not yet redacted redactable assertions of the manifests below,
    /// base manifest first, claim order)
    redact: u16,
}

#[derive(Clone, Debug, Serialize, Deserialize, PartialEq, Eq, Hash)]
struct Case {
    kind: u8,
    aseed: u16,
    /// layers[0] = base manifest (Create), then 1..3 redacting layers
    layers: Vec<Layer>,
    /// 0 none; 1 actions, 2 hard binding, 3 own assertion, 4 unknown assertion, 5 manifest not in store,
    /// 6 existing label under the wrong manifest — added to the last layer's list
    bad: u8,
    /// 0 none; 1 zero the content, 2 overwrite with a `free` box, 3 delete the box (lengths fixed)
    posthoc: u8,
    posthoc_target: u8,
}

#[derive(Clone, Debug, Serialize, Deserialize, PartialEq, Eq, Hash)]
struct MergeCase {
    kind: u8,
    aseed: u16,
    base_own: u16,
    r1: u16,
    r2: u16,
    r3: u16,
    /// relationship of the second ingredient: 0 componentOf, 1 inputTo
    rel: u8,
    /// which branch is the source (parentOf)
    swap: bool,
}

fn marker(aseed: u16, layer: usize, kind: u8) -> String {
    let mut r = SplitMix64::new(0xC20_0000 ^ ((aseed as u64) << 24) ^ ((layer as u64) << 8) ^ kind as u64);
    format!("VMK{:016x}{:08x}Z", r.next_u64(), r.next_u64() as u32)
}

fn normalise_own(own: u16, update: bool) -> u16 {
    // the reserved-substring label is a rare kind: bits 7..9 must all be set
    let mut o = own & 0x7f;
    if (own >> 7) & 7 == 7 {
        o |= bit(K_RESV);
    }
    if o & bit(K_DUP) != 0 {
        o |= bit(K_NOTE);
    }
    if o & bit(K_INGTHUMB) != 0 {
        o |= bit(K_ING);
    }
    if update {
        // update manifests may carry neither thumbnails nor further ingredients
        o &= bit(K_NOTE) | bit(K_CBOR) | bit(K_DUP) | bit(K_META) | bit(K_RESV);
    }
    o
}

fn uuid_v4(r: &mut SplitMix64) -> String {
    let mut b = r.bytes(16);
    b[6] = (b[6] & 0x0f) | 0x40;
    b[8] = (b[8] & 0x3f) | 0x80;
    let h = hex::encode(b);
    format!("{}-{}-{}-{}-{}", &h[0..8], &h[8..12], &h[12..16], &h[16..20], &h[20..32])
}

fn thumb_bytes(m: &str, salt: u64) -> Vec<u8> {
    let mut r = SplitMix64::new(salt);
    let mut v = vec![0xff, 0xd8, 0xff, 0xe0];
    v.extend(r.bytes(40));
    v.extend_from_slice(m.as_bytes());
    v.extend(r.bytes(40));
    v.extend_from_slice(&[0xff, 0xd9]);
    v
}

struct LayerSpec<'a> {
    fmt: &'a str,
    src: &'a [u8],
    li: usize,
    aseed: u16,
    own: u16,
    intent: BuilderIntent,
    redactions: &'a [String],
    label: Option<String>,
    /// further signed ingredients: (definition json, format, bytes)
    extra: Vec<(Value, String, Vec<u8>)>,
}

fn build_layer(s: &LayerSpec) -> c2pa::Result<Vec<u8>> {
    let mut assertions = vec![];
    let m = |k: u8| marker(s.aseed, s.li, k);
    if s.own & bit(K_NOTE) != 0 {
        assertions.push(json!({"label": L_NOTE, "kind": "Json", "data": {"marker": m(K_NOTE), "layer": s.li}}));
    }
    if s.own & bit(K_DUP) != 0 {
        assertions.push(json!({"label": L_NOTE, "kind": "Json", "data": {"marker": m(K_DUP), "second": true}}));
    }
    if s.own & bit(K_CBOR) != 0 {
        assertions.push(json!({"label": L_CBOR, "data": {"marker": m(K_CBOR), "list": [1, 2, 3]}}));
    }
    if s.own & bit(K_RESV) != 0 {
        assertions.push(json!({"label": L_RESV, "data": {"marker": m(K_RESV)}}));
    }
    if s.own & bit(K_META) != 0 {
        assertions.push(json!({"label": "c2pa.metadata", "data": {
            "@context": {"exif": "http://ns.adobe.com/exif/1.0/", "tiff": "http://ns.adobe.com/tiff/1.0/"},
            "exif:GPSLatitude": "39,21.102N", "tiff:Make": m(K_META), "tiff:Model": "Shooter S1"}}));
    }
    if !s.redactions.is_empty() {
        let acts: Vec<Value> = s
            .redactions
            .iter()
            .map(|u| json!({"action": "c2pa.redacted", "reason": "c2pa.PII.present", "parameters": {"redacted": u}}))
            .collect();
        assertions.push(json!({"label": "c2pa.actions", "data": {"actions": acts}}));
    }
    let mut def = json!({
        "title": format!("c20 layer {}", s.li),
        "claim_generator_info": [{"name": "verif-harness", "version": "0.1"}],
        "assertions": assertions,
    });
    if !s.redactions.is_empty() {
        def["redactions"] = json!(s.redactions);
    }
    if let Some(l) = &s.label {
        def["label"] = json!(l);
    }
    if s.own & bit(K_CTHUMB) != 0 {
        def["thumbnail"] = json!({"format": "image/jpeg", "identifier": "cthumb"});
    }
    let mut b = Builder::from_context(sdk::context()).with_definition(def.to_string())?;
    b.set_intent(s.intent.clone());
    if s.own & bit(K_CTHUMB) != 0 {
        b.add_resource("cthumb", Cursor::new(thumb_bytes(&m(K_CTHUMB), 11)))?;
    }
    if s.own & bit(K_ING) != 0 {
        let mut r = SplitMix64::new(0xAB00 ^ s.aseed as u64 ^ ((s.li as u64) << 20));
        let x = vh::assets::synth("png", &mut r, 600);
        let mut ij = json!({"title": format!("unsigned {}", m(K_ING)), "relationship": "componentOf"});
        if s.own & bit(K_INGTHUMB) != 0 {
            ij["thumbnail"] = json!({"format": "image/jpeg", "identifier": "ithumb"});
            b.add_resource("ithumb", Cursor::new(thumb_bytes(&m(K_INGTHUMB), 12)))?;
        }
        b.add_ingredient_from_stream(ij.to_string(), x.format, &mut Cursor::new(x.bytes))?;
    }
    for (j, f, bytes) in &s.extra {
        b.add_ingredient_from_stream(j.to_string(), f, &mut Cursor::new(bytes.clone()))?;
    }
    let signer = sdk::signer("ed25519");
    let mut src = Cursor::new(s.src.to_vec());
    let mut dst = Cursor::new(Vec::new());
    b.sign(signer.as_ref(), s.fmt, &mut src, &mut dst)?;
    Ok(dst.into_inner())
}

#[derive(Clone, Debug)]
struct Man {
    label: String,
    /// (absolute uri, assertion label)
    assertions: Vec<(String, String)>,
    unsigned_ings: BTreeSet<String>,
}

fn man_of(r: &Reader, label: &str) -> Result<(Man, Option<String>), String> {
    let m = r.get_manifest(label).ok_or_else(|| format!("manifest {label} not in the report"))?;
    let mut assertions = vec![];
    for h in m.assertion_references() {
        let url = h.url();
        let al = url.rsplit_once("/c2pa.assertions/").map(|x| x.1.to_string()).unwrap_or_default();
        assertions.push((url, al));
    }
    let mut unsigned = BTreeSet::new();
    let mut parent = None;
    for i in m.ingredients() {
        if i.active_manifest().is_none() {
            if let Some(l) = i.label() {
                unsigned.insert(l.to_string());
            }
        }
        if i.is_parent() {
            parent = i.active_manifest().map(|s| s.to_string());
        }
    }
    Ok((Man { label: label.to_string(), assertions, unsigned_ings: unsigned }, parent))
}

/// Manifests from the base (oldest) to the active one, following parentOf links.
fn chain_of(r: &Reader) -> Result<Vec<Man>, String> {
    let mut out = vec![];
    let mut cur = r.active_label().map(|s| s.to_string());
    while let Some(l) = cur {
        if out.len() > 8 {
            return Err("chain too long".into());
        }
        let (m, p) = man_of(r, &l)?;
        out.push(m);
        cur = p;
    }
    out.reverse();
    Ok(out)
}

fn kind_of_label(m: &Man, al: &str) -> Option<u8> {
    if al == L_NOTE {
        Some(K_NOTE)
    } else if al == format!("{L_NOTE}__1") {
        Some(K_DUP)
    } else if al == L_CBOR {
        Some(K_CBOR)
    } else if al == L_RESV {
        Some(K_RESV)
    } else if al == "c2pa.metadata" {
        Some(K_META)
    } else if al.starts_with("c2pa.thumbnail.claim") {
        Some(K_CTHUMB)
    } else if al.starts_with("c2pa.thumbnail.ingredient") {
        Some(K_INGTHUMB)
    } else if al.starts_with("c2pa.ingredient") && m.unsigned_ings.contains(al) {
        Some(K_ING)
    } else {
        None
    }
}

#[derive(Clone, Debug)]
struct Planted {
    uri: String,
    kind: u8,
    marker: String,
}

fn occurs(hay: &[&[u8]], needle: &str) -> bool {
    hay.iter().any(|h| sdk::find_sub(h, needle.as_bytes()).is_some())
}

fn kinds_class(planted: &[Planted], uris: &[String]) -> String {
    let mut ks: BTreeSet<&str> = BTreeSet::new();
    for u in uris {
        if let Some(p) = planted.iter().find(|p| &p.uri == u) {
            ks.insert(KIND_NAMES[p.kind as usize]);
        }
    }
    if ks.contains("resv") {
        return "reserved-substring-label".into();
    }
    match ks.len() {
        0 => "none".into(),
        1 => ks.iter().next().unwrap().to_string(),
        _ => "mixed".into(),
    }
}

struct Checked {
    reader: Reader,
    chain: Vec<Man>,
}

/// The positive oracle on one signed output.
fn check_output(
    soft: &Soft,
    run: &Run,
    tag: &str,
    kind: &str,
    fmt: &str,
    bytes: &[u8],
    requested: &[String],
    allowed_extra: &BTreeSet<String>,
    planted: &[Planted],
    redacted: &BTreeSet<String>,
    dont_care: &BTreeSet<String>,
) -> Result<Checked, Fail> {
    let class = kinds_class(planted, requested);
    let r = match vh::catch(|| sdk::read(fmt, bytes)) {
        Ok(Ok(r)) => r,
        Ok(Err(e)) => return Err(Fail::new(format!("C20:{tag}-output-unreadable:{class}"), format!("reading the signed output failed: {e}"))),
        Err(p) => return Err(Fail::new(format!("C20:{tag}-output-read-panic:{}", vh::core::panic_site(&p)), p)),
    };
    if !sdk::is_valid_or_trusted(&r) {
        let codes = sdk::failure_codes(&r);
        let first = codes.first().cloned().unwrap_or_default();
        return Err(Fail::new(
            format!("C20:{tag}-output-not-valid:{class}:{first}"),
            format!("output with allowed redactions {requested:?} reads {} with failures {codes:?}", sdk::state_name(r.validation_state())),
        ));
    }
    let listed: BTreeSet<String> = r
        .active_manifest()
        .and_then(|m| m.redactions())
        .map(|v| v.iter().cloned().collect())
        .unwrap_or_default();
    let want: BTreeSet<String> = requested.iter().cloned().collect();
    let ok_list = want.is_subset(&listed) && listed.iter().all(|u| want.contains(u) || allowed_extra.contains(u));
    if !ok_list {
        return Err(Fail::new(
            format!("C20:{tag}-redactions-list-mismatch:{class}"),
            format!("requested redactions {want:?} but the active manifest lists {listed:?}"),
        ));
    }
    if listed == want {
        run.count(&format!("{tag}_list_exact"));
    } else {
        run.count(&format!("{tag}_list_with_inherited_entries"));
    }
    let store_sdk = sdk::store_of(fmt, bytes).unwrap_or_default();
    let store_ind = vh::walk::extract_store(kind, bytes).ok().flatten().unwrap_or_default();
    let mut hay: Vec<&[u8]> = vec![bytes, &store_sdk, &store_ind];
    let leak;
    if std::env::var("VERIF_SELFTEST").ok().as_deref() == Some("leak") {
        // sensitivity self-test: pretend the SDK left the first redacted payload in the file
        if let Some(p) = planted.iter().find(|p| redacted.contains(&p.uri)) {
            leak = p.marker.clone().into_bytes();
            hay.push(&leak);
        }
    }
    for p in planted {
        if dont_care.contains(&p.uri) {
            run.count(if occurs(&hay, &p.marker) { "merge_half_redacted_marker_present" } else { "merge_half_redacted_marker_absent" });
            continue;
        }
        let o = occurs(&hay, &p.marker);
        if redacted.contains(&p.uri) && o {
            let place = sdk::find_sub(&store_sdk, p.marker.as_bytes())
                .and_then(|pos| jw::walk_store(&store_sdk).ok().and_then(|bx| jw::box_at(&bx, pos).map(|i| bx[i].path.clone())))
                .unwrap_or_else(|| "outside the store".into());
            let context: String = sdk::find_sub(&store_sdk, p.marker.as_bytes())
                .map(|pos| store_sdk[pos.saturating_sub(90)..(pos + p.marker.len() + 50).min(store_sdk.len())].iter().map(|b| if b.is_ascii_graphic() || *b == b' ' { *b as char } else { '.' }).collect())
                .unwrap_or_default();
            let own_path = p.uri.trim_start_matches("self#jumbf=/");
            let pclass = if place.starts_with(own_path) {
                "assertion-box-still-present"
            } else if place.contains("/c2pa.assertions/c2pa.ingredient") {
                "copied-into-ingredient-assertion-of-another-manifest"
            } else if place == "outside the store" {
                "outside-the-store"
            } else {
                "elsewhere-in-the-store"
            };
            soft.borrow_mut().push(Fail::new(
                format!("C20:redacted-marker-present:{}:{pclass}", KIND_NAMES[p.kind as usize]),
                format!("[{tag}] payload marker {} of redacted assertion {} still occurs in the output (in box {place}; context: {context})", p.marker, p.uri),
            ));
            continue;
        }
        if !redacted.contains(&p.uri) && !o {
            soft.borrow_mut().push(Fail::new(
                format!("C20:{tag}-unredacted-marker-missing:{}", KIND_NAMES[p.kind as usize]),
                format!("payload marker {} of assertion {} (never redacted) no longer occurs in the output; redacted so far {redacted:?}", p.marker, p.uri),
            ));
        }
    }
    let chain = chain_of(&r).map_err(|e| Fail::new(format!("C20:{tag}-chain-unreadable"), e))?;
    Ok(Checked { reader: r, chain })
}

/// Planted markers of the newest manifest, mapping verified against the assertion boxes of the store.
fn planted_of(fmt: &str, bytes: &[u8], man: &Man, aseed: u16, li: usize, own: u16) -> Result<Vec<Planted>, String> {
    let store = sdk::store_of(fmt, bytes).map_err(|e| e.to_string())?;
    let boxes = jw::walk_store(&store)?;
    let mut out = vec![];
    for (uri, al) in &man.assertions {
        if let Some(k) = kind_of_label(man, al) {
            if own & bit(k) == 0 {
                continue;
            }
            let mk = marker(aseed, li, k);
            let path = format!("c2pa/{}/c2pa.assertions/{}", man.label, al);
            let bx = boxes.iter().find(|b| b.is(&jw::T_JUMB) && b.path == path).ok_or(format!("assertion box {path} not found by the walker"))?;
            if sdk::find_sub(&store[bx.start..bx.end()], mk.as_bytes()).is_none() {
                return Err(format!("marker of kind {} is not inside box {path}", KIND_NAMES[k as usize]));
            }
            out.push(Planted { uri: uri.clone(), kind: k, marker: mk });
        }
    }
    let expected = (0..8u8).filter(|k| own & bit(*k) != 0).count();
    if out.len() != expected {
        return Err(format!("planted {} markers but located {} (own={own:#x}, assertions {:?})", expected, out.len(), man.assertions));
    }
    Ok(out)
}

fn candidates(chain: &[Man], planted: &[Planted], redacted: &BTreeSet<String>) -> Vec<String> {
    let mut v = vec![];
    for m in chain {
        for (uri, _) in &m.assertions {
            if planted.iter().any(|p| &p.uri == uri) && !redacted.contains(uri) {
                v.push(uri.clone());
            }
        }
    }
    v
}

fn pick(cands: &[String], mask: u16) -> Vec<String> {
    cands.iter().enumerate().filter(|(i, _)| *i < 16 && (mask >> i) & 1 == 1).map(|(_, u)| u.clone()).collect()
}

fn asset(kind: &str, aseed: u16) -> vh::assets::Synth {
    let mut r = SplitMix64::new(0xA55E7 ^ ((aseed as u64) << 8));
    vh::assets::synth(kind, &mut r, 1200)
}

const BAD_NAMES: [&str; 7] = ["none", "actions", "hard-binding", "own-assertion", "unknown-assertion", "manifest-not-in-store", "wrong-manifest"];

type Soft = std::cell::RefCell<Vec<Fail>>;

/// Marker findings do not end a case: everything else is still checked, and an unregistered failure is reported in
/// preference to a registered one.
fn resolve(run: &Run, hard: CaseResult, soft: Soft) -> CaseResult {
    let mut all: Vec<Fail> = soft.into_inner();
    if let Err(f) = hard {
        all.insert(0, f);
    }
    if all.is_empty() {
        return Ok(());
    }
    let pos = all.iter().position(|f| !run.is_known(&f.signature)).unwrap_or(0);
    Err(all.swap_remove(pos))
}

fn judge_chain(run: &Run, c: &Case) -> CaseResult {
    let soft = Soft::default();
    let r = judge_chain_inner(run, c, &soft);
    resolve(run, r, soft)
}

fn judge_merge(run: &Run, c: &MergeCase) -> CaseResult {
    let soft = Soft::default();
    let r = judge_merge_inner(run, c, &soft);
    resolve(run, r, soft)
}

fn judge_chain_inner(run: &Run, c: &Case, soft: &Soft) -> CaseResult {
    if c.layers.len() < 2 {
        return Ok(());
    }
    let kind = KINDS[c.kind as usize % KINDS.len()];
    let a = asset(kind, c.aseed);
    let fmt = a.format;
    let empty = BTreeSet::new();
    run.count(&format!("depth_{}", c.layers.len() - 1));
    run.count(&format!("format_{kind}"));

    // ---- base manifest ----
    let own0 = normalise_own(c.layers[0].own, false);
    let base = match vh::catch(|| {
        build_layer(&LayerSpec { fmt, src: &a.bytes, li: 0, aseed: c.aseed, own: own0, intent: BuilderIntent::Create(DigitalSourceType::Empty), redactions: &[], label: None, extra: vec![] })
    }) {
        Ok(Ok(b)) => b,
        other => {
            run.count("generator_rejected_base");
            run.note(format!("base manifest could not be signed ({kind}, own={own0:#x}): {:?}", other.map(|r| r.map(|_| ()).map_err(|e| e.to_string()))));
            return Ok(());
        }
    };
    let mut planted: Vec<Planted> = vec![];
    let mut redacted: BTreeSet<String> = BTreeSet::new();
    let chk = check_output(soft, run, "base", kind, fmt, &base, &[], &empty, &planted, &redacted, &empty)?;
    match planted_of(fmt, &base, chk.chain.last().unwrap(), c.aseed, 0, own0) {
        Ok(p) => planted.extend(p),
        Err(e) => {
            run.inconclusive(format!("marker mapping failed on the base manifest: {e}"));
            return Ok(());
        }
    }
    let mut cur = base;
    let mut chain = chk.chain;
    let mut total_red = 0usize;
    let mut manifests_hit: BTreeSet<String> = BTreeSet::new();
    let mut last_reader = chk.reader;

    for li in 1..c.layers.len() {
        let layer = &c.layers[li];
        let last = li + 1 == c.layers.len();
        let mut own = normalise_own(layer.own, layer.update);
        let cands = candidates(&chain, &planted, &redacted);
        run.count(&format!("candidates_{}", cands.len().min(9)));
        let req = pick(&cands, layer.redact);
        let mut reds = req.clone();
        let mut label = None;
        let bad = if last { c.bad % 7 } else { 0 };
        if bad != 0 {
            let base_m = &chain[0];
            let find = |pre: &str| base_m.assertions.iter().find(|(_, al)| al.starts_with(pre)).map(|(u, _)| u.clone());
            let mut r = SplitMix64::new(0xBAD ^ c.aseed as u64);
            let bad_uri = match bad {
                1 => find("c2pa.actions"),
                2 => find("c2pa.hash."),
                3 => {
                    let l = format!("urn:c2pa:{}", uuid_v4(&mut r));
                    own |= bit(K_NOTE);
                    label = Some(l.clone());
                    Some(format!("self#jumbf=/c2pa/{l}/c2pa.assertions/{L_NOTE}"))
                }
                4 => Some(format!("self#jumbf=/c2pa/{}/c2pa.assertions/org.verif.c20.absent", base_m.label)),
                5 => Some(format!("self#jumbf=/c2pa/urn:c2pa:{}/c2pa.assertions/{L_NOTE}", uuid_v4(&mut r))),
                _ => {
                    // a label that exists in one manifest, addressed under another manifest of the chain
                    let mut found = None;
                    for (i, m) in chain.iter().enumerate() {
                        for (_, al) in &m.assertions {
                            if kind_of_label(m, al).is_some() {
                                if let Some(other) = chain.iter().enumerate().find(|(j, o)| *j != i && !o.assertions.iter().any(|(_, x)| x == al)) {
                                    found = Some(format!("self#jumbf=/c2pa/{}/c2pa.assertions/{al}", other.1.label));
                                }
                            }
                        }
                    }
                    found.or_else(|| Some(format!("self#jumbf=/c2pa/urn:c2pa:{}/c2pa.assertions/{L_NOTE}", uuid_v4(&mut r))))
                }
            };
            match bad_uri {
                Some(u) => reds.push(u),
                None => {
                    run.count("bad_target_unavailable");
                    return Ok(());
                }
            }
        }
        let intent = if layer.update { BuilderIntent::Update } else { BuilderIntent::Edit };
        run.count(if layer.update { "layer_update" } else { "layer_edit" });
        let spec = LayerSpec { fmt, src: &cur, li, aseed: c.aseed, own, intent, redactions: &reds, label, extra: vec![] };
        let out = vh::catch(|| build_layer(&spec));

        if bad != 0 {
            run.nontrivial(c);
            let name = BAD_NAMES[bad as usize];
            run.count(&format!("bad_{name}"));
            let bytes = match out {
                Ok(Ok(b)) => b,
                Ok(Err(e)) => {
                    run.count(&format!("bad_{name}_sign_err"));
                    let _ = e;
                    return Ok(());
                }
                Err(p) => {
                    run.count(&format!("bad_sign_panic:{}", vh::core::panic_site(&p)));
                    return Ok(());
                }
            };
            return match vh::catch(|| sdk::read(fmt, &bytes)) {
                Ok(Ok(r)) if sdk::is_valid_or_trusted(&r) => Err(Fail::new(
                    format!("C20:disallowed-redaction-reported-valid:{name}"),
                    format!("redactions {reds:?} (last one is the disallowed target: {name}) were signed and the output reads {}", sdk::state_name(r.validation_state())),
                )),
                _ => {
                    run.count(&format!("bad_{name}_output_not_valid"));
                    Ok(())
                }
            };
        }

        let class = kinds_class(&planted, &req);
        let bytes = match out {
            Ok(Ok(b)) => b,
            Ok(Err(e)) => {
                return Err(Fail::new(
                    format!("C20:allowed-redaction-sign-error:{class}"),
                    format!("signing layer {li} ({}) with allowed redactions {req:?} failed: {e}", if layer.update { "Update" } else { "Edit" }),
                ))
            }
            Err(p) => return Err(Fail::new(format!("C20:sign-panic:{}", vh::core::panic_site(&p)), p)),
        };
        for u in &req {
            redacted.insert(u.clone());
            if let Some(m) = chain.iter().find(|m| m.assertions.iter().any(|(x, _)| x == u)) {
                manifests_hit.insert(m.label.clone());
            }
        }
        total_red += req.len();
        let chk = check_output(soft, run, "chain", kind, fmt, &bytes, &req, &empty, &planted, &redacted, &empty)?;
        match planted_of(fmt, &bytes, chk.chain.last().unwrap(), c.aseed, li, own) {
            Ok(p) => planted.extend(p),
            Err(e) => {
                run.inconclusive(format!("marker mapping failed on layer {li}: {e}"));
                return Ok(());
            }
        }
        // re-check the markers of the new layer (present)
        for p in &planted {
            if !redacted.contains(&p.uri) && sdk::find_sub(&bytes, p.marker.as_bytes()).is_none() && sdk::find_sub(&sdk::store_of(fmt, &bytes).unwrap_or_default(), p.marker.as_bytes()).is_none() {
                return Err(Fail::new(format!("C20:chain-unredacted-marker-missing:{}", KIND_NAMES[p.kind as usize]), format!("marker of {} missing right after signing", p.uri)));
            }
        }
        cur = bytes;
        chain = chk.chain;
        last_reader = chk.reader;
    }
    run.count(&format!("redactions_total_{}", total_red.min(6)));
    if total_red >= 2 && manifests_hit.len() >= 2 {
        run.nontrivial(c);
        run.count("nt_multi_manifest_redaction");
    }

    // ---- post-hoc removal without a redaction entry ----
    if c.posthoc % 4 != 0 {
        run.nontrivial(c);
        let mode = c.posthoc % 4;
        let store = match sdk::store_of(fmt, &cur) {
            Ok(s) => s,
            Err(_) => return Ok(()),
        };
        let boxes = match jw::walk_store(&store) {
            Ok(b) => b,
            Err(e) => {
                run.inconclusive(format!("walker failed on an SDK-written store: {e}"));
                return Ok(());
            }
        };
        let active = last_reader.active_label().unwrap_or("").to_string();
        let targets: Vec<usize> = boxes
            .iter()
            .enumerate()
            .filter(|(_, b)| {
                b.is(&jw::T_JUMB)
                    && b.parent.map(|p| boxes[p].label.as_deref() == Some("c2pa.assertions")).unwrap_or(false)
                    && !b.path.starts_with(&format!("c2pa/{active}/"))
            })
            .map(|(i, _)| i)
            .collect();
        if targets.is_empty() {
            run.count("posthoc_no_target");
            return Ok(());
        }
        let ti = targets[c.posthoc_target as usize % targets.len()];
        let t = &boxes[ti];
        let tlabel = t.label.clone().unwrap_or_default();
        let tman = t.path.split('/').nth(1).unwrap_or("").to_string();
        let has_red = redacted.iter().any(|u| u.contains(&tman));
        let lclass = if tlabel.starts_with("c2pa.actions") {
            "actions"
        } else if tlabel.starts_with("c2pa.hash.") {
            "hash"
        } else if tlabel.starts_with("c2pa.ingredient") {
            "ingredient"
        } else if tlabel.starts_with("c2pa.thumbnail") {
            "thumbnail"
        } else {
            "other"
        };
        let mname = ["", "zero", "free", "delete"][mode as usize];
        run.count(&format!("posthoc_{mname}:{lclass}:{}", if has_red { "manifest-has-redactions" } else { "manifest-without-redactions" }));
        let selftest = std::env::var("VERIF_SELFTEST").ok().as_deref() == Some("posthoc");
        let edited: Vec<u8> = if selftest {
            store.clone()
        } else {
            match mode {
                1 => {
                    let mut s = store.clone();
                    for ch in &t.children {
                        let cb = &boxes[*ch];
                        if !cb.is(&jw::T_JUMD) {
                            let p = cb.payload();
                            s[p.start..p.end].iter_mut().for_each(|x| *x = 0);
                        }
                    }
                    s
                }
                2 => {
                    let mut s = store.clone();
                    if t.header_len != 8 {
                        return Ok(());
                    }
                    s[t.start + 4..t.start + 8].copy_from_slice(b"free");
                    s[t.start + 8..t.end()].iter_mut().for_each(|x| *x = 0);
                    s
                }
                _ => match jw::apply_edit(&store, &boxes, &jw::Edit::Delete { idx: ti, fix: true }) {
                    Some(s) => s,
                    None => return Ok(()),
                },
            }
        };
        if edited == store && !selftest {
            run.count("posthoc_noop");
            return Ok(());
        }
        let sig = format!("C20:posthoc-{mname}-without-redaction-valid:{lclass}:{}", if has_red { "manifest-has-redactions" } else { "manifest-without-redactions" });
        let what = format!("assertion box {} was removed ({mname}) from the final store without a redaction entry (redactions so far {redacted:?})", t.path);
        judge_removed(run, "posthoc", fmt, &cur, &store, &edited, &sig, &what)?;
    }
    Ok(())
}


fn read_sidecar(fmt: &str, asset: &[u8], store: &[u8]) -> c2pa::Result<Reader> {
    Reader::from_context(sdk::context()).with_manifest_data_and_stream(store, fmt, Cursor::new(asset.to_vec()))
}

/// A store from which an assertion was removed without a redaction entry must never be reported Valid/Trusted:
/// judged on both routes, re-embedded into the asset (save_jumbf_to_memory) and as external manifest data against
/// the untouched asset (the route that keeps the asset hash intact when the store shrinks). Each route has an
/// unmodified-store control.
fn judge_removed(run: &Run, tag: &str, fmt: &str, asset: &[u8], store: &[u8], edited: &[u8], sig: &str, what: &str) -> CaseResult {
    let valid = |r: Result<c2pa::Result<Reader>, String>| -> (bool, String) {
        match r {
            Ok(Ok(r)) => {
                let mut codes = sdk::failure_codes(&r);
                codes.dedup();
                let ok = sdk::is_valid_or_trusted(&r);
                (ok, if ok { sdk::state_name(r.validation_state()).to_string() } else { format!("Invalid[{}]", codes.join("+")) })
            }
            Ok(Err(_)) => (false, "err".into()),
            Err(p) => (false, format!("panic:{}", vh::core::panic_site(&p))),
        }
    };
    // route 1: re-embedded
    let control = vh::catch(|| c2pa::jumbf_io::save_jumbf_to_memory(fmt, asset, store));
    let control_ok = match control {
        Ok(Ok(b)) => valid(vh::catch(|| sdk::read(fmt, &b))).0,
        _ => false,
    };
    if !control_ok {
        run.count(&format!("{tag}_embed_control_failed"));
    } else {
        match vh::catch(|| c2pa::jumbf_io::save_jumbf_to_memory(fmt, asset, edited)) {
            Ok(Ok(emb)) => {
                let (v, st) = valid(vh::catch(|| sdk::read(fmt, &emb)));
                if v {
                    return Err(Fail::new(format!("{sig}:embedded"), format!("{what}; re-embedded, the asset still reads {st}")));
                }
                run.count(&format!("{tag}_embedded_detected_{}", st.split(':').next().unwrap_or("")));
            }
            _ => run.count(&format!("{tag}_embed_error")),
        }
    }
    // route 2: external manifest data against the untouched asset
    let (cv, _) = valid(vh::catch(|| read_sidecar(fmt, asset, store)));
    if !cv {
        run.count(&format!("{tag}_sidecar_control_failed"));
        return Ok(());
    }
    let (v, st) = valid(vh::catch(|| read_sidecar(fmt, asset, edited)));
    if v {
        return Err(Fail::new(format!("{sig}:manifest-data"), format!("{what}; read with with_manifest_data_and_stream against the untouched asset it is still {st}")));
    }
    run.count(&format!("{tag}_sidecar_detected_{}", st.split(':').next().unwrap_or("")));
    Ok(())
}

/// Remove assertion box `ti` from `store`: 1 zero the content boxes, 2 overwrite with a `free` box, 3 delete (lengths fixed).
fn remove_box(store: &[u8], boxes: &[jw::BoxInfo], ti: usize, mode: u8) -> Option<Vec<u8>> {
    let t = &boxes[ti];
    match mode {
        1 => {
            let mut s = store.to_vec();
            for ch in &t.children {
                let cb = &boxes[*ch];
                if !cb.is(&jw::T_JUMD) {
                    let p = cb.payload();
                    s[p.start..p.end].iter_mut().for_each(|x| *x = 0);
                }
            }
            Some(s)
        }
        2 => {
            if t.header_len != 8 {
                return None;
            }
            let mut s = store.to_vec();
            s[t.start + 4..t.start + 8].copy_from_slice(b"free");
            s[t.start + 8..t.end()].iter_mut().for_each(|x| *x = 0);
            Some(s)
        }
        _ => jw::apply_edit(store, boxes, &jw::Edit::Delete { idx: ti, fix: true }),
    }
}

// ---- several instances of one label: one redacted legitimately, another removed post hoc ----

const INST_LABELS: [&str; 3] = ["com.example.note", "com.example.cbor", "c2pa.metadata"];

#[derive(Clone, Debug, Serialize, Deserialize, PartialEq, Eq, Hash)]
struct InstCase {
    kind: u8,
    aseed: u16,
    /// index into INST_LABELS (JSON custom, CBOR custom, c2pa.metadata)
    label: u8,
    /// number of instances of the label in the ingredient manifest (2..3)
    n: u8,
    /// instance redacted by the next manifest (legitimate)
    redacted: u8,
    /// instance removed afterwards without a redaction entry (differs from `redacted`)
    removed: u8,
    /// 1 zero, 2 free box, 3 delete
    mode: u8,
    update: bool,
}

fn judge_inst(run: &Run, c: &InstCase) -> CaseResult {
    let soft = Soft::default();
    let r = judge_inst_inner(run, c, &soft);
    resolve(run, r, soft)
}

fn judge_inst_inner(run: &Run, c: &InstCase, soft: &Soft) -> CaseResult {
    let kind = KINDS[c.kind as usize % KINDS.len()];
    let a = asset(kind, c.aseed);
    let fmt = a.format;
    let label = INST_LABELS[c.label as usize % INST_LABELS.len()];
    let n = 2 + (c.n as usize % 2);
    let i = c.redacted as usize % n;
    let mut j = c.removed as usize % n;
    if j == i {
        j = (j + 1) % n;
    }
    let mode = 1 + (c.mode % 3);
    let mk = |k: usize| marker(c.aseed, 0, 20 + k as u8);
    let empty = BTreeSet::new();
    // ---- ingredient manifest P with n instances of the label ----
    let assertions: Vec<Value> = (0..n)
        .map(|k| match label {
            "com.example.note" => json!({"label": label, "kind": "Json", "data": {"marker": mk(k), "instance": k}}),
            "com.example.cbor" => json!({"label": label, "data": {"marker": mk(k), "instance": k}}),
            _ => json!({"label": label, "data": {"@context": {"tiff": "http://ns.adobe.com/tiff/1.0/"}, "tiff:Make": mk(k), "tiff:Model": format!("model {k}")}}),
        })
        .collect();
    let def = json!({"title": "c20 instances", "claim_generator_info": [{"name": "verif-harness", "version": "0.1"}], "assertions": assertions});
    let p = match vh::catch(|| sdk::sign_with(sdk::context(), &def, Some(BuilderIntent::Create(DigitalSourceType::Empty)), sdk::signer("ed25519").as_ref(), fmt, &a.bytes)) {
        Ok(Ok(b)) => b,
        other => {
            run.count(&format!("inst_generator_rejected:{label}"));
            run.note(format!("{n} instances of {label} could not be signed: {:?}", other.map(|r| r.map(|_| ()).map_err(|e| e.to_string()))));
            return Ok(());
        }
    };
    let chk = check_output(soft, run, "base", kind, fmt, &p, &[], &empty, &[], &empty, &empty)?;
    let pm = chk.chain.last().unwrap().clone();
    let inst_label = |k: usize| if k == 0 { label.to_string() } else { format!("{label}__{k}") };
    let mut planted = vec![];
    for k in 0..n {
        match pm.assertions.iter().find(|(_, al)| *al == inst_label(k)) {
            Some((uri, _)) => planted.push(Planted { uri: uri.clone(), kind: K_NOTE, marker: mk(k) }),
            None => {
                run.count(&format!("inst_generator_rejected:{label}"));
                run.note(format!("instance {} of {label} not found among {:?}", inst_label(k), pm.assertions));
                return Ok(());
            }
        }
    }
    // marker -> instance mapping through the walker
    {
        let store = sdk::store_of(fmt, &p).map_err(|e| Fail::new("C20:harness-store", e.to_string()))?;
        let boxes = jw::walk_store(&store).map_err(|e| Fail::new("C20:harness-walker", e))?;
        for k in 0..n {
            let path = format!("c2pa/{}/c2pa.assertions/{}", pm.label, inst_label(k));
            let ok = boxes.iter().find(|b| b.is(&jw::T_JUMB) && b.path == path).map(|b| sdk::find_sub(&store[b.start..b.end()], mk(k).as_bytes()).is_some()).unwrap_or(false);
            if !ok {
                run.inconclusive(format!("instance mapping: marker {k} is not in box {path}"));
                return Ok(());
            }
        }
    }
    run.count(&format!("inst_{label}_n{n}_redact{i}_remove{j}_{}", ["", "zero", "free", "delete"][mode as usize]));
    run.nontrivial(c);
    // ---- M redacts instance i only ----
    let req = vec![planted[i].uri.clone()];
    let intent = if c.update { BuilderIntent::Update } else { BuilderIntent::Edit };
    let m = match vh::catch(|| build_layer(&LayerSpec { fmt, src: &p, li: 1, aseed: c.aseed, own: bit(K_NOTE), intent, redactions: &req, label: None, extra: vec![] })) {
        Ok(Ok(b)) => b,
        Ok(Err(e)) => return Err(Fail::new(format!("C20:allowed-redaction-sign-error:instance:{label}"), format!("redacting instance {i} of {n} x {label}: {e}"))),
        Err(pn) => return Err(Fail::new(format!("C20:sign-panic:{}", vh::core::panic_site(&pn)), pn)),
    };
    let redacted: BTreeSet<String> = req.iter().cloned().collect();
    check_output(soft, run, "instance", kind, fmt, &m, &req, &empty, &planted, &redacted, &empty)?;
    // ---- remove instance j from P's assertion store without a redaction entry ----
    let store = sdk::store_of(fmt, &m).map_err(|e| Fail::new("C20:harness-store", e.to_string()))?;
    let boxes = jw::walk_store(&store).map_err(|e| Fail::new("C20:harness-walker", e))?;
    let path = format!("c2pa/{}/c2pa.assertions/{}", pm.label, inst_label(j));
    let Some(ti) = boxes.iter().position(|b| b.is(&jw::T_JUMB) && b.path == path) else {
        return Err(Fail::new(format!("C20:instance-unredacted-box-missing:{label}"), format!("after redacting instance {i}, box {path} (instance {j}, not redacted) is gone from the store")));
    };
    let edited = if std::env::var("VERIF_SELFTEST").ok().as_deref() == Some("posthoc") { Some(store.clone()) } else { remove_box(&store, &boxes, ti, mode) };
    let Some(edited) = edited else { return Ok(()) };
    let sig = format!("C20:posthoc-sibling-instance-removed-valid:{}", if label == "c2pa.metadata" { "metadata" } else { "custom" });
    let what = format!("{n} instances of {label}; instance {i} redacted by the {} manifest (valid); instance {j} box {path} then removed ({}) without a redaction entry", if c.update { "update" } else { "edit" }, ["", "zero", "free", "delete"][mode as usize]);
    judge_removed(run, "inst", fmt, &m, &store, &edited, &sig, &what)
}

fn judge_merge_inner(run: &Run, c: &MergeCase, soft: &Soft) -> CaseResult {
    let kind = KINDS[c.kind as usize % KINDS.len()];
    let a = asset(kind, c.aseed);
    let fmt = a.format;
    let empty = BTreeSet::new();
    let own0 = normalise_own(c.base_own | bit(K_NOTE) | bit(K_CBOR), false);
    let mk = |src: &[u8], li: usize, own: u16, intent: BuilderIntent, reds: &[String], extra: Vec<(Value, String, Vec<u8>)>| {
        vh::catch(|| build_layer(&LayerSpec { fmt, src, li, aseed: c.aseed, own, intent, redactions: reds, label: None, extra }))
    };
    let base = match mk(&a.bytes, 0, own0, BuilderIntent::Create(DigitalSourceType::Empty), &[], vec![]) {
        Ok(Ok(b)) => b,
        _ => {
            run.count("generator_rejected_base");
            return Ok(());
        }
    };
    let mut planted = vec![];
    let chk = check_output(soft, run, "base", kind, fmt, &base, &[], &empty, &planted, &empty, &empty)?;
    match planted_of(fmt, &base, chk.chain.last().unwrap(), c.aseed, 0, own0) {
        Ok(p) => planted.extend(p),
        Err(e) => {
            run.inconclusive(format!("marker mapping failed (merge base): {e}"));
            return Ok(());
        }
    }
    let cands = candidates(&chk.chain, &planted, &empty);
    let r1 = pick(&cands, c.r1);
    let r2 = pick(&cands, c.r2);
    let r12: BTreeSet<String> = r1.iter().chain(r2.iter()).cloned().collect();
    let r3: Vec<String> = pick(&cands, c.r3).into_iter().filter(|u| !r12.contains(u)).collect();
    let branch = |li: usize, own: u16, reds: &[String]| -> Result<(Vec<u8>, Vec<Planted>), Fail> {
        let b = match mk(&base, li, own, BuilderIntent::Edit, reds, vec![]) {
            Ok(Ok(b)) => b,
            Ok(Err(e)) => return Err(Fail::new(format!("C20:allowed-redaction-sign-error:{}", kinds_class(&planted, reds)), format!("branch {li} with redactions {reds:?}: {e}"))),
            Err(p) => return Err(Fail::new(format!("C20:sign-panic:{}", vh::core::panic_site(&p)), p)),
        };
        let red: BTreeSet<String> = reds.iter().cloned().collect();
        let chk = check_output(soft, run, "chain", kind, fmt, &b, reds, &empty, &planted, &red, &empty)?;
        let p = planted_of(fmt, &b, chk.chain.last().unwrap(), c.aseed, li, own).map_err(|e| Fail::new("C20:harness-marker-mapping", e))?;
        Ok((b, p))
    };
    let (b1, p1) = branch(1, bit(K_NOTE), &r1)?;
    let (b2, p2) = branch(2, bit(K_CBOR), &r2)?;
    planted.extend(p1);
    planted.extend(p2);
    let (prim, sec) = if c.swap { (&b2, &b1) } else { (&b1, &b2) };
    let rel = if c.rel % 2 == 0 { "componentOf" } else { "inputTo" };
    run.count(&format!("merge_r1_{}_r2_{}_r3_{}", r1.len().min(3), r2.len().min(3), r3.len().min(3)));
    let both = !r1.is_empty() && !r2.is_empty();
    run.count(if both { "merge_redactions_in_both_branches" } else if r12.is_empty() { "merge_no_branch_redaction" } else { "merge_redactions_in_one_branch" });
    if !r12.is_empty() {
        run.nontrivial(c);
    }
    let d = match mk(prim, 3, bit(K_META), BuilderIntent::Edit, &r3, vec![(json!({"title": "second branch", "relationship": rel}), fmt.to_string(), sec.clone())]) {
        Ok(Ok(b)) => b,
        Ok(Err(e)) => {
            let cls = kinds_class(&planted, &r3);
            return Err(Fail::new(
                if cls == "reserved-substring-label" { format!("C20:allowed-redaction-sign-error:{cls}") } else { format!("C20:merge-sign-error:{}", if both { "both" } else if r12.is_empty() { "none" } else { "one" }) },
                format!("two ingredients sharing the base manifest (branch redactions {r1:?} / {r2:?}, own redactions {r3:?}, swap={}): sign failed: {e}", c.swap),
            ))
        }
        Err(p) => return Err(Fail::new(format!("C20:sign-panic:{}", vh::core::panic_site(&p)), p)),
    };
    let red3: BTreeSet<String> = r3.iter().cloned().collect();
    let dont_care: BTreeSet<String> = r12.iter().filter(|u| {
        // redacted in exactly one branch: the property says nothing about which copy of the shared manifest survives
        !(r1.contains(u) && r2.contains(u))
    }).cloned().collect();
    let mut redacted = red3.clone();
    for u in &r12 {
        if r1.contains(u) && r2.contains(u) {
            redacted.insert(u.clone());
        }
    }
    check_output(soft, run, "merge", kind, fmt, &d, &r3, &r12, &planted, &redacted, &dont_care)?;
    Ok(())
}

fn main() {
    vh::quiet_panics();
    let run = Run::from_args("C20", "exploration");
    run.set_rule("chain case = (container jpeg/png/gif synthesised, marker seed, base manifest with a generated subset of 8 redactable assertion kinds, 1..3 further manifests each Edit or Update with own assertions and a bit mask selecting which not-yet-redacted assertions of the manifests below are redacted, optional disallowed target on the last layer, optional post-hoc removal mode+target). Exhaustive part: 3 base sets with <= 4 candidates x every subset x {Edit, Update}. merge case = two Edit branches over the same base with redaction masks r1, r2 and a combining manifest (second branch componentOf/inputTo) with its own mask r3. Non-trivial = >= 2 redactions hitting >= 2 manifests, or a disallowed target, or a post-hoc removal, or a merge where a branch redacted something. instances case = (label com.example.note JSON / com.example.cbor CBOR / c2pa.metadata, 2..3 instances in the ingredient manifest, redacted instance i, removed instance j != i, removal mode zero/free/delete, Edit/Update): enumerated completely (one removal mode and container per combination in quick, all in thorough).");
    run.assume("redaction URIs are discovered with Reader::assertion_references as docs/redaction.md says and every redaction is accompanied by a c2pa.redacted action; manifests are uncompressed (core.prefer_compress_manifests off) so payload markers are searchable as raw bytes; marker -> assertion mapping is verified with the independent JUMBF walker");
    run.assume("ingredient assertions that reference a manifest (the parentOf links of the chain) are not redaction candidates; in the merge scenario entries inherited from the branches may additionally appear in redactions() and markers redacted in only one branch are recorded, not judged");

    // ---- exhaustive depth-1 subsets ----
    let mut enum_cases = vec![];
    let bases: [u16; 3] = [
        bit(K_NOTE) | bit(K_DUP) | bit(K_META) | bit(K_CBOR),
        bit(K_NOTE) | bit(K_CTHUMB) | bit(K_ING) | bit(K_INGTHUMB),
        bit(K_CBOR) | bit(K_META),
    ];
    for (bi, own) in bases.iter().enumerate() {
        let n = own.count_ones();
        for mask in 0..(1u16 << n) {
            for update in [false, true] {
                enum_cases.push(Case {
                    kind: (bi as u8 + mask as u8) % 3,
                    aseed: (run.seed as u16).wrapping_add(bi as u16 * 17 + mask),
                    layers: vec![Layer { own: *own, update: false, redact: 0 }, Layer { own: bit(K_NOTE), update, redact: mask }],
                    bad: 0,
                    posthoc: 0,
                    posthoc_target: 0,
                });
            }
        }
    }
    // every disallowed target and every post-hoc mode at least once, small first
    for bad in 1..=6u8 {
        enum_cases.push(Case {
            kind: bad % 3,
            aseed: (run.seed as u16) ^ (bad as u16 * 257),
            layers: vec![Layer { own: bases[0], update: false, redact: 0 }, Layer { own: bit(K_CBOR), update: bad % 2 == 0, redact: 1 }, Layer { own: 0, update: bad % 3 == 0, redact: if bad > 3 { 2 } else { 0 } }],
            bad,
            posthoc: 0,
            posthoc_target: 0,
        });
    }
    for mode in 1..=3u8 {
        for (tgt, red) in [(0u8, 0u16), (1, 1), (2, 1), (3, 2), (5, 4), (7, 3)] {
            enum_cases.push(Case {
                kind: (mode + tgt) % 3,
                aseed: (run.seed as u16) ^ (mode as u16 * 1031 + tgt as u16),
                layers: vec![Layer { own: bases[0] | bit(K_CTHUMB), update: false, redact: 0 }, Layer { own: bit(K_NOTE), update: tgt % 2 == 1, redact: red }],
                bad: 0,
                posthoc: mode,
                posthoc_target: tgt,
            });
        }
    }
    // chains of depth 2 and 3 whose redactions hit several manifests; one case with the reserved-substring label
    for v in 0..12u16 {
        let deep = v % 2 == 1;
        let mut layers = vec![
            Layer { own: bit(K_NOTE) | bit(K_META) | bit(K_CBOR) | if v % 3 == 0 { bit(K_CTHUMB) } else { 0 }, update: false, redact: 0 },
            Layer { own: bit(K_NOTE) | bit(K_CBOR), update: v % 4 == 1, redact: 1 << (v % 3) },
            Layer { own: bit(K_NOTE) | bit(K_DUP), update: v % 4 == 2, redact: 0b0101 << (v % 2) },
        ];
        if deep {
            layers.push(Layer { own: bit(K_META), update: v % 4 == 3, redact: 0b10011 });
        }
        enum_cases.push(Case { kind: (v % 3) as u8, aseed: (run.seed as u16) ^ (0x5A00 + v), layers, bad: 0, posthoc: (v % 4) as u8, posthoc_target: v as u8 });
    }
    enum_cases.push(Case {
        kind: 0,
        aseed: (run.seed as u16) ^ 0x7777,
        layers: vec![Layer { own: 0x380 | bit(K_NOTE), update: false, redact: 0 }, Layer { own: 0, update: false, redact: 0b10 }],
        bad: 0,
        posthoc: 0,
        posthoc_target: 0,
    });
    let threads = if run.quick() { 6 } else { 12 };
    run.drive_enum_par("chain_enum", enum_cases, threads, |c| judge_chain(&run, c));

    // ---- random chains ----
    let layer = (0u16..1024, any::<bool>(), any::<u16>()).prop_map(|(own, update, redact)| Layer { own, update, redact });
    let strat = (0u8..3, any::<u16>(), proptest::collection::vec(layer, 2..=4), 0u8..14, 0u8..8, any::<u8>()).prop_map(|(kind, aseed, layers, bad, posthoc, posthoc_target)| Case {
        kind,
        aseed,
        layers,
        // half of the cases carry no disallowed target; the rest spread over the 6 kinds
        bad: if bad < 7 { 0 } else { bad - 7 },
        posthoc: if posthoc < 4 { 0 } else { posthoc - 4 },
        posthoc_target,
    });
    run.drive_par("chain_random", run.scale(110, 3200), threads, strat, |c| judge_chain(&run, c));

    // ---- conflicting redactions through two ingredients ----
    let strat = (0u8..3, any::<u16>(), 0u16..1024, 0u16..64, 0u16..64, 0u16..64, 0u8..2, any::<bool>()).prop_map(|(kind, aseed, base_own, r1, r2, r3, rel, swap)| MergeCase { kind, aseed, base_own, r1, r2, r3, rel, swap });
    run.drive_par("merge", run.scale(40, 800), threads, strat, |c| judge_merge(&run, c));

    // ---- several instances of one label: instance i redacted (valid), instance j != i removed post hoc ----
    let mut inst = vec![];
    for label in 0..INST_LABELS.len() as u8 {
        for n in [2u8, 3] {
            for i in 0..n {
                for j in 0..n {
                    if i == j {
                        continue;
                    }
                    for update in [false, true] {
                        for mode in 0..3u8 {
                            if run.quick() && mode != (label + i + j + update as u8) % 3 {
                                continue;
                            }
                            for kind in 0..3u8 {
                                if kind != (label + n + i + j + mode) % 3 && run.quick() {
                                    continue;
                                }
                                inst.push(InstCase { kind, aseed: (run.seed as u16) ^ (0x1A00 + (label as u16) * 64 + (n as u16) * 16 + (i as u16) * 4 + j as u16), label, n, redacted: i, removed: j, mode, update });
                            }
                        }
                    }
                }
            }
        }
    }
    run.drive_enum_par("instances", inst, threads, |c| judge_inst(&run, c));

    run.finish();
}
