//! C16 — Merkle proofs accept exactly the committed leaves.
//!
//! Oracle: an independent reference Merkle tree written from the textual definition (pairwise
//! H(left‖right), an unpaired last node is promoted unchanged) with its own proof generator and a
//! *strict* proof verifier (every level that has a sibling consumes exactly one proof element, nothing
//! is left over). The SDK tree / proof generator is reached through `verif_hooks::VerifMerkle`, the
//! verifier is the public `MerkleMap::check_merkle_tree`. Stored row and proof are combined exactly as
//! the SDK's own callers do (`tree_row = min(max_proofs, layers-1)`, `hashes = layers[tree_row]`,
//! `count = number of leaves`, proof = `get_proof_by_index(i, max_proofs)`, passed as `None` when empty).
//! Negative tuples are never assumed invalid: the reference decides.

use c2pa::{
    assertions::{MerkleMap, VecByteBuf},
    verif_hooks::VerifMerkle,
};
use proptest::prelude::*;
use serde::{Deserialize, Serialize};
use sha2::{Digest, Sha256, Sha384, Sha512};
use vh::{rng::SplitMix64, CaseResult, Fail, Run};

const ALGS: [&str; 3] = ["sha256", "sha384", "sha512"];

fn selftest() -> String {
    std::env::var("VERIF_SELFTEST").unwrap_or_default()
}

// ------------------------------------------------------------------------------------------------
// reference model (no SDK code)
// ------------------------------------------------------------------------------------------------
fn h2(alg: u8, l: &[u8], r: &[u8]) -> Vec<u8> {
    match alg {
        0 => {
            let mut h = Sha256::new();
            h.update(l);
            h.update(r);
            h.finalize().to_vec()
        }
        1 => {
            let mut h = Sha384::new();
            h.update(l);
            h.update(r);
            h.finalize().to_vec()
        }
        _ => {
            let mut h = Sha512::new();
            h.update(l);
            h.update(r);
            h.finalize().to_vec()
        }
    }
}

fn dlen(alg: u8) -> usize {
    match alg {
        0 => 32,
        1 => 48,
        _ => 64,
    }
}

/// All rows, row 0 = leaves, last row = root. `wrong_promote` is the self-test variant.
fn ref_rows(alg: u8, leaves: &[Vec<u8>], wrong_promote: bool) -> Vec<Vec<Vec<u8>>> {
    let mut rows = vec![leaves.to_vec()];
    while rows.last().unwrap().len() > 1 {
        let cur = rows.last().unwrap();
        let mut next = Vec::with_capacity(cur.len().div_ceil(2));
        for pair in cur.chunks(2) {
            if pair.len() == 2 {
                next.push(h2(alg, &pair[0], &pair[1]));
            } else if wrong_promote {
                next.push(h2(alg, &pair[0], &pair[0]));
            } else {
                next.push(pair[0].clone());
            }
        }
        rows.push(next);
    }
    rows
}

fn ref_sizes(n: usize) -> Vec<usize> {
    let mut v = vec![n];
    let mut c = n;
    while c > 1 {
        c = c.div_ceil(2);
        v.push(c);
    }
    v
}

/// Siblings of `index` on the way from row 0 up to (not including) row `depth`.
fn ref_proof(rows: &[Vec<Vec<u8>>], index: usize, depth: usize) -> Vec<Vec<u8>> {
    let mut out = vec![];
    let mut idx = index;
    for row in rows.iter().take(depth) {
        let sib = idx ^ 1;
        if sib < row.len() {
            out.push(row[sib].clone());
        }
        idx >>= 1;
    }
    out
}

/// Is (leaf, index, proof) an opening of `row` (= row `depth` of a tree with `n` leaves)?
/// strict: the proof must be consumed completely; lenient: trailing elements are ignored.
fn ref_verify(alg: u8, n: usize, depth: usize, row: &[Vec<u8>], index: u64, leaf: &[u8], proof: &[Vec<u8>], strict: bool) -> bool {
    if index >= n as u64 {
        return false;
    }
    let sizes = ref_sizes(n);
    let mut idx = index as usize;
    let mut cur = leaf.to_vec();
    let mut p = 0usize;
    for size in sizes.iter().take(depth) {
        let sib = idx ^ 1;
        if sib < *size {
            let Some(e) = proof.get(p) else { return false };
            cur = if idx & 1 == 1 { h2(alg, e, &cur) } else { h2(alg, &cur, e) };
            p += 1;
        }
        idx >>= 1;
    }
    if strict && p != proof.len() {
        return false;
    }
    row.get(idx).map(|x| x == &cur).unwrap_or(false)
}

/// Leaf values: digest-sized byte strings derived from (seed, class(i)); `dup` selects how classes repeat.
fn make_leaves(seed: u64, n: usize, dup: u8, alg: u8) -> Vec<Vec<u8>> {
    let len = dlen(alg);
    (0..n)
        .map(|i| {
            let class = match dup {
                0 => i as u64,                                         // all distinct
                1 => (i % 3) as u64,                                   // period 3
                2 => 0,                                                // all equal
                3 => (i / 2) as u64,                                   // sibling pairs equal
                4 => (i % 2) as u64,                                   // period 2: every pair hashes alike
                _ => SplitMix64::new(seed ^ 0xD00D ^ ((i as u64) << 8)).below(4), // random from 4 values
            };
            SplitMix64::new(seed ^ class.wrapping_mul(0xA24BAED4963EE407)).bytes(len)
        })
        .collect()
}

fn mk_map(n: usize, alg: &str, row: &[Vec<u8>]) -> MerkleMap {
    MerkleMap {
        unique_id: 0,
        local_id: 0,
        count: n,
        alg: Some(alg.to_string()),
        init_hash: None,
        hashes: VecByteBuf(row.iter().map(|v| v.clone().into()).collect()),
        fixed_block_size: None,
        variable_block_sizes: None,
    }
}

fn to_opt(p: &[Vec<u8>], empty_as_some: bool) -> Option<VecByteBuf> {
    if p.is_empty() && !empty_as_some {
        None
    } else {
        Some(VecByteBuf(p.iter().map(|v| v.clone().into()).collect()))
    }
}

fn hx(v: &[u8]) -> String {
    hex::encode(&v[..v.len().min(6)])
}

// ------------------------------------------------------------------------------------------------
// positives: exhaustive over (n, index, max_proof_len)
// ------------------------------------------------------------------------------------------------
#[derive(Clone, Debug, Serialize, Deserialize, PartialEq, Eq, Hash)]
struct PosCase {
    n: usize,
    alg: u8,
    dup: u8,
    seed: u64,
}

fn on_promoted_path(sizes: &[usize], index: usize, depth: usize) -> bool {
    let mut idx = index;
    for s in sizes.iter().take(depth) {
        if idx ^ 1 >= *s {
            return true;
        }
        idx >>= 1;
    }
    false
}

fn judge_pos(run: &Run, c: &PosCase) -> CaseResult {
    let algn = ALGS[c.alg as usize % 3];
    let alg = c.alg % 3;
    let leaves = make_leaves(c.seed, c.n, c.dup, alg);
    let rows = ref_rows(alg, &leaves, selftest() == "promote");
    let sizes = ref_sizes(c.n);
    let sdk = VerifMerkle::from_leaves(leaves.clone(), algn);
    let layers = sdk.layers();
    if VerifMerkle::to_layout(c.n) != sizes {
        return Err(Fail::new("C16:layout-differs", format!("to_layout({}) = {:?}, reference {:?}", c.n, VerifMerkle::to_layout(c.n), sizes)));
    }
    if layers != rows {
        let lvl = (0..rows.len().max(layers.len())).find(|&i| layers.get(i) != rows.get(i)).unwrap_or(0);
        return Err(Fail::new(
            "C16:tree-rows-differ",
            format!("n={} {}: SDK tree row {} differs from the reference tree (rows {} vs {})", c.n, algn, lvl, layers.len(), rows.len()),
        ));
    }
    let top = rows.len() - 1;
    let mut verified = 0u64;
    let mut promoted = 0u64;
    for m in 0..=rows.len() {
        // what the SDK's callers store for this max proof length
        let tree_row = m.min(layers.len() - 1);
        let mm = mk_map(c.n, algn, &layers[tree_row]);
        for i in 0..c.n {
            run.eval();
            let proof = match sdk.proof_by_index(i, m) {
                Ok(p) => p,
                Err(e) => return Err(Fail::new("C16:proof-generation-error", format!("n={} index={} max_proof_len={}: {e}", c.n, i, m))),
            };
            let want = ref_proof(&rows, i, tree_row.min(top));
            if proof != want {
                return Err(Fail::new(
                    "C16:proof-differs",
                    format!("n={} {} index={} max_proof_len={}: SDK proof has {} elements, reference {} (first difference at {:?})", c.n, algn, i, m, proof.len(), want.len(), (0..proof.len().max(want.len())).find(|&k| proof.get(k) != want.get(k))),
                ));
            }
            // the harness' own verifier must accept its own proof, otherwise the oracle is broken
            if !ref_verify(alg, c.n, tree_row, &rows[tree_row], i as u64, &leaves[i], &want, true) {
                return Err(Fail::new("C16:harness-reference-inconsistent", format!("n={} index={} depth={}", c.n, i, tree_row)));
            }
            let ok = mm.check_merkle_tree(algn, &leaves[i], i, &to_opt(&proof, false));
            if !ok {
                return Err(Fail::new(
                    "C16:own-proof-rejected",
                    format!("n={} {} index={} max_proof_len={} (stored row {} with {} hashes): check_merkle_tree rejects the SDK's own proof", c.n, algn, i, m, tree_row, layers[tree_row].len()),
                ));
            }
            verified += 1;
            if on_promoted_path(&sizes, i, tree_row) {
                promoted += 1;
                run.nontrivial(&(c.n, alg, c.dup, i, m));
            } else if !c.n.is_power_of_two() && m == top {
                run.nontrivial(&(c.n, alg, c.dup, i, m));
            }
        }
    }
    run.count_n("pos_proofs_verified", verified);
    run.count_n("pos_proofs_on_promoted_path", promoted);
    run.count(if c.n.is_power_of_two() { "pos_tree_power_of_two" } else { "pos_tree_not_power_of_two" });
    run.count(&format!("pos_tree_{}_dup{}", algn, c.dup));
    Ok(())
}

// ------------------------------------------------------------------------------------------------
// negatives: mutated (leaf, index, proof)
// ------------------------------------------------------------------------------------------------
#[derive(Clone, Debug, Serialize, Deserialize, PartialEq, Eq, Hash)]
enum Mut {
    /// flip one bit of the leaf value
    LeafFlip { byte: u16, bit: u8 },
    /// use the committed leaf at another position (j mod n)
    LeafFromIndex { j: u32 },
    /// unrelated random value
    LeafRandom { seed: u64 },
    /// use the tree node above the (original) leaf at `level` (1..) — "internal node as leaf"
    LeafNode { level: u8 },
    /// kind: 0 sibling, 1 +1, 2 −1, 3 n−1, 4 n, 5 v mod n, 6 n+(v mod 8), 7 explicit v, 8 index of another equal leaf
    Index { kind: u8, v: u64 },
    ProofFlip { k: u8, byte: u16, bit: u8 },
    ProofRemove { k: u8 },
    /// src: 0 random value, 1 copy of last element, 2 the leaf itself, 3 the next real sibling (the full proof's next element)
    ProofAppend { src: u8 },
    ProofInsert { k: u8, seed: u64 },
    ProofSwap { a: u8, b: u8 },
    /// drop the first c elements
    ProofDropFront { c: u8 },
    ProofClear,
    /// the SDK proof of another index (j mod n), same max proof length
    ProofOfIndex { j: u32 },
}

impl Mut {
    fn kind(&self) -> &'static str {
        match self {
            Mut::LeafFlip { .. } => "leaf_flip",
            Mut::LeafFromIndex { .. } => "leaf_from_other_index",
            Mut::LeafRandom { .. } => "leaf_random",
            Mut::LeafNode { .. } => "leaf_internal_node",
            Mut::Index { kind, .. } => match kind % 9 {
                0 => "index_sibling",
                1 => "index_plus1",
                2 => "index_minus1",
                3 => "index_last",
                4 => "index_n",
                5 => "index_random_in",
                6 => "index_beyond",
                7 => "index_explicit",
                _ => "index_of_equal_leaf",
            },
            Mut::ProofFlip { .. } => "proof_flip",
            Mut::ProofRemove { .. } => "proof_remove",
            Mut::ProofAppend { .. } => "proof_append",
            Mut::ProofInsert { .. } => "proof_insert",
            Mut::ProofSwap { .. } => "proof_swap",
            Mut::ProofDropFront { .. } => "proof_drop_front",
            Mut::ProofClear => "proof_clear",
            Mut::ProofOfIndex { .. } => "proof_of_other_index",
        }
    }
}

#[derive(Clone, Debug, Serialize, Deserialize, PartialEq, Eq, Hash)]
struct NegCase {
    n: usize,
    alg: u8,
    dup: u8,
    seed: u64,
    /// committed position = index_sel mod n
    index_sel: u32,
    /// max proof length = mlen_sel mod (rows+1)
    mlen_sel: u8,
    muts: Vec<Mut>,
    /// pass an empty proof as Some([]) instead of None
    empty_as_some: bool,
}

fn judge_neg(run: &Run, c: &NegCase) -> CaseResult {
    if c.n == 0 {
        return Ok(());
    }
    let alg = c.alg % 3;
    let algn = ALGS[alg as usize];
    let leaves = make_leaves(c.seed, c.n, c.dup, alg);
    let rows = ref_rows(alg, &leaves, false);
    let sdk = VerifMerkle::from_leaves(leaves.clone(), algn);
    let layers = sdk.layers();
    if layers != rows {
        return Err(Fail::new("C16:tree-rows-differ", format!("n={} {}: SDK tree differs from the reference tree", c.n, algn)));
    }
    let index = c.index_sel as usize % c.n;
    let m = c.mlen_sel as usize % (rows.len() + 1);
    let tree_row = m.min(rows.len() - 1);
    let stored = &layers[tree_row];
    let mm = mk_map(c.n, algn, stored);
    let proof0 = match sdk.proof_by_index(index, m) {
        Ok(p) => p,
        Err(e) => return Err(Fail::new("C16:proof-generation-error", format!("n={} index={} max_proof_len={}: {e}", c.n, index, m))),
    };

    let mut leaf = leaves[index].clone();
    let mut idx: u64 = index as u64;
    let mut proof = proof0.clone();
    for mu in &c.muts {
        match mu {
            Mut::LeafFlip { byte, bit } => {
                let b = *byte as usize % leaf.len();
                leaf[b] ^= 1 << (bit % 8);
            }
            Mut::LeafFromIndex { j } => leaf = leaves[*j as usize % c.n].clone(),
            Mut::LeafRandom { seed } => leaf = SplitMix64::new(*seed).bytes(dlen(alg)),
            Mut::LeafNode { level } => {
                if rows.len() > 1 {
                    let l = 1 + (*level as usize) % (rows.len() - 1);
                    leaf = rows[l][index >> l].clone();
                }
            }
            Mut::Index { kind, v } => {
                idx = match kind % 9 {
                    0 => idx ^ 1,
                    1 => idx.wrapping_add(1),
                    2 => idx.wrapping_sub(1),
                    3 => c.n as u64 - 1,
                    4 => c.n as u64,
                    5 => v % c.n as u64,
                    6 => c.n as u64 + v % 8,
                    7 => *v,
                    _ => (0..c.n)
                        .map(|d| (index + 1 + d + (*v as usize % c.n)) % c.n)
                        .find(|&j| j != index && leaves[j] == leaves[index])
                        .map(|j| j as u64)
                        .unwrap_or(v % c.n as u64),
                }
            }
            Mut::ProofFlip { k, byte, bit } => {
                if !proof.is_empty() {
                    let k = *k as usize % proof.len();
                    let b = *byte as usize % proof[k].len();
                    proof[k][b] ^= 1 << (bit % 8);
                }
            }
            Mut::ProofRemove { k } => {
                if !proof.is_empty() {
                    let k = *k as usize % proof.len();
                    proof.remove(k);
                }
            }
            Mut::ProofAppend { src } => {
                let e = match src % 4 {
                    0 => SplitMix64::new(c.seed ^ 0xA11D).bytes(dlen(alg)),
                    1 => proof.last().cloned().unwrap_or_else(|| leaf.clone()),
                    2 => leaf.clone(),
                    _ => {
                        // next element of the full-depth proof, if there is one
                        let full = ref_proof(&rows, index, rows.len() - 1);
                        full.get(proof0.len()).cloned().unwrap_or_else(|| SplitMix64::new(c.seed ^ 0xA11E).bytes(dlen(alg)))
                    }
                };
                proof.push(e);
            }
            Mut::ProofInsert { k, seed } => {
                let k = *k as usize % (proof.len() + 1);
                proof.insert(k, SplitMix64::new(*seed).bytes(dlen(alg)));
            }
            Mut::ProofSwap { a, b } => {
                if proof.len() >= 2 {
                    let a = *a as usize % proof.len();
                    let b = *b as usize % proof.len();
                    proof.swap(a, b);
                }
            }
            Mut::ProofDropFront { c: cnt } => {
                let k = (*cnt as usize).min(proof.len());
                proof.drain(..k);
            }
            Mut::ProofClear => proof.clear(),
            Mut::ProofOfIndex { j } => {
                proof = ref_proof(&rows, *j as usize % c.n, tree_row);
            }
        }
    }
    let changed = leaf != leaves[index] || idx != index as u64 || proof != proof0;
    for mu in &c.muts {
        run.count(&format!("neg_mut_{}", mu.kind()));
    }
    if c.muts.len() > 1 {
        run.count("neg_two_mutations");
    }
    if !changed {
        run.count("neg_mutation_was_noop");
    }

    let strict = ref_verify(alg, c.n, tree_row, &rows[tree_row], idx, &leaf, &proof, true);
    let lenient = ref_verify(alg, c.n, tree_row, &rows[tree_row], idx, &leaf, &proof, false);
    let opt = to_opt(&proof, c.empty_as_some);
    let idx_usize = usize::try_from(idx).unwrap_or(usize::MAX);
    let mut got = match vh::catch(|| mm.check_merkle_tree(algn, &leaf, idx_usize, &opt)) {
        Ok(b) => b,
        Err(p) => {
            return Err(Fail::new(
                format!("C16:verifier-panic:{}", vh::core::panic_site(&p)),
                format!("n={} index'={} proof len {}: check_merkle_tree panicked: {p}", c.n, idx, proof.len()),
            ))
        }
    };
    if selftest() == "accept-sibling" && c.muts.iter().any(|m| matches!(m, Mut::Index { kind, .. } if kind % 9 == 0)) {
        got = true; // deliberately corrupted SDK answer
    }
    if changed && idx < c.n as u64 {
        run.nontrivial(c);
    }
    run.count(if strict { "neg_reference_says_valid" } else { "neg_reference_says_invalid" });
    if strict && changed {
        run.count("neg_changed_but_legitimately_valid");
    }
    let descr = || {
        format!(
            "n={} {} dup={} committed index={} max_proof_len={} (stored row {} = {} hashes); presented leaf {}… index {} proof {} element(s){} after {:?}",
            c.n,
            algn,
            c.dup,
            index,
            m,
            tree_row,
            stored.len(),
            hx(&leaf),
            idx,
            proof.len(),
            if opt.is_none() { " (None)" } else { "" },
            c.muts
        )
    };
    if got && !strict {
        let sig = if lenient {
            "C16:trailing-proof-elements-ignored"
        } else if opt.is_none() && tree_row >= 1 && (idx as usize) < c.n && stored.get((idx as usize) >> tree_row) == Some(&leaf) {
            "C16:stored-row-node-accepted-as-leaf-without-proof"
        } else {
            "C16:invalid-opening-accepted"
        };
        return Err(Fail::new(sig, format!("check_merkle_tree accepts a tuple that is not an opening of the committed tree: {}", descr())));
    }
    if !got && strict {
        return Err(Fail::new("C16:valid-opening-rejected", format!("check_merkle_tree rejects a valid opening: {}", descr())));
    }
    Ok(())
}

/// Systematic single (and the classic double) mutations for one committed position.
fn small_negatives(n: usize, alg: u8, dup: u8, seed: u64, out: &mut Vec<NegCase>) {
    let depth = ref_sizes(n).len() - 1;
    for m in 0..=depth + 1 {
        let tree_row = m.min(depth);
        for index in 0..n {
            let base = |muts: Vec<Mut>, eas: bool| NegCase { n, alg, dup, seed, index_sel: index as u32, mlen_sel: m as u8, muts, empty_as_some: eas };
            // every other index, and two beyond the end
            for j in 0..n + 2 {
                if j != index {
                    out.push(base(vec![Mut::Index { kind: 7, v: j as u64 }], false));
                }
            }
            out.push(base(vec![Mut::Index { kind: 7, v: u64::MAX }], false));
            // every other committed leaf value, flipped bits, random, internal nodes
            for j in 0..n {
                if j != index {
                    out.push(base(vec![Mut::LeafFromIndex { j: j as u32 }], false));
                }
            }
            out.push(base(vec![Mut::LeafFlip { byte: 0, bit: 0 }], false));
            out.push(base(vec![Mut::LeafFlip { byte: 31, bit: 7 }], false));
            out.push(base(vec![Mut::LeafRandom { seed: seed ^ 77 }], false));
            for level in 0..depth {
                out.push(base(vec![Mut::LeafNode { level: level as u8 }], false));
                // internal node as leaf with the matching shorter proof / no proof
                out.push(base(vec![Mut::LeafNode { level: level as u8 }, Mut::ProofClear], false));
                out.push(base(vec![Mut::LeafNode { level: level as u8 }, Mut::ProofClear], true));
                for cfront in 1..=(tree_row as u8) {
                    out.push(base(vec![Mut::LeafNode { level: level as u8 }, Mut::ProofDropFront { c: cfront }], false));
                }
            }
            // proof edits (positions beyond the proof length wrap around; duplicates are harmless)
            let plen = tree_row; // upper bound of the proof length
            for k in 0..plen.max(1) {
                out.push(base(vec![Mut::ProofFlip { k: k as u8, byte: 0, bit: 0 }], false));
                out.push(base(vec![Mut::ProofRemove { k: k as u8 }], false));
                out.push(base(vec![Mut::ProofInsert { k: k as u8, seed: seed ^ 99 }], false));
                for b in k + 1..plen {
                    out.push(base(vec![Mut::ProofSwap { a: k as u8, b: b as u8 }], false));
                }
            }
            for src in 0..4 {
                out.push(base(vec![Mut::ProofAppend { src }], false));
            }
            out.push(base(vec![Mut::ProofClear], false));
            out.push(base(vec![Mut::ProofClear], true));
            for j in 0..n {
                if j != index {
                    out.push(base(vec![Mut::ProofOfIndex { j: j as u32 }], false));
                    // the complete opening of another position, presented at this position and vice versa
                    out.push(base(vec![Mut::ProofOfIndex { j: j as u32 }, Mut::LeafFromIndex { j: j as u32 }], false));
                    out.push(base(vec![Mut::ProofOfIndex { j: j as u32 }, Mut::Index { kind: 7, v: j as u64 }], false));
                }
            }
        }
    }
}

fn mut_strategy() -> impl Strategy<Value = Mut> {
    // one selector + two parameter words (no boxed strategies: the strategy must be Sync for drive_par)
    (0u8..15, any::<u64>(), any::<u64>()).prop_map(|(sel, x, y)| {
        let k = (x % 10) as u8;
        match sel {
            0 => Mut::LeafFlip { byte: x as u16, bit: (y % 8) as u8 },
            1 => Mut::Index { kind: [0u8, 1, 2, 3, 4, 5, 6, 8][(x % 8) as usize], v: y },
            2 => Mut::ProofFlip { k, byte: y as u16, bit: ((y >> 16) % 8) as u8 },
            3 => Mut::ProofRemove { k },
            4 => Mut::ProofAppend { src: (x % 4) as u8 },
            5 => Mut::ProofSwap { a: k, b: (y % 10) as u8 },
            6 => Mut::LeafFromIndex { j: x as u32 },
            7 => Mut::LeafRandom { seed: x },
            8 => Mut::LeafNode { level: (x % 9) as u8 },
            9 => Mut::Index { kind: 8, v: y },
            10 => Mut::ProofInsert { k, seed: y },
            11 => Mut::ProofDropFront { c: 1 + (x % 9) as u8 },
            12 => Mut::ProofClear,
            13 => Mut::ProofOfIndex { j: x as u32 },
            _ => Mut::Index { kind: 0, v: 0 },
        }
    })
}

fn main() {
    vh::quiet_panics();
    let run = Run::from_args("C16", "exploration");
    run.set_rule("positives: every leaf count n=1..300 x every leaf index x every max proof length 0..=rows (stored row = min(max_proofs, rows-1) exactly as the SDK's MerkleMap builders do), leaf values = digest-sized strings from the run seed with duplicate patterns (distinct, period 2/3, all equal, equal sibling pairs, 4-value random); non-trivial positive = index on a promoted (unpaired) path, or root row of a non-power-of-two tree. negatives: the committed tuple after 1..2 mutations of leaf value / index / proof (systematic for small n, random up to n=300); non-trivial negative = tuple really changed and index still < n. The reference (strict verifier) decides whether a mutated tuple is a valid opening.");
    run.assume("SHA-2 from the sha2 crate is the hash the property means; leaf values are digest-sized (what every SDK caller passes)");
    run.assume("stored row / proof pairing follows create_merkle_map_for_mdat_box and add_merkle_for_fragmented: hashes = layers[min(max_proofs, layers-1)], count = leaf count, empty proof passed as None");
    run.assume("a proof is an opening only if it is consumed exactly (one element per level that has a sibling, none left over)");

    let threads = std::thread::available_parallelism().map(|n| n.get()).unwrap_or(4).min(16);

    // ---- (a) exhaustive positives ------------------------------------------------------------------
    let mut sm = SplitMix64::new(run.seed ^ 0xC16);
    let mut pos = vec![];
    let max_n = 300usize;
    for n in 1..=max_n {
        for alg in 0..3u8 {
            pos.push(PosCase { n, alg, dup: 0, seed: sm.next_u64() });
        }
        let dups: &[u8] = if run.quick() { &[3, 4] } else { &[1, 2, 3, 4, 5] };
        for &dup in dups {
            let algs: &[u8] = if run.quick() { &[0] } else { &[0, 1, 2] };
            for &alg in algs {
                pos.push(PosCase { n, alg, dup, seed: sm.next_u64() });
            }
        }
    }
    run.extra("positive_leaf_counts", serde_json::json!(format!("1..={max_n} (all), every index, every max proof length 0..=rows")));
    run.drive_enum_par("positive_exhaustive", pos, threads, |c| judge_pos(&run, c));
    run.set_exhaustive(true);

    // ---- (b) systematic negatives for small trees --------------------------------------------------
    let small_max = run.scale(14usize, 36usize);
    let mut neg = vec![];
    for n in 1..=small_max {
        for (alg, dup) in [(0u8, 0u8), (0, 3), (0, 2), (1, 4), (2, 1)] {
            if run.quick() && n > 9 && dup != 0 {
                continue;
            }
            small_negatives(n, alg, dup, sm.next_u64(), &mut neg);
        }
    }
    run.extra("systematic_negative_cases", serde_json::json!(neg.len()));
    run.drive_enum_par("negative_systematic", neg, threads, |c| judge_neg(&run, c));

    // ---- (c) random negatives up to n = 300 ---------------------------------------------------------
    let n_strat = prop_oneof![3 => 1usize..=16, 2 => 1usize..=64, 2 => 1usize..=300];
    let strat = (n_strat, 0u8..3, 0u8..6, any::<u64>(), any::<u32>(), any::<u8>(), proptest::collection::vec(mut_strategy(), 1..=2), proptest::bool::weighted(0.15))
        .prop_map(|(n, alg, dup, seed, index_sel, mlen_sel, muts, empty_as_some)| NegCase { n, alg, dup, seed, index_sel, mlen_sel, muts, empty_as_some });
    run.drive_par("negative_random", run.scale(1_500_000, 40_000_000), threads, strat, |c| judge_neg(&run, c));

    // ---- (d) empty tree edge: nothing verifies against a map with count 0 --------------------------
    let mm0 = mk_map(0, "sha256", &[]);
    for i in [0usize, 1, usize::MAX] {
        run.eval();
        if vh::catch(|| mm0.check_merkle_tree("sha256", &[0u8; 32], i, &None)).unwrap_or(true) {
            run.fail(
                "empty_tree",
                &Fail::new("C16:empty-tree-accepts", format!("count=0, index {i} verifies or panics")),
                serde_json::json!({"index": i}),
            );
        }
    }
    run.finish();
}
