//! C06 — certificate profile violations make the manifest invalid; conforming certificates are never flagged.
//!
//! Generator: `vh::pki` builds, for every (profile rule × signer key type), an end-entity certificate that
//! violates exactly that rule (plus conforming controls), with seeded benign variation. Two observation
//! levels: the public profile function `check_end_entity_certificate_profile`, and end-to-end through
//! `Builder::sign` with a stateful signer (conforming chain for the pre-sign self-check, the violating
//! certificate — same key — embedded) followed by `Reader`.
//! Oracle: by construction (the generator knows which rule it broke).

use std::collections::BTreeSet;

use c2pa::{
    crypto::cose::{check_end_entity_certificate_profile, CertificateTrustPolicy},
    status_tracker::StatusTracker,
    BuilderIntent, DigitalSourceType,
};
use serde::{Deserialize, Serialize};
use serde_json::json;
use vh::{
    pki::{self, der, ku, oids, CertSpec, ChainSpec, KeyKind, PkiSigner, RawExt, SigDigest},
    rng::SplitMix64,
    sdk, CaseResult, Fail, Run,
};

#[derive(Clone, Debug, Serialize, Deserialize, PartialEq, Eq, Hash)]
struct Case {
    /// rule name (see `RULES`), "conforming" for the control
    rule: String,
    key: KeyKind,
    /// 0 = direct profile function, 1 = end-to-end
    level: u8,
    /// seed of the benign variation
    var: u64,
}

/// What the check expects for a rule.
#[derive(Clone, Copy, PartialEq, Eq, Debug)]
enum Expect {
    Reject,
    Accept,
    /// not listed in the property: SDK answer is recorded, never judged
    Record,
}

/// (rule, expectation, applies to every conforming key type?)
const RULES: &[(&str, Expect, bool)] = &[
    ("conforming", Expect::Accept, true),
    ("v1", Expect::Reject, true),
    ("v1_bare", Expect::Reject, true),
    ("v2", Expect::Reject, true),
    ("ca_true", Expect::Reject, true),
    ("self_signed", Expect::Reject, true),
    ("self_signed_ca", Expect::Reject, true),
    ("sig_sha1", Expect::Reject, true),
    ("sig_md5", Expect::Reject, true),
    ("issuer_uid", Expect::Reject, true),
    ("subject_uid", Expect::Reject, true),
    ("ku_absent", Expect::Reject, true),
    ("ku_no_digsig", Expect::Reject, true),
    ("ku_nonrep_only", Expect::Reject, true),
    ("ku_certsign", Expect::Reject, true),
    ("ku_certsign_only", Expect::Reject, true),
    ("eku_absent", Expect::Reject, true),
    ("eku_any", Expect::Reject, true),
    ("eku_any_plus_email", Expect::Reject, true),
    ("eku_disallowed", Expect::Reject, true),
    ("eku_mixed_ts_email", Expect::Reject, true),
    ("eku_mixed_ocsp_ts", Expect::Reject, true),
    ("crit_unknown", Expect::Reject, true),
    // critical extensions under OIDs x509-parser knows but the C2PA profile does not handle
    ("crit_issuer_alt_name", Expect::Reject, true),
    ("crit_subject_info_access", Expect::Reject, true),
    ("crit_ns_comment", Expect::Reject, true),
    ("crit_issuing_dist_point", Expect::Reject, true),
    ("crit_sct_list", Expect::Reject, true),
    // critical extensions whose content does not parse (known OID, malformed DER)
    ("crit_malformed_issuer_alt_name", Expect::Reject, true),
    ("crit_malformed_policies", Expect::Reject, true),
    // Netscape cert type is on the profile code's list of tolerated extensions: recorded, not judged
    ("crit_ns_cert_type", Expect::Record, true),
    ("not_yet_valid", Expect::Reject, true),
    ("expired", Expect::Reject, true),
    ("aki_missing", Expect::Record, true),
    // key rules: the key type is the violation
    ("key_secp256k1", Expect::Reject, false),
    ("key_p224", Expect::Reject, false),
    ("key_rsa1024", Expect::Reject, false),
    ("key_rsapss1024", Expect::Reject, false),
];

fn expect_of(rule: &str) -> Expect {
    RULES.iter().find(|r| r.0 == rule).map(|r| r.1).unwrap_or(Expect::Record)
}

fn key_rule_kind(rule: &str) -> Option<KeyKind> {
    match rule {
        "key_secp256k1" => Some(KeyKind::Secp256k1),
        "key_p224" => Some(KeyKind::P224),
        "key_rsa1024" => Some(KeyKind::Rsa1024),
        "key_rsapss1024" => Some(KeyKind::RsaPss1024),
        _ => None,
    }
}

/// Conforming EE spec with benign variation drawn from `r`.
fn benign(r: &mut SplitMix64, tag: &str) -> CertSpec {
    let mut s = CertSpec::ee(&format!("Signer {tag} {:x}", r.below(1 << 32)));
    s.org = Some(format!("Verif Org {}", r.below(1000)));
    let serial_len = 1 + r.usize(16);
    s.serial_hex = hex::encode(r.bytes(serial_len));
    if s.serial_hex.chars().all(|c| c == '0') {
        s.serial_hex = "01".into();
    }
    s.noncritical_unknown_exts = r.below(3) as u8;
    s.key_usage = Some(if r.bool() { ku::DIGITAL_SIGNATURE } else { ku::DIGITAL_SIGNATURE | ku::NON_REPUDIATION });
    s.ku_critical = !r.chance(1, 4);
    s.eku = Some(match r.below(5) {
        0 => vec![oids::EKU_DOCUMENT_SIGNING.to_string()],
        1 => vec![oids::EKU_EMAIL_PROTECTION.to_string(), oids::EKU_DOCUMENT_SIGNING.to_string()],
        2 => vec![oids::EKU_C2PA_SIGNING.to_string()],
        _ => vec![oids::EKU_EMAIL_PROTECTION.to_string()],
    });
    s.eku_critical = r.bool();
    // basicConstraints: CA:FALSE (critical or not) or absent
    match r.below(4) {
        0 => s.is_ca = None,
        1 => s.bc_critical = false,
        _ => {}
    }
    s.ski = !r.chance(1, 4);
    s.not_before_off = -(86_400 + r.below(400 * 86_400) as i64);
    s.not_after_off = 2 * 86_400 + r.below(900 * 86_400) as i64;
    s.digest = *r.pick(&[SigDigest::Auto, SigDigest::Sha256, SigDigest::Sha384, SigDigest::Sha512]);
    s.pss = r.bool();
    s
}

/// Append a critical extension with the given extnValue content.
fn crit_ext(s: &mut CertSpec, oid: &str, value: Vec<u8>) {
    s.extra_exts.push(RawExt { oid: oid.to_string(), critical: true, value_hex: hex::encode(value) });
}

fn apply_rule(rule: &str, s: &mut CertSpec, r: &mut SplitMix64) {
    match rule {
        "conforming" | "self_signed" => {}
        "v1" => s.version = 1,
        "v1_bare" => {
            s.version = 1;
            s.no_extensions = true;
        }
        "v2" => s.version = 2,
        "ca_true" | "self_signed_ca" => {
            s.is_ca = Some(true);
            s.bc_critical = true;
        }
        "sig_sha1" => s.digest = SigDigest::Sha1,
        "sig_md5" => {
            s.digest = SigDigest::Md5;
            s.pss = false;
        }
        "issuer_uid" => {
            let n = 1 + r.usize(8);
            s.issuer_uid_hex = Some(hex::encode(r.bytes(n)))
        }
        "subject_uid" => {
            let n = 1 + r.usize(8);
            s.subject_uid_hex = Some(hex::encode(r.bytes(n)))
        }
        "ku_absent" => s.key_usage = None,
        "ku_no_digsig" => {
            s.key_usage = Some(*r.pick(&[ku::KEY_ENCIPHERMENT, ku::KEY_AGREEMENT, ku::DATA_ENCIPHERMENT | ku::KEY_ENCIPHERMENT]))
        }
        "ku_nonrep_only" => s.key_usage = Some(ku::NON_REPUDIATION),
        "ku_certsign" => s.key_usage = Some(ku::DIGITAL_SIGNATURE | ku::KEY_CERT_SIGN),
        "ku_certsign_only" => s.key_usage = Some(*r.pick(&[ku::KEY_CERT_SIGN, ku::KEY_CERT_SIGN | ku::CRL_SIGN])),
        "eku_absent" => s.eku = None,
        "eku_any" => s.eku = Some(vec![oids::EKU_ANY.to_string()]),
        "eku_any_plus_email" => s.eku = Some(vec![oids::EKU_EMAIL_PROTECTION.to_string(), oids::EKU_ANY.to_string()]),
        "eku_disallowed" => {
            s.eku = Some(match r.below(3) {
                0 => vec![oids::EKU_SERVER_AUTH.to_string()],
                1 => vec![oids::EKU_CLIENT_AUTH.to_string(), oids::EKU_CODE_SIGNING.to_string()],
                _ => vec![oids::EKU_CUSTOM.to_string()],
            })
        }
        "eku_mixed_ts_email" => {
            s.eku = Some(vec![oids::EKU_TIME_STAMPING.to_string(), oids::EKU_EMAIL_PROTECTION.to_string()])
        }
        "eku_mixed_ocsp_ts" => s.eku = Some(vec![oids::EKU_OCSP_SIGNING.to_string(), oids::EKU_TIME_STAMPING.to_string()]),
        "crit_unknown" => s.critical_unknown_ext = true,
        "crit_issuer_alt_name" => {
            // GeneralNames { rfc822Name }
            let mail = format!("issuer{}@example.com", r.below(1000));
            crit_ext(s, "2.5.29.18", der::seq(&[der::ctx(1, false, mail.as_bytes())]))
        }
        "crit_subject_info_access" => {
            // SubjectInfoAccessSyntax { AccessDescription { id-ad-caRepository | id-ad-timeStamping, URI } }
            let method = *r.pick(&["1.3.6.1.5.5.7.48.5", "1.3.6.1.5.5.7.48.3"]);
            let uri = format!("http://repo{}.example.com/", r.below(1000));
            crit_ext(s, "1.3.6.1.5.5.7.1.11", der::seq(&[der::seq(&[der::oid(method), der::ctx(6, false, uri.as_bytes())])]))
        }
        "crit_ns_comment" => crit_ext(s, "2.16.840.1.113730.1.13", der::tlv(0x16, format!("comment {}", r.below(1000)).as_bytes())),
        "crit_issuing_dist_point" => {
            // IssuingDistributionPoint { onlyContainsUserCerts [1] TRUE } or { onlyContainsCACerts [2] TRUE }
            let tag = if r.bool() { 1 } else { 2 };
            crit_ext(s, "2.5.29.28", der::seq(&[der::ctx(tag, false, &[0xff])]))
        }
        "crit_sct_list" => {
            // SignedCertificateTimestampList (RFC 6962): one v1 SCT with an ECDSA/SHA-256 signature blob
            let mut sct = vec![0u8];
            sct.extend(r.bytes(32)); // log id
            sct.extend(r.bytes(8)); // timestamp
            sct.extend([0, 0]); // no extensions
            sct.extend([4, 3]); // sha256, ecdsa
            let sig = r.bytes(70);
            sct.extend((sig.len() as u16).to_be_bytes());
            sct.extend(sig);
            let mut list = (sct.len() as u16).to_be_bytes().to_vec();
            list.extend(sct);
            let mut tls = (list.len() as u16).to_be_bytes().to_vec();
            tls.extend(list);
            crit_ext(s, "1.3.6.1.4.1.11129.2.4.2", der::octet(&tls))
        }
        "crit_malformed_issuer_alt_name" => {
            let junk = match r.below(3) {
                0 => vec![0xff, 0xff],
                1 => vec![0x30, 0x05, 0x81, 0x01], // truncated SEQUENCE
                _ => vec![0x04, 0x02, 0x41, 0x42], // wrong type
            };
            crit_ext(s, "2.5.29.18", junk)
        }
        "crit_malformed_policies" => {
            let junk = match r.below(3) {
                0 => vec![0xff, 0xff],
                1 => vec![0x30, 0x06, 0x30, 0x08, 0x06, 0x02], // truncated PolicyInformation
                _ => vec![0x02, 0x01, 0x05], // INTEGER instead of SEQUENCE
            };
            crit_ext(s, "2.5.29.32", junk)
        }
        "crit_ns_cert_type" => crit_ext(s, "2.16.840.1.113730.1.1", der::bit_string(&[0x80], 7)),
        "not_yet_valid" => {
            s.not_before_off = 2 * 86_400 + r.below(30 * 86_400) as i64;
            s.not_after_off = s.not_before_off + 365 * 86_400;
        }
        "expired" => {
            s.not_after_off = -(2 * 86_400 + r.below(30 * 86_400) as i64);
            s.not_before_off = s.not_after_off - 365 * 86_400;
        }
        "aki_missing" => s.aki = false,
        _ => {}
    }
}

struct Built {
    /// violating (or control) certificate first, then the intermediate
    later: Vec<Vec<u8>>,
    /// conforming chain for the pre-sign self-check
    first: Vec<Vec<u8>>,
    key: openssl::pkey::PKey<openssl::pkey::Private>,
    kind: KeyKind,
    root_pem: String,
    self_signed: bool,
    issuer_kind: KeyKind,
}

fn build(c: &Case, now: i64) -> Result<Built, String> {
    let mut r = SplitMix64::new(c.var ^ vh::digest(&c.rule));
    let ee_kind = key_rule_kind(&c.rule).unwrap_or(c.key);
    let issuer_kind = match c.rule.as_str() {
        "sig_md5" => KeyKind::Rsa2048,
        "sig_sha1" => *r.pick(&[KeyKind::Rsa2048, KeyKind::P256, KeyKind::P384, KeyKind::RsaPss2048]),
        _ => *r.pick(&[KeyKind::P256, KeyKind::P384, KeyKind::P521, KeyKind::Ed25519, KeyKind::Rsa2048, KeyKind::RsaPss2048]),
    };
    let tag = format!("{}-{}-{:x}", c.rule, ee_kind.name(), c.var & 0xffff);
    let mut cs = ChainSpec::simple(2, ee_kind, issuer_kind, &tag);
    // EC / Ed25519 keys are cheap: rotate pool slots; RSA keys stay in slot 0
    cs.slot_base = if ee_kind.is_rsa() || issuer_kind.is_rsa() { 0 } else { 10 * r.usize(4) };
    let good = benign(&mut r, &tag);
    let mut bad = good.clone();
    apply_rule(&c.rule, &mut bad, &mut r);
    let self_signed = c.rule.starts_with("self_signed");

    // conforming chain (also provides issuer + root)
    cs.ee = good.clone();
    let mut good_for_first = good.clone();
    good_for_first.digest = if matches!(good.digest, SigDigest::Sha1 | SigDigest::Md5) { SigDigest::Auto } else { good.digest };
    let first_kind = if key_rule_kind(&c.rule).is_some() { KeyKind::P256 } else { ee_kind };
    let mut cs_first = cs.clone();
    cs_first.ee = good_for_first;
    cs_first.ee_key = first_kind;
    let first_chain = pki::make_chain(&cs_first, now)?;
    let key = pki::pool_key(ee_kind, cs.slot_base)?;

    let bad_der = if self_signed {
        pki::make_cert(&bad, &key, ee_kind, None, now)?
    } else {
        let iss = first_chain.issuer_at(1, &cs.cas[0])?;
        pki::make_cert(&bad, &key, ee_kind, Some(&iss), now)?
    };
    let later = if self_signed { vec![bad_der] } else { vec![bad_der, first_chain.all_der[1].clone()] };
    Ok(Built {
        later,
        first: first_chain.supplied_der.clone(),
        key,
        kind: ee_kind,
        root_pem: first_chain.root_pem(),
        self_signed,
        issuer_kind,
    })
}

fn selftest() -> String {
    std::env::var("VERIF_SELFTEST").unwrap_or_default()
}

/// `VERIF_SELFTEST=miss` (rule ca_true) or `VERIF_SELFTEST=miss:<rule>`: the SDK's answer for that rule is
/// replaced by "accepted".
fn selftest_miss(rule: &str) -> bool {
    let st = selftest();
    match st.strip_prefix("miss") {
        Some("") => rule == "ca_true",
        Some(rest) => rest.strip_prefix(':') == Some(rule),
        None => false,
    }
}

fn judge(run: &Run, src: &[u8], now: i64, c: &Case) -> CaseResult {
    let want = expect_of(&c.rule);
    let lvl = if c.level == 0 { "direct" } else { "e2e" };
    let b = match build(c, now) {
        Ok(b) => b,
        Err(e) => {
            run.count("generator_error");
            run.inconclusive(format!("generator failed for {c:?}: {e}"));
            return Ok(());
        }
    };
    let class_key = if key_rule_kind(&c.rule).is_some() { b.kind.name() } else { c.key.name() };
    let pem = pki::pem_of(&b.later[0]);
    let st = selftest();

    if c.level == 0 {
        let ctp = CertificateTrustPolicy::default();
        let mut log = StatusTracker::default();
        let res = vh::catch(|| check_end_entity_certificate_profile(&b.later[0], &ctp, &mut log, None));
        let res = match res {
            Ok(r) => r,
            Err(p) => return Err(Fail::new(format!("C06:panic-{}", vh::core::panic_site(&p)), format!("profile check panicked: {p}\n{pem}"))),
        };
        let codes: Vec<String> = log
            .logged_items()
            .iter()
            .filter_map(|i| i.validation_status.as_ref().map(|s| s.to_string()))
            .collect();
        let mut accepted = res.is_ok();
        if selftest_miss(&c.rule) {
            accepted = true;
        }
        if st == "falseflag" && c.rule == "conforming" {
            accepted = false;
        }
        run.count(&format!("{lvl}:{}:{}", c.rule, class_key));
        run.count(&format!("{lvl}_answer:{}:{}", c.rule, if accepted { "accepted" } else { "rejected" }));
        run.nontrivial(c);
        match want {
            Expect::Record => Ok(()),
            Expect::Reject => {
                if accepted {
                    return Err(Fail::new(
                        format!("C06:{}-accepted", c.rule),
                        format!("direct: check_end_entity_certificate_profile returned Ok for a certificate violating rule {} (key {}, issuer {})\n{pem}", c.rule, b.kind.name(), b.issuer_kind.name()),
                    ));
                }
                if !codes.iter().any(|s| s.starts_with("signingCredential.")) {
                    return Err(Fail::new(
                        format!("C06:{}-no-credential-code-direct", c.rule),
                        format!("rule {}: rejected ({:?}) but no signingCredential.* status was logged (logged {:?})\n{pem}", c.rule, res, codes),
                    ));
                }
                Ok(())
            }
            Expect::Accept => {
                if !accepted || codes.iter().any(|s| s.starts_with("signingCredential.")) {
                    return Err(Fail::new(
                        "C06:conforming-flagged-direct",
                        format!("conforming certificate (key {}, issuer {}) flagged: {:?} logged {:?}\n{pem}", b.kind.name(), b.issuer_kind.name(), res, codes),
                    ));
                }
                Ok(())
            }
        }
    } else {
        // end to end: stateful signer
        let signer = PkiSigner::new(b.key.clone(), b.kind, b.later.clone()).with_first_answer(b.first.clone(), 1);
        let mut settings = sdk::base_settings(false);
        let mut trust = json!({ "trust_anchors": b.root_pem });
        if b.self_signed {
            // take trust out of the picture: the self-signed certificate is on the allow list
            trust["allowed_list"] = json!(pem);
        }
        sdk::merge(&mut settings, &json!({ "trust": trust, "verify": { "verify_after_sign": false } }));
        let signed = vh::catch(|| {
            sdk::sign_with(
                sdk::context_with(&settings),
                &sdk::simple_definition("c06"),
                Some(BuilderIntent::Create(DigitalSourceType::Empty)),
                &signer,
                "image/jpeg",
                src,
            )
        });
        let bytes = match signed {
            Ok(Ok(b)) => b,
            Ok(Err(e)) => {
                run.count(&format!("e2e_sign_error:{}", c.rule));
                run.inconclusive(format!("signing failed for {c:?}: {e}"));
                return Ok(());
            }
            Err(p) => return Err(Fail::new(format!("C06:panic-{}", vh::core::panic_site(&p)), format!("sign panicked: {p}\n{pem}"))),
        };
        if signer.calls() != 2 {
            run.count("e2e_unexpected_certs_calls");
            run.inconclusive(format!("Signer::certs() was called {} times (recipe assumes 2)", signer.calls()));
            return Ok(());
        }
        let read = vh::catch(|| sdk::read_with(sdk::context_with(&settings), "image/jpeg", &bytes));
        run.count(&format!("{lvl}:{}:{}", c.rule, class_key));
        run.nontrivial(c);
        let reader = match read {
            Ok(Ok(r)) => r,
            Ok(Err(e)) => {
                run.count(&format!("e2e_reader_err:{}", c.rule));
                return match want {
                    Expect::Accept => Err(Fail::new("C06:conforming-flagged-e2e", format!("reader error {e} for a conforming certificate\n{pem}"))),
                    // no report at all: "never Valid/Trusted" holds, the code half cannot be observed
                    _ => Ok(()),
                };
            }
            Err(p) => return Err(Fail::new(format!("C06:panic-{}", vh::core::panic_site(&p)), format!("read panicked: {p}\n{pem}"))),
        };
        let mut state = sdk::state_name(reader.validation_state()).to_string();
        let mut fails = sdk::failure_codes(&reader);
        if selftest_miss(&c.rule) {
            state = "Trusted".into();
            fails.clear();
        }
        if st == "falseflag" && c.rule == "conforming" {
            fails.push("signingCredential.invalid".into());
        }
        let cred_fail: Vec<&String> =
            fails.iter().filter(|f| f.starts_with("signingCredential.") && *f != "signingCredential.untrusted").collect();
        run.count(&format!("e2e_answer:{}:{}{}", c.rule, state, if cred_fail.is_empty() { "" } else { "+credcode" }));
        let good_state = state == "Valid" || state == "Trusted";
        match want {
            Expect::Record => Ok(()),
            Expect::Reject => {
                if good_state {
                    return Err(Fail::new(
                        format!("C06:{}-accepted", c.rule),
                        format!("e2e: manifest signed with a certificate violating rule {} (key {}, issuer {}) is reported {state}, failures {:?}\n{pem}", c.rule, b.kind.name(), b.issuer_kind.name(), fails),
                    ));
                }
                if cred_fail.is_empty() {
                    return Err(Fail::new(
                        format!("C06:{}-no-credential-code-e2e", c.rule),
                        format!("rule {}: state {state} but no signingCredential.* failure code (failures {:?})\n{pem}", c.rule, fails),
                    ));
                }
                Ok(())
            }
            Expect::Accept => {
                if !good_state || fails.iter().any(|f| f.starts_with("signingCredential.")) {
                    return Err(Fail::new(
                        "C06:conforming-flagged-e2e",
                        format!("conforming certificate (key {}, issuer {}): state {state}, failures {:?}\n{pem}", b.kind.name(), b.issuer_kind.name(), fails),
                    ));
                }
                Ok(())
            }
        }
    }
}

fn main() {
    vh::quiet_panics();
    let run = Run::from_args("C06", "exploration");
    run.set_rule("one class per (profile rule x signer key type x level): a conforming end-entity certificate with seeded benign variation (subject, serial, validity window, KU digitalSignature[+nonRepudiation], EKU emailProtection/documentSigning/C2PA, criticality flags, basicConstraints CA:FALSE or absent, SKI, 0-2 unknown non-critical extensions, issuer key type and signature digest/PSS) to which exactly one violation is applied; every generated case is non-trivial (distance one from a conforming certificate, or the control itself); all classes must be hit");
    run.assume("certificates are valid 'now' with margins of at least one day (the profile check without a time-stamp compares against the system clock)");
    run.assume("Builder::sign calls Signer::certs() exactly twice (self-check, then embedding) — asserted per case");
    run.assume("the time-stamped half of the property (signing time fixed by a TSA) is not exercised here: no TSA in this check");
    let _ = std::fs::create_dir_all("/verif/work/C06");
    let now = pki::now_epoch();
    let src = sdk::fixture("no_manifest.jpg");

    let reps = run.scale(12u64, 200u64);
    let mut seeder = SplitMix64::new(run.seed ^ 0xC06);
    let mut cases = vec![];
    let mut expected_classes: BTreeSet<String> = BTreeSet::new();
    for rep in 0..reps {
        for (rule, _, all_keys) in RULES {
            let keys: Vec<KeyKind> = if *all_keys { KeyKind::CONFORMING.to_vec() } else { vec![key_rule_kind(rule).unwrap()] };
            for k in keys {
                for level in 0..2u8 {
                    let var = seeder.next_u64();
                    // the control gets extra variation: it guards the "never flagged" half
                    let n = if *rule == "conforming" { 4 } else { 1 };
                    for j in 0..n {
                        cases.push(Case { rule: rule.to_string(), key: k, level, var: var.wrapping_add(j * 0x9E37) });
                    }
                    if rep == 0 {
                        expected_classes.insert(format!("{}:{}:{}", if level == 0 { "direct" } else { "e2e" }, rule, k.name()));
                    }
                }
            }
        }
    }
    let threads = std::thread::available_parallelism().map(|n| n.get()).unwrap_or(4).min(16);
    run.drive_enum_par("profile_rules", cases, threads, |c| judge(&run, &src, now, c));

    if run.replay.is_none() {
        let missing: Vec<&String> = expected_classes.iter().filter(|c| run.hist_get(c) < reps).collect();
        run.extra("classes_expected", json!(expected_classes.len()));
        run.extra("classes_missing", json!(missing));
        if !missing.is_empty() {
            run.inconclusive(format!("{} (rule x key type x level) classes were not exercised: {:?}", missing.len(), missing));
        }
    }
    run.finish();
}
