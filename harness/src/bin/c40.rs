//! C40 — synchronous and asynchronous APIs behave identically.
//!
//! Case = one operation offered in both forms, executed through both entry points on the same inputs, the same
//! settings and equivalent signers (the async signer delegates every call to the very same sync signer object; TSA,
//! OCSP and dynamic-assertion overrides answer identically), the async form on a current-thread tokio runtime:
//!   sign / sign_async, save_to_stream(_async) (signer taken from the context), Reader::with_stream(_async),
//!   with_manifest_data_and_stream(_async), with_fragment(_async), sign_data_hashed_embeddable(_async),
//!   add_ingredient_from_stream(_async) (incl. `application/c2pa` archives = add_ingredient_from_archive(_async)),
//!   reading an asset with a remote manifest through mock resolvers (Context::with_resolver / with_resolver_async).
//!   sign_box_hashed_embeddable(_async) (BoxHash from the repository fixtures, composed manifest spliced into boxhash.jpg).
//! Every pair except with_fragment is also driven with generated "signable but invalid on validation" definitions
//! (`inv_definition`, 10 kinds of action-rule violations) crossed with verify_after_sign on / off; reading and import
//! pairs get inputs signed from such definitions (`inv_input`).
//! Oracle: same error variant, or both Ok and equal normal forms (signing: read-back report under cross-run
//! normalisation + verdict; reading: report of the same bytes + verdict; ingredient import: ingredient JSON with
//! instance ids blanked). On a mismatch the sync form is run once more: if two sync runs disagree under the same
//! normalisation the case is counted `control-unstable` and not judged. Progress traces are recorded only.

use std::{
    cell::RefCell,
    io::{Cursor, Read},
    path::PathBuf,
    sync::{
        atomic::{AtomicUsize, Ordering},
        Arc, Mutex, OnceLock,
    },
};

use async_trait::async_trait;
use c2pa::{
    assertions::{BoxHash, DataHash},
    dynamic_assertion::{AsyncDynamicAssertion, DynamicAssertion, DynamicAssertionContent, PartialClaim},
    http::{
        http::{header, Request, Response},
        AsyncHttpResolver, HttpResolverError, SyncHttpResolver,
    },
    AsyncSigner, Builder, BuilderIntent, Context, DigitalSourceType, HashRange, ProgressPhase, Reader, Signer, SigningAlg,
};
use proptest::prelude::*;
use serde::{Deserialize, Serialize};
use serde_json::{json, Value};
use vh::{
    defgen::{self, DefOpts, DefSpec, GenDef},
    pki, sdk, CaseResult, Fail, Run,
};

// ------------------------------------------------------------------------------------------------
// case
// ------------------------------------------------------------------------------------------------

#[derive(Clone, Debug, Serialize, Deserialize, PartialEq, Eq, Hash)]
struct Case {
    /// 0 sign, 1 save_to_stream, 2 read, 3 sidecar read, 4 fragment read, 5 data-hashed embeddable,
    /// 6 ingredient from stream, 7 ingredient from archive, 8 remote manifest read
    op: u8,
    /// asset / source selector
    a: u8,
    alg: u8,
    /// 0 plain, 1 TSA ok, 2 TSA error, 3 TSA url but no answer, 4 OCSP override (junk), 5 dynamic assertion,
    /// 6 TSA junk answer, 7 TSA ok + OCSP + dynamic assertion
    signer: u8,
    /// 0 base, 1 verify_after_sign off, 2 verify_timestamp_trust on and TSA root NOT trusted, 3 compressed manifests,
    /// 4 decode CAWG identity assertions, 5 auto timestamp assertion (TSA reached through the context resolver)
    settings: u8,
    /// resolver answer mode / tamper selector
    mode: u8,
    def: DefSpec,
    /// 0: definition from vh::defgen / fixture input; k+1: "signable but invalid on validation" definition of kind k
    /// (INV_KINDS), varied by `def.seed`. For reading / import pairs the input is an asset (sidecar, remote store,
    /// archive) signed from that definition with verify_after_sign off.
    #[serde(default)]
    inv: u8,
}

const N_OPS: u8 = 10;
const N_SIGNERS: u8 = 8;
const N_SETTINGS: u8 = 6;
const TSA_URL: &str = "http://tsa.verif.invalid/ts";
const REMOTE_URL: &str = "http://manifests.verif.invalid/store.c2pa";
const BOX_HASH_LABEL: &str = "c2pa.hash.boxes";

fn def_opts() -> DefOpts {
    DefOpts {
        max_assertions: 3,
        max_ingredients: 2,
        allow_v1: true,
        allow_edit: true,
        allow_update: false,
        allow_huge: false,
        allow_redactions: false,
        allow_resources: false,
        allow_signed_ingredients: true,
        allow_hash_alg: true,
    }
}

fn op_name(op: u8) -> &'static str {
    match op % N_OPS {
        0 => "sign",
        1 => "save_to_stream",
        2 => "with_stream",
        3 => "with_manifest_data_and_stream",
        4 => "with_fragment",
        5 => "sign_data_hashed_embeddable",
        6 => "add_ingredient_from_stream",
        7 => "add_ingredient_from_archive",
        8 => "remote_manifest_read",
        _ => "sign_box_hashed_embeddable",
    }
}

// ------------------------------------------------------------------------------------------------
// "signable but invalid on validation" definitions
// ------------------------------------------------------------------------------------------------

/// Each kind builds and signs (verify_after_sign off) but post-sign / read validation flags a failure
/// (sdk/src/claim.rs verify_actions). Whether a generated definition really is of that class is established per
/// case from the synchronous outcome and counted (`pair_<op>_invalid_def` vs `..._unconfirmed`).
const INV_KINDS: [&str; 10] = [
    "created-without-digitalSourceType",
    "no-created-or-opened-first-action",
    "opened-without-ingredient-parameters",
    "placed-or-removed-without-ingredient-reference",
    "translated-without-languages",
    "empty-action-name",
    "placed-ingredient-wrong-relationship",
    "redacted-unresolvable-uri",
    "transcoded-ingredient-not-parent",
    "empty-actions-array",
];

const DST: [&str; 4] = [
    "http://c2pa.org/digitalsourcetype/empty",
    "http://cv.iptc.org/newscodes/digitalsourcetype/digitalCapture",
    "http://cv.iptc.org/newscodes/digitalsourcetype/algorithmicMedia",
    "http://cv.iptc.org/newscodes/digitalsourcetype/trainedAlgorithmicMedia",
];

fn inv_definition(kind: u8, seed: u64) -> Value {
    let k = kind as usize % INV_KINDS.len();
    let mut rng = vh::rng::SplitMix64::new(seed ^ 0x0C40_1BAD ^ ((k as u64) << 40));
    let benign = |rng: &mut vh::rng::SplitMix64| {
        let name = *rng.pick(&["c2pa.edited", "c2pa.color_adjustments", "c2pa.cropped", "c2pa.resized", "c2pa.filtered", "c2pa.drawing", "org.verif.custom"]);
        let mut a = json!({"action": name});
        if rng.bool() {
            a["description"] = json!(format!("step {}", rng.below(1000)));
        }
        if rng.chance(1, 3) {
            a["parameters"] = json!({"org.verif.amount": rng.below(100)});
        }
        a
    };
    let created = |rng: &mut vh::rng::SplitMix64| json!({"action": "c2pa.created", "digitalSourceType": *rng.pick(&DST)});
    let mut ingredients: Vec<Value> = vec![];
    let ing_id = format!("ing-{}", rng.below(100));
    let mut actions: Vec<Value> = match k {
        0 => {
            let mut c = json!({"action": "c2pa.created"});
            if rng.bool() {
                c["description"] = json!("created without a source type");
            }
            vec![c]
        }
        1 => vec![benign(&mut rng)],
        2 => vec![created(&mut rng), json!({"action": "c2pa.opened"})],
        3 => {
            let name = *rng.pick(&["c2pa.placed", "c2pa.removed"]);
            let bad = if rng.bool() { json!({"action": name}) } else { json!({"action": name, "parameters": {"org.verif.amount": 1}}) };
            vec![created(&mut rng), bad]
        }
        4 => {
            let bad = match rng.below(3) {
                0 => json!({"action": "c2pa.translated"}),
                1 => json!({"action": "c2pa.translated", "parameters": {"sourceLanguage": "en"}}),
                _ => json!({"action": "c2pa.translated", "parameters": {"targetLanguage": "de"}}),
            };
            vec![created(&mut rng), bad]
        }
        5 => vec![created(&mut rng), json!({"action": ""})],
        6 => {
            ingredients.push(json!({"title": format!("component {}", rng.below(100)), "format": "image/jpeg", "relationship": *rng.pick(&["inputTo", "parentOf"]), "label": ing_id}));
            let name = *rng.pick(&["c2pa.placed", "c2pa.removed"]);
            vec![created(&mut rng), json!({"action": name, "parameters": {"ingredientIds": [ing_id]}})]
        }
        7 => {
            let urn = format!("urn:c2pa:{:08x}-0000-4000-8000-{:012x}", rng.below(1 << 32), rng.below(1 << 48));
            let target = *rng.pick(&["c2pa.metadata", "c2pa.thumbnail.claim", "org.verif.note"]);
            vec![created(&mut rng), json!({"action": "c2pa.redacted", "parameters": {"redacted": format!("self#jumbf=/c2pa/{urn}/c2pa.assertions/{target}")}})]
        }
        8 => {
            ingredients.push(json!({"title": format!("source {}", rng.below(100)), "format": "image/png", "relationship": *rng.pick(&["inputTo", "componentOf"]), "label": ing_id}));
            let name = *rng.pick(&["c2pa.transcoded", "c2pa.repackaged"]);
            vec![created(&mut rng), json!({"action": name, "parameters": {"ingredientIds": [ing_id]}})]
        }
        _ => vec![],
    };
    // benign company after the first action (the first one decides the created/opened rule)
    if k != 9 {
        for _ in 0..rng.below(3) {
            let at = 1 + rng.usize(actions.len());
            actions.insert(at.min(actions.len()), benign(&mut rng));
        }
    }
    let mut assertions = vec![json!({"label": *rng.pick(&["c2pa.actions", "c2pa.actions.v2"]), "data": {"actions": actions}})];
    if rng.bool() {
        assertions.push(json!({"label": "org.verif.note", "data": {"note": "invalid-on-validation", "n": rng.below(1000)}}));
    }
    let mut d = json!({
        "claim_generator_info": [{"name": "verif-harness", "version": format!("0.{}", rng.below(10))}],
        "assertions": assertions,
    });
    if rng.chance(3, 4) {
        d["title"] = json!(format!("c40 invalid {} #{}", INV_KINDS[k], rng.below(10_000)));
    }
    if !ingredients.is_empty() {
        d["ingredients"] = json!(ingredients);
    }
    d
}

/// BoxHash assertion + carrier for the box-hashed embeddable pair: the repository's own fixtures
/// (boxhash.jpg with boxhash.json / boxhash_with_exclusion.json, as in the SDK's builder tests) and the bare
/// `application/c2pa` box map (test_builder_box_hashed_embeddable_min).
fn boxhash_input(a: u8) -> (String, Value, Option<(Vec<u8>, usize, usize)>) {
    let c2pa_only = json!({"boxes": [{"names": ["C2PA"], "alg": "sha256", "hash": [], "pad": []}]});
    let which = a % 3;
    if which == 2 {
        return ("application/c2pa".into(), c2pa_only, None);
    }
    let name = if which == 0 { "boxhash.json" } else { "boxhash_with_exclusion.json" };
    let bh = std::fs::read(format!("{}/{name}", sdk::FIXTURES)).ok().and_then(|b| serde_json::from_slice::<Value>(&b).ok());
    let jpg = std::fs::read(format!("{}/boxhash.jpg", sdk::FIXTURES)).ok();
    if let (Some(bh), Some(jpg)) = (bh, jpg) {
        if let Ok(spans) = vh::walk::manifest_spans("jpeg", &jpg) {
            if let (Some(start), Some(end)) = (spans.iter().map(|s| s.0).min(), spans.iter().map(|s| s.0 + s.1).max()) {
                if spans.iter().map(|s| s.1).sum::<usize>() == end - start {
                    return ("image/jpeg".into(), bh, Some((jpg, start, end)));
                }
            }
        }
    }
    ("application/c2pa".into(), c2pa_only, None)
}

// ------------------------------------------------------------------------------------------------
// harness TSA (openssl ts -reply), as in C36
// ------------------------------------------------------------------------------------------------

struct Tsa {
    dir: PathBuf,
    root_pem: String,
}

static TSA: OnceLock<Result<Tsa, String>> = OnceLock::new();
static TSA_LOCK: Mutex<()> = Mutex::new(());

fn work_dir() -> PathBuf {
    vh::core::verif_root().join("work").join("C40")
}

fn tsa() -> Result<&'static Tsa, String> {
    TSA.get_or_init(|| {
        let dir = work_dir().join(format!("tsa-{}", std::process::id()));
        std::fs::create_dir_all(&dir).map_err(|e| e.to_string())?;
        let now = pki::now_epoch();
        let mut cs = pki::ChainSpec::simple(1, pki::KeyKind::P256, pki::KeyKind::P256, "c40-tsa");
        cs.ee = pki::CertSpec::tsa("Verif TSA c40");
        cs.ee.not_before_off = -400 * 86_400;
        cs.ee.not_after_off = 4000 * 86_400;
        cs.ee.serial_hex = "7c40".into();
        cs.slot_base = 940;
        for c in cs.cas.iter_mut() {
            c.not_before_off = -4000 * 86_400;
            c.not_after_off = 4000 * 86_400;
        }
        let ch = pki::make_chain(&cs, now)?;
        let w = |n: &str, b: &[u8]| std::fs::write(dir.join(n), b).map_err(|e| e.to_string());
        w("tsa.pem", pki::pem_of(&ch.all_der[0]).as_bytes())?;
        w("tsa.key", &pki::key_pem(&ch.keys[0])?)?;
        w("tsa.chain", pki::pem_of(&ch.all_der[1]).as_bytes())?;
        w("serial", b"01\n")?;
        let cnf = format!(
            "[tsa]\ndir = {d}\nserial = $dir/serial\ncrypto_device = builtin\nsigner_cert = $dir/tsa.pem\ncerts = $dir/tsa.chain\nsigner_key = $dir/tsa.key\nsigner_digest = sha256\ndefault_policy = 1.2.3.4.1\nother_policies = 1.2.3.4.5.6\ndigests = sha256, sha384, sha512\naccuracy = secs:1\nordering = no\ntsa_name = no\ness_cert_id_chain = no\ness_cert_id_alg = sha256\n",
            d = dir.display()
        );
        w("ts.cnf", cnf.as_bytes())?;
        Ok(Tsa { dir, root_pem: pki::pem_of(&ch.all_der[1]) })
    })
    .as_ref()
    .map_err(|e| e.clone())
}

/// RFC 3161 TimeStampResp (DER) for a TimeStampReq (DER).
fn tsa_reply(query_der: &[u8]) -> Result<Vec<u8>, String> {
    let t = tsa()?;
    let _g = TSA_LOCK.lock().unwrap_or_else(|p| p.into_inner());
    std::fs::write(t.dir.join("q.tsq"), query_der).map_err(|e| e.to_string())?;
    let _ = std::fs::remove_file(t.dir.join("r.tsr"));
    let out = std::process::Command::new(pki::OPENSSL_CLI)
        .current_dir(&t.dir)
        .args(["ts", "-reply", "-config", "ts.cnf", "-section", "tsa", "-queryfile", "q.tsq", "-out", "r.tsr"])
        .env_remove("OPENSSL_CONF")
        .output()
        .map_err(|e| format!("cannot run openssl: {e}"))?;
    if !out.status.success() {
        return Err(format!("openssl ts failed: {}", String::from_utf8_lossy(&out.stderr).trim()));
    }
    std::fs::read(t.dir.join("r.tsr")).map_err(|e| e.to_string())
}

// ------------------------------------------------------------------------------------------------
// equivalent signers
// ------------------------------------------------------------------------------------------------

struct Dyn;

fn dyn_content(claim: &PartialClaim) -> Vec<u8> {
    // CBOR array of 38 small integers = exactly the 40 reserved bytes; the first one depends on the claim
    let n = claim.assertions().count().min(23) as u8;
    let mut v = vec![0x98, 38, n];
    v.extend(std::iter::repeat(7u8).take(37));
    v
}

impl DynamicAssertion for Dyn {
    fn label(&self) -> String {
        "org.verif.dynamic".into()
    }
    fn reserve_size(&self) -> c2pa::Result<usize> {
        Ok(40)
    }
    fn content(&self, _label: &str, _size: Option<usize>, claim: &PartialClaim) -> c2pa::Result<DynamicAssertionContent> {
        Ok(DynamicAssertionContent::Cbor(dyn_content(claim)))
    }
}

#[async_trait]
impl AsyncDynamicAssertion for Dyn {
    fn label(&self) -> String {
        "org.verif.dynamic".into()
    }
    fn reserve_size(&self) -> c2pa::Result<usize> {
        Ok(40)
    }
    async fn content(&self, _label: &str, _size: Option<usize>, claim: &PartialClaim) -> c2pa::Result<DynamicAssertionContent> {
        tokio::task::yield_now().await;
        Ok(DynamicAssertionContent::Cbor(dyn_content(claim)))
    }
}

struct TestSigner {
    base: c2pa::BoxedSigner,
    variant: u8,
    tsa_calls: AtomicUsize,
}

impl TestSigner {
    fn new(alg: u8, variant: u8) -> Arc<TestSigner> {
        Arc::new(TestSigner { base: sdk::signer(sdk::ALGS[alg as usize % sdk::ALGS.len()]), variant: variant % N_SIGNERS, tsa_calls: AtomicUsize::new(0) })
    }
    fn has_tsa(&self) -> bool {
        matches!(self.variant, 1 | 2 | 3 | 6 | 7)
    }
}

impl Signer for TestSigner {
    fn sign(&self, data: &[u8]) -> c2pa::Result<Vec<u8>> {
        self.base.sign(data)
    }
    fn alg(&self) -> SigningAlg {
        self.base.alg()
    }
    fn certs(&self) -> c2pa::Result<Vec<Vec<u8>>> {
        self.base.certs()
    }
    fn reserve_size(&self) -> usize {
        self.base.reserve_size() + 12_000
    }
    fn time_authority_url(&self) -> Option<String> {
        self.has_tsa().then(|| TSA_URL.to_string())
    }
    fn send_timestamp_request(&self, message: &[u8]) -> Option<c2pa::Result<Vec<u8>>> {
        self.tsa_calls.fetch_add(1, Ordering::SeqCst);
        match self.variant {
            1 | 7 => Some(self.base.timestamp_request_body(message).and_then(|q| tsa_reply(&q).map_err(c2pa::Error::BadParam))),
            2 => Some(Err(c2pa::Error::BadParam("time stamp authority unavailable".into()))),
            6 => Some(Ok(b"this is not a time stamp response".to_vec())),
            _ => None,
        }
    }
    fn ocsp_val(&self) -> Option<Vec<u8>> {
        matches!(self.variant, 4 | 7).then(|| b"bogus ocsp response bytes".to_vec())
    }
    fn dynamic_assertions(&self) -> Vec<Box<dyn DynamicAssertion>> {
        if matches!(self.variant, 5 | 7) {
            vec![Box::new(Dyn)]
        } else {
            vec![]
        }
    }
}

/// Shareable sync view (`Context::with_signer` wants an owned signer).
struct SyncView(Arc<TestSigner>);

impl Signer for SyncView {
    fn sign(&self, data: &[u8]) -> c2pa::Result<Vec<u8>> {
        self.0.sign(data)
    }
    fn alg(&self) -> SigningAlg {
        self.0.alg()
    }
    fn certs(&self) -> c2pa::Result<Vec<Vec<u8>>> {
        self.0.certs()
    }
    fn reserve_size(&self) -> usize {
        self.0.reserve_size()
    }
    fn time_authority_url(&self) -> Option<String> {
        self.0.time_authority_url()
    }
    fn send_timestamp_request(&self, message: &[u8]) -> Option<c2pa::Result<Vec<u8>>> {
        self.0.send_timestamp_request(message)
    }
    fn ocsp_val(&self) -> Option<Vec<u8>> {
        self.0.ocsp_val()
    }
    fn dynamic_assertions(&self) -> Vec<Box<dyn DynamicAssertion>> {
        self.0.dynamic_assertions()
    }
}

/// The async signer: every call is delegated to the same sync signer object.
struct AsyncView(Arc<TestSigner>);

#[async_trait]
impl AsyncSigner for AsyncView {
    async fn sign(&self, data: Vec<u8>) -> c2pa::Result<Vec<u8>> {
        tokio::task::yield_now().await;
        Signer::sign(&*self.0, &data)
    }
    fn alg(&self) -> SigningAlg {
        Signer::alg(&*self.0)
    }
    fn certs(&self) -> c2pa::Result<Vec<Vec<u8>>> {
        Signer::certs(&*self.0)
    }
    fn reserve_size(&self) -> usize {
        Signer::reserve_size(&*self.0)
    }
    fn time_authority_url(&self) -> Option<String> {
        Signer::time_authority_url(&*self.0)
    }
    async fn send_timestamp_request(&self, message: &[u8]) -> Option<c2pa::Result<Vec<u8>>> {
        tokio::task::yield_now().await;
        Signer::send_timestamp_request(&*self.0, message)
    }
    async fn ocsp_val(&self) -> Option<Vec<u8>> {
        tokio::task::yield_now().await;
        Signer::ocsp_val(&*self.0)
    }
    fn dynamic_assertions(&self) -> Vec<Box<dyn AsyncDynamicAssertion>> {
        if matches!(self.0.variant, 5 | 7) {
            vec![Box::new(Dyn)]
        } else {
            vec![]
        }
    }
}

// ------------------------------------------------------------------------------------------------
// mock resolvers
// ------------------------------------------------------------------------------------------------

#[derive(Clone)]
struct Mock {
    /// 0: 200 + content-length, 1: 200 without content-length, 2: 404, 3: transport error, 4: 200 junk,
    /// 5: 200 truncated store
    mode: u8,
    manifest: Arc<Vec<u8>>,
    calls: Arc<AtomicUsize>,
}

fn respond(m: &Mock, req: Request<Vec<u8>>) -> Result<Response<Box<dyn Read>>, HttpResolverError> {
    m.calls.fetch_add(1, Ordering::SeqCst);
    let boxed = |b: Vec<u8>| Box::new(Cursor::new(b)) as Box<dyn Read>;
    if req.method() == "POST" {
        // RFC 3161 request to the harness TSA
        return match tsa_reply(req.body()) {
            Ok(r) => Response::builder()
                .status(200)
                .header(header::CONTENT_TYPE, "application/timestamp-reply")
                .header(header::CONTENT_LENGTH, r.len())
                .body(boxed(r))
                .map_err(HttpResolverError::Http),
            Err(e) => Err(HttpResolverError::Io(std::io::Error::other(e))),
        };
    }
    match m.mode % 6 {
        0 => Response::builder().status(200).header(header::CONTENT_LENGTH, m.manifest.len()).body(boxed(m.manifest.to_vec())).map_err(HttpResolverError::Http),
        1 => Response::builder().status(200).body(boxed(m.manifest.to_vec())).map_err(HttpResolverError::Http),
        2 => Response::builder().status(404).body(boxed(b"not found".to_vec())).map_err(HttpResolverError::Http),
        3 => Err(HttpResolverError::Io(std::io::Error::other("mock transport failure"))),
        4 => Response::builder().status(200).body(boxed(b"<html>this is not a manifest store</html>".to_vec())).map_err(HttpResolverError::Http),
        _ => {
            let half = m.manifest[..m.manifest.len() / 2].to_vec();
            Response::builder().status(200).header(header::CONTENT_LENGTH, half.len()).body(boxed(half)).map_err(HttpResolverError::Http)
        }
    }
}

impl SyncHttpResolver for Mock {
    fn http_resolve(&self, request: Request<Vec<u8>>) -> Result<Response<Box<dyn Read>>, HttpResolverError> {
        respond(self, request)
    }
}

#[async_trait]
impl AsyncHttpResolver for Mock {
    async fn http_resolve_async(&self, request: Request<Vec<u8>>) -> Result<Response<Box<dyn Read>>, HttpResolverError> {
        tokio::task::yield_now().await;
        respond(self, request)
    }
}

// ------------------------------------------------------------------------------------------------
// settings / contexts
// ------------------------------------------------------------------------------------------------

fn settings_json(variant: u8, remote_fetch: bool) -> Value {
    let tsa_root = tsa().map(|t| t.root_pem.clone()).unwrap_or_default();
    let mut st = sdk::base_settings(true);
    if variant % N_SETTINGS != 2 {
        st["trust"]["trust_anchors"] = json!(format!("{}{}", sdk::test_anchors(), tsa_root));
    }
    match variant % N_SETTINGS {
        1 => sdk::merge(&mut st, &json!({"verify": {"verify_after_sign": false}})),
        2 => sdk::merge(&mut st, &json!({"verify": {"verify_after_sign": true, "verify_timestamp_trust": true}})),
        3 => sdk::merge(&mut st, &json!({"core": {"prefer_compress_manifests": true}})),
        4 => sdk::merge(&mut st, &json!({"core": {"decode_identity_assertions": true}})),
        5 => sdk::merge(&mut st, &json!({"builder": {"auto_timestamp_assertion": {"enabled": true, "skip_existing": false, "fetch_scope": "all"}}})),
        _ => {}
    }
    if remote_fetch {
        sdk::merge(&mut st, &json!({"verify": {"remote_manifest_fetch": true}}));
    }
    st
}

type Trace = Arc<Mutex<Vec<(String, u32, u32)>>>;

fn make_ctx(settings: &Value, mock: &Mock, trace: &Trace) -> Context {
    let tr = trace.clone();
    sdk::context_with(settings)
        .with_resolver(mock.clone())
        .with_resolver_async(mock.clone())
        .with_progress_callback(move |p: ProgressPhase, s: u32, t: u32| {
            tr.lock().unwrap().push((format!("{p:?}"), s, t));
            true
        })
}

thread_local! {
    static RT: RefCell<Option<tokio::runtime::Runtime>> = const { RefCell::new(None) };
}

fn block_on<F: std::future::Future>(f: F) -> F::Output {
    RT.with(|r| {
        let mut g = r.borrow_mut();
        if g.is_none() {
            *g = Some(tokio::runtime::Builder::new_current_thread().enable_all().build().expect("tokio runtime"));
        }
        g.as_ref().unwrap().block_on(f)
    })
}

// ------------------------------------------------------------------------------------------------
// normal forms
// ------------------------------------------------------------------------------------------------

#[derive(Clone, Debug, PartialEq)]
enum Outcome {
    Ok(Value),
    Err(String),
    Panic(String),
}

impl Outcome {
    fn short(&self) -> String {
        match self {
            Outcome::Ok(v) => format!("Ok(state {})", v["verdict"]["state"].as_str().unwrap_or("-")),
            Outcome::Err(e) => format!("Err({e})"),
            Outcome::Panic(p) => format!("panic({p})"),
        }
    }
}

fn err_kind(e: &c2pa::Error) -> String {
    let d = format!("{e:?}");
    d.split(|c: char| c == '(' || c == ' ' || c == '{').next().unwrap_or("").to_string()
}

fn urn_order(txt: &str) -> Vec<(usize, String)> {
    // Only the active manifest's URN is new in every signing run; ingredient manifests keep the labels they have in
    // their own assets (identical on both sides of every comparison made here). Renaming by order of first
    // appearance in the JSON text would depend on the iteration order of the reader's manifest HashMap.
    let v: Value = serde_json::from_str(txt).unwrap_or(Value::Null);
    match v["active_manifest"].as_str() {
        Some(l) => {
            let u = match l.find("urn:") {
                Some(i) => &l[i..],
                None => l,
            };
            vec![(0, u.to_string())]
        }
        None => vec![],
    }
}

fn rename_urns(s: &str, order: &[(usize, String)]) -> String {
    let mut out = s.to_string();
    for (i, u) in order {
        if out.contains(u.as_str()) {
            out = out.replace(u.as_str(), &format!("M{i}"));
        }
    }
    out
}

fn rename_walk(v: &mut Value, order: &[(usize, String)]) {
    match v {
        Value::String(s) => *s = rename_urns(s, order),
        Value::Array(a) => a.iter_mut().for_each(|x| rename_walk(x, order)),
        Value::Object(m) => {
            let keys: Vec<String> = m.keys().cloned().collect();
            for k in keys {
                let mut val = m.remove(&k).unwrap();
                rename_walk(&mut val, order);
                m.insert(rename_urns(&k, order), val);
            }
        }
        _ => {}
    }
}

const BLANK: [&str; 14] =
    ["instance_id", "instanceID", "instanceId", "time", "when", "validation_time", "hash", "pad", "pad1", "pad2", "signature", "serial_number", "validationTime", "salt"];

/// Cross-run normal form (private copy of `sdk::report_cross_run`) + verdict with the same URN renaming.
fn cross_of(r: &Reader) -> Value {
    let txt = r.json();
    let order = urn_order(&txt);
    let mut v: Value = serde_json::from_str(&txt).unwrap_or(Value::Null);
    rename_walk(&mut v, &order);
    sdk::blank_keys(&mut v, &BLANK);
    // time-stamp assertions map manifest labels to RFC 3161 tokens: every request gets a fresh token
    if let Some(ms) = v["manifests"].as_object_mut() {
        for (_, m) in ms.iter_mut() {
            if let Some(asserts) = m["assertions"].as_array_mut() {
                for a in asserts.iter_mut() {
                    if a["label"].as_str().map(|l| l.starts_with("c2pa.time-stamp")).unwrap_or(false) {
                        if let Some(d) = a["data"].as_object_mut() {
                            d.values_mut().for_each(|t| *t = Value::String("<token>".into()));
                        }
                    }
                }
            }
        }
    }
    let mut verdict = sdk::verdict(r);
    for c in verdict.codes.iter_mut() {
        *c = rename_urns(c, &order);
    }
    verdict.codes.sort();
    json!({"report": v, "verdict": verdict})
}

fn same_of(r: &Reader) -> Value {
    json!({"report": sdk::report_same_bytes(r), "verdict": sdk::verdict(r)})
}

fn wrap<T>(r: Result<c2pa::Result<T>, String>, f: impl FnOnce(T) -> Outcome) -> Outcome {
    match r {
        Err(p) => Outcome::Panic(vh::core::panic_site(&p)),
        Ok(Err(e)) => Outcome::Err(err_kind(&e)),
        Ok(Ok(t)) => f(t),
    }
}

fn readback(fmt: &str, bytes: &[u8]) -> Outcome {
    let st = settings_json(0, false);
    wrap(vh::catch(|| sdk::read_with(sdk::context_with(&st), fmt, bytes)), |r| Outcome::Ok(cross_of(&r)))
}

// ------------------------------------------------------------------------------------------------
// inputs
// ------------------------------------------------------------------------------------------------

struct Inputs {
    /// (mime, bytes, name) assets to read / import
    assets: Vec<(String, Vec<u8>, String)>,
    /// (mime, asset without manifest but with a remote reference, manifest store bytes)
    remote: Vec<(String, Vec<u8>, Vec<u8>)>,
    /// (store bytes, mime, asset) for with_manifest_data_and_stream
    sidecars: Vec<(Vec<u8>, String, Vec<u8>, String)>,
    /// `application/c2pa` streams for add_ingredient_from_archive
    archives: Vec<(Vec<u8>, String)>,
}

static INPUTS: OnceLock<Inputs> = OnceLock::new();

fn src_asset(a: u8) -> (String, Vec<u8>) {
    let kind = vh::assets::KINDS[a as usize % vh::assets::KINDS.len()];
    let mut rng = vh::rng::SplitMix64::new(0xC40_000 + (a as u64 % 64) * 131);
    let s = vh::assets::synth(kind, &mut rng, 1200);
    (s.format.to_string(), s.bytes)
}

fn inputs() -> &'static Inputs {
    INPUTS.get_or_init(|| {
        let mut assets: Vec<(String, Vec<u8>, String)> = vec![];
        for (f, m) in [
            ("C.jpg", "image/jpeg"),
            ("CA.jpg", "image/jpeg"),
            ("CACA.jpg", "image/jpeg"),
            ("XCA.jpg", "image/jpeg"),
            ("boxhash.jpg", "image/jpeg"),
            ("CIE-sig-CA.jpg", "image/jpeg"),
            ("E-sig-CA.jpg", "image/jpeg"),
            ("ocsp.jpg", "image/jpeg"),
            ("C_with_CAWG_data.jpg", "image/jpeg"),
            ("update_manifest.jpg", "image/jpeg"),
            ("no_alg.jpg", "image/jpeg"),
            ("prerelease.jpg", "image/jpeg"),
            ("legacy_ingredient_hash.jpg", "image/jpeg"),
            ("cloud.jpg", "image/jpeg"),
            ("no_manifest.jpg", "image/jpeg"),
            ("cloud_manifest.c2pa", "application/c2pa"),
            ("nested_moov_1000.mp4", "video/mp4"),
        ] {
            if let Ok(b) = std::fs::read(format!("{}/{f}", sdk::FIXTURES)) {
                assets.push((m.to_string(), b, f.to_string()));
            }
        }
        // harness-signed assets that carry a time stamp / OCSP junk / dynamic assertion / compressed manifests
        let st = settings_json(0, false);
        for (i, (variant, kind_idx, settings)) in [(1u8, 0u8, 0u8), (7, 1, 0), (4, 2, 0), (0, 11, 3), (1, 0, 2)].into_iter().enumerate() {
            let (fmt, src) = src_asset(kind_idx);
            let signer = TestSigner::new(i as u8, variant);
            let stv = settings_json(settings, false);
            let r = vh::catch(|| sdk::sign_with(sdk::context_with(&stv), &sdk::simple_definition("c40 input"), Some(BuilderIntent::Create(DigitalSourceType::Empty)), &*signer, &fmt, &src));
            if let Ok(Ok(b)) = r {
                assets.push((fmt, b, format!("harness-signed signer{variant} settings{settings}")));
            }
        }
        // remote manifests + sidecars: signed with a remote reference and no embedded store
        let mut remote = vec![];
        let mut sidecars = vec![];
        if let (Ok(cm), Ok(cj)) = (std::fs::read(format!("{}/cloud_manifest.c2pa", sdk::FIXTURES)), std::fs::read(format!("{}/cloud.jpg", sdk::FIXTURES))) {
            sidecars.push((cm, "image/jpeg".to_string(), cj, "cloud_manifest.c2pa + cloud.jpg".to_string()));
        }
        for (k, variant) in [(0u8, 0u8), (1, 1)] {
            let (fmt, src) = src_asset(k);
            let signer = TestSigner::new(k, variant);
            let r = vh::catch(|| {
                let mut b = Builder::from_context(sdk::context_with(&st)).with_definition(sdk::simple_definition("c40 remote").to_string())?;
                b.set_intent(BuilderIntent::Create(DigitalSourceType::Empty));
                b.set_remote_url(REMOTE_URL);
                b.set_no_embed(true);
                let mut out = Cursor::new(Vec::new());
                let store = b.sign(&*signer, &fmt, &mut Cursor::new(src.clone()), &mut out)?;
                Ok::<_, c2pa::Error>((out.into_inner(), store))
            });
            if let Ok(Ok((asset, store))) = r {
                sidecars.push((store.clone(), fmt.clone(), asset.clone(), format!("harness sidecar {fmt}")));
                remote.push((fmt, asset, store));
            }
        }
        // archives
        let mut archives = vec![];
        if let Ok(cm) = std::fs::read(format!("{}/cloud_manifest.c2pa", sdk::FIXTURES)) {
            archives.push((cm, "cloud_manifest.c2pa".to_string()));
        }
        let r = vh::catch(|| {
            let mut b = Builder::from_context(sdk::context_with(&st)).with_definition(sdk::simple_definition("c40 archive").to_string())?;
            b.set_intent(BuilderIntent::Create(DigitalSourceType::Empty));
            b.add_ingredient_from_stream(json!({"title": "CA", "relationship": "componentOf"}).to_string(), "image/jpeg", &mut Cursor::new(sdk::fixture("CA.jpg")))?;
            let mut arch = Cursor::new(Vec::new());
            b.to_archive(&mut arch)?;
            Ok::<_, c2pa::Error>(arch.into_inner())
        });
        if let Ok(Ok(a)) = r {
            archives.push((a, "builder archive (to_archive) with ingredient".to_string()));
        }
        let r = vh::catch(|| {
            let mut stv = st.clone();
            sdk::merge(&mut stv, &json!({"builder": {"generate_c2pa_archive": true}}));
            let mut b = Builder::from_context(sdk::context_with(&stv)).with_definition(sdk::simple_definition("c40 ingredient archive").to_string())?;
            b.set_intent(BuilderIntent::Create(DigitalSourceType::Empty));
            b.add_ingredient_from_stream(json!({"title": "C", "relationship": "componentOf", "label": "ing-1"}).to_string(), "image/jpeg", &mut Cursor::new(sdk::fixture("C.jpg")))?;
            let mut arch = Cursor::new(Vec::new());
            b.write_ingredient_archive("ing-1", &mut arch)?;
            Ok::<_, c2pa::Error>(arch.into_inner())
        });
        if let Ok(Ok(a)) = r {
            archives.push((a, "ingredient archive (write_ingredient_archive)".to_string()));
        }
        archives.push((b"this is not an archive".to_vec(), "garbage".to_string()));
        Inputs { assets, remote, sidecars, archives }
    })
}

fn tampered(bytes: &[u8], mode: u8) -> Vec<u8> {
    let mut b = bytes.to_vec();
    if b.len() > 64 {
        match mode % 4 {
            1 => {
                let p = b.len() - 1 - (b.len() / 7);
                b[p] ^= 0x21;
            }
            2 => {
                let p = b.len() / 3;
                b[p] ^= 0x80;
            }
            3 => b.truncate(b.len() * 3 / 4),
            _ => {}
        }
    }
    b
}

// ------------------------------------------------------------------------------------------------
// the operation in both forms
// ------------------------------------------------------------------------------------------------

struct Env {
    settings: Value,
    mock: Mock,
    /// input signed from an invalid-on-validation definition (reading / import pairs with `inv > 0`)
    inv: Option<InvInput>,
}

struct InvInput {
    fmt: String,
    asset: Vec<u8>,
    store: Vec<u8>,
    archive: Vec<u8>,
}

/// Input for the reading / import pairs: the invalid-on-validation definition signed synchronously with
/// verify_after_sign off (embedded; remote reference + sidecar store for ops 3 and 8; `to_archive` for op 7).
fn inv_input(c: &Case) -> Result<InvInput, String> {
    let op = c.op % N_OPS;
    let def = inv_definition(c.inv - 1, c.def.seed);
    let st = settings_json(1, false);
    let (fmt, src) = src_asset(c.a);
    let signer = sdk::signer(sdk::ALGS[c.alg as usize % sdk::ALGS.len()]);
    let r = vh::catch(|| {
        let mut b = Builder::from_context(sdk::context_with(&st)).with_definition(def.to_string())?;
        if op == 7 {
            // add_ingredient_from_archive wants an archive that carries an ingredient: an asset signed from a sibling
            // invalid definition of the same kind, inside a working store built from the invalid definition
            let ing_def = inv_definition(c.inv - 1, c.def.seed ^ 0x5151);
            let mut ib = Builder::from_context(sdk::context_with(&st)).with_definition(ing_def.to_string())?;
            let mut signed = Cursor::new(Vec::new());
            ib.sign(&*signer, &fmt, &mut Cursor::new(src.clone()), &mut signed)?;
            b.add_ingredient_from_stream(json!({"title": "invalid ingredient", "relationship": "componentOf"}).to_string(), &fmt, &mut Cursor::new(signed.into_inner()))?;
            let mut arch = Cursor::new(Vec::new());
            b.to_archive(&mut arch)?;
            return Ok::<_, c2pa::Error>(InvInput { fmt: fmt.clone(), asset: vec![], store: vec![], archive: arch.into_inner() });
        }
        if matches!(op, 3 | 8) {
            b.set_remote_url(REMOTE_URL);
            b.set_no_embed(true);
        }
        let mut out = Cursor::new(Vec::new());
        let store = b.sign(&*signer, &fmt, &mut Cursor::new(src.clone()), &mut out)?;
        Ok(InvInput { fmt: fmt.clone(), asset: out.into_inner(), store, archive: vec![] })
    });
    match r {
        Ok(Ok(i)) => Ok(i),
        Ok(Err(e)) => Err(err_kind(&e)),
        Err(p) => Err(format!("panic:{}", vh::core::panic_site(&p))),
    }
}

fn builder_sync(ctx: Context, gd: &GenDef, inv: &Option<Value>) -> c2pa::Result<Builder> {
    match inv {
        Some(d) => Builder::from_context(ctx).with_definition(d.to_string()),
        None => gd.builder(ctx, &gd.json),
    }
}

async fn builder_async(ctx: Context, gd: &GenDef, inv: &Option<Value>) -> c2pa::Result<Builder> {
    match inv {
        Some(d) => Builder::from_context(ctx).with_definition(d.to_string()),
        None => {
            let mut b = Builder::from_context(ctx).with_definition(gd.json.to_string())?;
            populate_async(gd, &mut b).await?;
            Ok(b)
        }
    }
}

async fn populate_async(gd: &GenDef, b: &mut Builder) -> c2pa::Result<()> {
    if let Some(i) = gd.intent.to_builder_intent() {
        b.set_intent(i);
    }
    for (id, bytes) in &gd.resources {
        b.add_resource(id, Cursor::new(bytes.clone()))?;
    }
    for p in &gd.stream_ingredients {
        if let Some((mime, bytes)) = defgen::ingredient_bytes(&p.source) {
            b.add_ingredient_from_stream_async(p.json.to_string(), &mime, &mut Cursor::new(bytes)).await?;
        }
    }
    Ok(())
}

/// Runs the case in one flavour; returns the normal form and the progress trace.
fn run_flavour(c: &Case, env: &Env, is_async: bool) -> (Outcome, Vec<(String, u32, u32)>, usize) {
    let trace: Trace = Arc::new(Mutex::new(vec![]));
    let inp = inputs();
    let ctx = make_ctx(&env.settings, &env.mock, &trace);
    let signer = TestSigner::new(c.alg, c.signer);
    let inv_def = (c.inv > 0).then(|| inv_definition(c.inv - 1, c.def.seed));
    let out = match c.op % N_OPS {
        0 | 1 => {
            let via_ctx = c.op % N_OPS == 1;
            let (fmt, src) = src_asset(c.a);
            let gd = defgen::expand_with(&c.def, &def_opts());
            let ctx = if via_ctx { ctx.with_signer(SyncView(signer.clone())).with_async_signer(AsyncView(signer.clone())) } else { ctx };
            let r = vh::catch(|| {
                let mut out = Cursor::new(Vec::new());
                if is_async {
                    block_on(async {
                        let mut b = builder_async(ctx, &gd, &inv_def).await?;
                        if via_ctx {
                            b.save_to_stream_async(&fmt, &mut Cursor::new(src.clone()), &mut out).await?;
                        } else {
                            b.sign_async(&AsyncView(signer.clone()), &fmt, &mut Cursor::new(src.clone()), &mut out).await?;
                        }
                        Ok::<_, c2pa::Error>(())
                    })?;
                } else {
                    let mut b = builder_sync(ctx, &gd, &inv_def)?;
                    if via_ctx {
                        b.save_to_stream(&fmt, &mut Cursor::new(src.clone()), &mut out)?;
                    } else {
                        b.sign(&*signer, &fmt, &mut Cursor::new(src.clone()), &mut out)?;
                    }
                }
                Ok(out.into_inner())
            });
            wrap(r, |b| readback(&fmt, &b))
        }
        2 => {
            let (fmt, bytes) = match &env.inv {
                Some(i) => (&i.fmt, &i.asset),
                None => {
                    let (f, b, _) = &inp.assets[c.a as usize % inp.assets.len()];
                    (f, b)
                }
            };
            let bytes = tampered(bytes, c.mode);
            let r = vh::catch(|| {
                if is_async {
                    block_on(Reader::from_context(ctx).with_stream_async(fmt, Cursor::new(bytes.clone())))
                } else {
                    Reader::from_context(ctx).with_stream(fmt, Cursor::new(bytes.clone()))
                }
            });
            wrap(r, |r| Outcome::Ok(same_of(&r)))
        }
        3 => {
            let (store, fmt, asset) = match &env.inv {
                Some(i) => (&i.store, &i.fmt, &i.asset),
                None => {
                    let (s, f, a, _) = &inp.sidecars[c.a as usize % inp.sidecars.len()];
                    (s, f, a)
                }
            };
            let asset = tampered(asset, c.mode);
            let store = if c.mode % 8 >= 4 { tampered(store, c.mode / 4) } else { store.clone() };
            let r = vh::catch(|| {
                if is_async {
                    block_on(Reader::from_context(ctx).with_manifest_data_and_stream_async(&store, fmt, Cursor::new(asset.clone())))
                } else {
                    Reader::from_context(ctx).with_manifest_data_and_stream(&store, fmt, Cursor::new(asset.clone()))
                }
            });
            wrap(r, |r| Outcome::Ok(same_of(&r)))
        }
        4 => {
            let init = sdk::fixture("dashinit.mp4");
            let frag = tampered(&sdk::fixture("dash1.m4s"), c.mode);
            let r = vh::catch(|| {
                if is_async {
                    block_on(Reader::from_context(ctx).with_fragment_async("video/mp4", Cursor::new(init.clone()), Cursor::new(frag.clone())))
                } else {
                    Reader::from_context(ctx).with_fragment("video/mp4", Cursor::new(init.clone()), Cursor::new(frag.clone()))
                }
            });
            wrap(r, |r| Outcome::Ok(same_of(&r)))
        }
        5 => {
            // data-hashed embeddable manifest for a JPEG: placeholder after SOI, caller-built DataHash
            let (fmt, src) = src_asset(0 + 16 * (c.a % 4));
            let r = vh::catch(|| {
                let mut b = match &inv_def {
                    Some(d) => Builder::from_context(ctx).with_definition(d.to_string())?,
                    None => {
                        let mut b = Builder::from_context(ctx).with_definition(sdk::simple_definition("c40 embeddable").to_string())?;
                        b.set_intent(BuilderIntent::Create(DigitalSourceType::Empty));
                        b
                    }
                };
                let ph = b.data_hashed_placeholder(Signer::reserve_size(&*signer), &fmt)?;
                let at = 2usize;
                let mut out = Vec::with_capacity(src.len() + ph.len());
                out.extend_from_slice(&src[..at]);
                out.extend_from_slice(&ph);
                out.extend_from_slice(&src[at..]);
                let mut dh = DataHash::new("jumbf manifest", "sha256");
                dh.exclusions = Some(vec![HashRange::new(at as u64, ph.len() as u64)]);
                let hash = c2pa::hash_stream_by_alg("sha256", &mut Cursor::new(&out[..]), dh.exclusions.clone(), true)?;
                dh.set_hash(hash);
                let m = if is_async { block_on(b.sign_data_hashed_embeddable_async(&AsyncView(signer.clone()), &dh, &fmt))? } else { b.sign_data_hashed_embeddable(&*signer, &dh, &fmt)? };
                if m.len() != ph.len() {
                    // (C15's subject: the signed manifest does not have the placeholder's size; sizes vary from run to run
                    // with compressed manifests, so the normal form only records the fact)
                    return Ok((out, Some(if m.len() > ph.len() { "signed manifest larger than placeholder" } else { "signed manifest smaller than placeholder" }.to_string())));
                }
                out[at..at + m.len()].copy_from_slice(&m);
                Ok((out, None))
            });
            wrap(r, |(b, size_note)| match size_note {
                Some(n) => Outcome::Ok(json!({"size_mismatch": n})),
                None => readback(&fmt, &b),
            })
        }
        6 => {
            let (fmt, bytes) = match &env.inv {
                Some(i) => (&i.fmt, &i.asset),
                None => {
                    let (f, b, _) = &inp.assets[c.a as usize % inp.assets.len()];
                    (f, b)
                }
            };
            let bytes = tampered(bytes, c.mode);
            let rel = ["componentOf", "parentOf", "inputTo"][c.alg as usize % 3];
            let r = vh::catch(|| {
                let mut b = Builder::from_context(ctx).with_definition(sdk::simple_definition("c40 ingredient").to_string())?;
                let ij = json!({"title": "ing", "relationship": rel}).to_string();
                let ing = if is_async { block_on(b.add_ingredient_from_stream_async(ij, fmt, &mut Cursor::new(bytes.clone())))? } else { b.add_ingredient_from_stream(ij, fmt, &mut Cursor::new(bytes.clone()))? };
                let mut v = serde_json::to_value(&*ing).unwrap_or(Value::Null);
                sdk::blank_keys(&mut v, &["instance_id", "instanceID", "instanceId"]);
                Ok(v)
            });
            wrap(r, |v| Outcome::Ok(json!({"ingredient": v})))
        }
        7 => {
            let bytes = match &env.inv {
                Some(i) => &i.archive,
                None => &inp.archives[c.a as usize % inp.archives.len()].0,
            };
            let bytes = tampered(bytes, c.mode);
            let r = vh::catch(|| {
                let mut b = Builder::from_context(ctx).with_definition(sdk::simple_definition("c40 archive ingredient").to_string())?;
                let ij = json!({"title": "from archive", "relationship": "componentOf"}).to_string();
                let ing = if is_async {
                    block_on(b.add_ingredient_from_stream_async(ij, "application/c2pa", &mut Cursor::new(bytes.clone())))?
                } else {
                    b.add_ingredient_from_stream(ij, "application/c2pa", &mut Cursor::new(bytes.clone()))?
                };
                let mut v = serde_json::to_value(&*ing).unwrap_or(Value::Null);
                sdk::blank_keys(&mut v, &["instance_id", "instanceID", "instanceId"]);
                Ok(v)
            });
            wrap(r, |v| Outcome::Ok(json!({"ingredient": v})))
        }
        9 => {
            // box-hashed embeddable manifest: caller-supplied BoxHash assertion, composed manifest returned
            let (fmt, bh_json, carrier) = boxhash_input(c.a);
            let gd = defgen::expand_with(&c.def, &def_opts());
            let r = vh::catch(|| {
                let bh: BoxHash = serde_json::from_value(bh_json.clone()).map_err(|e| c2pa::Error::BadParam(format!("box hash json: {e}")))?;
                if is_async {
                    block_on(async {
                        let mut b = builder_async(ctx, &gd, &inv_def).await?;
                        b.add_assertion(BOX_HASH_LABEL, &bh)?;
                        b.sign_box_hashed_embeddable_async(&AsyncView(signer.clone()), &fmt).await
                    })
                } else {
                    let mut b = builder_sync(ctx, &gd, &inv_def)?;
                    b.add_assertion(BOX_HASH_LABEL, &bh)?;
                    b.sign_box_hashed_embeddable(&*signer, &fmt)
                }
            });
            wrap(r, |m| match &carrier {
                Some((jpg, start, end)) => {
                    let mut out = Vec::with_capacity(jpg.len() + m.len());
                    out.extend_from_slice(&jpg[..*start]);
                    out.extend_from_slice(&m);
                    out.extend_from_slice(&jpg[*end..]);
                    readback(&fmt, &out)
                }
                None => readback(&fmt, &m),
            })
        }
        _ => {
            if env.inv.is_none() && inp.remote.is_empty() {
                return (Outcome::Err("no remote input".into()), vec![], 0);
            }
            let (fmt, asset) = match &env.inv {
                Some(i) => (&i.fmt, &i.asset),
                None => {
                    let (f, a, _) = &inp.remote[c.a as usize % inp.remote.len()];
                    (f, a)
                }
            };
            let r = vh::catch(|| {
                if is_async {
                    block_on(Reader::from_context(ctx).with_stream_async(fmt, Cursor::new(asset.clone())))
                } else {
                    Reader::from_context(ctx).with_stream(fmt, Cursor::new(asset.clone()))
                }
            });
            wrap(r, |r| Outcome::Ok(same_of(&r)))
        }
    };
    let tr = trace.lock().unwrap().clone();
    (out, tr, signer.tsa_calls.load(Ordering::SeqCst))
}

fn judge(run: &Run, c_in: &Case, selftest: &str) -> CaseResult {
    let inp = inputs();
    let op = c_in.op % N_OPS;
    let remote = op == 8;
    // with_fragment has no harness-signed input (fragmented signing is file based): fixture input only
    let c = &Case { inv: if op == 4 { 0 } else { c_in.inv }, ..c_in.clone() };
    let inv_kind = (c.inv > 0).then(|| (c.inv - 1) as usize % INV_KINDS.len());
    let signing = matches!(op, 0 | 1 | 5 | 9);
    let inv = match inv_kind {
        Some(k) if !signing => match inv_input(c) {
            Ok(i) => Some(i),
            Err(e) => {
                // not of the class "signable": nothing to compare
                run.count(&format!("pair_{}_invalid_def_input_not_signable:{}:{e}", op_name(op), INV_KINDS[k]));
                return Ok(());
            }
        },
        _ => None,
    };
    let store = match &inv {
        Some(i) if remote => i.store.clone(),
        _ if remote && !inp.remote.is_empty() => inp.remote[c.a as usize % inp.remote.len()].2.clone(),
        _ => vec![],
    };
    let env = Env { settings: settings_json(c.settings, remote), mock: Mock { mode: c.mode, manifest: Arc::new(store), calls: Arc::new(AtomicUsize::new(0)) }, inv };
    run.count(&format!("op:{}", op_name(op)));
    if signing {
        run.count(&format!("signer_variant:{}", c.signer % N_SIGNERS));
        run.count(&format!("settings_variant:{}", c.settings % N_SETTINGS));
    }

    let (s, s_trace, s_tsa) = run_flavour(c, &env, false);
    let sync_calls = env.mock.calls.swap(0, Ordering::SeqCst);
    let (mut a, a_trace, a_tsa) = run_flavour(c, &env, true);
    let async_calls = env.mock.calls.swap(0, Ordering::SeqCst);
    if selftest == "async-drops-code" {
        if let Outcome::Ok(v) = &mut a {
            if let Some(codes) = v["verdict"]["codes"].as_array_mut() {
                codes.pop();
            }
        }
    }
    if selftest == "async-error" && signing && c.signer % N_SIGNERS == 2 {
        a = Outcome::Err("OtherError".into());
    }
    if selftest == "async-skips-verify" && op == 9 {
        // emulates an async branch of sign_box_hashed_embeddable that does not run verify-after-sign: the async
        // answer is the one the SDK gives with verify.verify_after_sign = false
        let mut st = env.settings.clone();
        sdk::merge(&mut st, &json!({"verify": {"verify_after_sign": false}}));
        let env2 = Env { settings: st, mock: env.mock.clone(), inv: None };
        a = run_flavour(c, &env2, true).0;
        env.mock.calls.swap(0, Ordering::SeqCst);
    }

    // the class "signable but invalid on validation" is established from the synchronous outcome
    let mut inv_confirmed = false;
    if let Some(k) = inv_kind {
        let vas_on = c.settings % N_SETTINGS != 1;
        let flagged = |v: &Value| {
            let t = v.to_string();
            t.contains("assertion.action") || t.contains("assertion.notRedacted")
        };
        inv_confirmed = match &s {
            // ValidationRule: the validator stops at the rule (empty actions array), on post-sign validation or on
            // reading the signed output / input back
            Outcome::Err(e) => (signing && vas_on && e == "InvalidManifest") || (!matches!(op, 6 | 7) && e == "ValidationRule"),
            Outcome::Ok(v) if matches!(op, 6 | 7) => flagged(v),
            Outcome::Ok(v) => v["verdict"]["state"] == "Invalid" && flagged(&v["verdict"]),
            Outcome::Panic(_) => false,
        };
        if inv_confirmed {
            run.count("invalid_on_validation_defs");
            run.count(&format!("pair_{}_invalid_def", op_name(op)));
            run.count(&format!("invalid_def_kind:{}", INV_KINDS[k]));
            if signing {
                run.count(&format!("pair_{}_invalid_def:verify_after_sign_{}", op_name(op), if vas_on { "on" } else { "off" }));
            }
        } else {
            run.count(&format!("pair_{}_invalid_def_unconfirmed:{}:{}", op_name(op), INV_KINDS[k], s.short()));
        }
    }

    run.count(&format!("{}:sync:{}", op_name(op), match &s { Outcome::Ok(v) => format!("ok:{}", v["verdict"]["state"].as_str().unwrap_or("-")), Outcome::Err(e) => format!("err:{e}"), Outcome::Panic(_) => "panic".into() }));
    run.count(if s_trace == a_trace { "progress_trace:equal" } else { "progress_trace:differs(recorded only)" });
    if s_tsa + a_tsa > 0 {
        run.count(if s_tsa == a_tsa { "tsa_override_calls:equal" } else { "tsa_override_calls:differ(recorded only)" });
    }
    if sync_calls + async_calls > 0 {
        run.count(&format!("resolver_calls:sync={}:async={}", sync_calls.min(3), async_calls.min(3)));
    }
    let has_timestamp = |o: &Outcome| matches!(o, Outcome::Ok(v) if v["verdict"]["codes"].as_array().map(|a| a.iter().any(|c| c.as_str().map(|s| s.contains("timeStamp.")).unwrap_or(false))).unwrap_or(false));
    if has_timestamp(&s) {
        run.count("readback_has_timeStamp_code");
    }

    // non-triviality: a `_sync`-branch site beyond the plain entry point is exercised
    let nt = inv_confirmed || match op {
        0 | 1 | 5 | 9 => c.signer % N_SIGNERS != 0 || c.settings % N_SETTINGS != 1,
        8 => true,
        2 | 6 => {
            let name = if env.inv.is_some() { "harness-signed" } else { inp.assets[c.a as usize % inp.assets.len()].2.as_str() };
            name.contains("ocsp") || name.contains("CAWG") || name.contains("harness-signed") || c.settings % N_SETTINGS == 4
        }
        _ => sync_calls + async_calls > 0,
    };
    if nt {
        run.nontrivial(c);
    }
    run.count(if nt { "case:nontrivial" } else { "case:plain-entry-point-only" });

    if s == a {
        return Ok(());
    }
    // control: are both forms stable under this normalisation?
    let (s2, _, _) = run_flavour(c, &env, false);
    let (a2, _, _) = run_flavour(c, &env, true);
    if s2 != s || (a2 != a && selftest.is_empty()) {
        run.count(&format!("control-unstable(not judged):{}", op_name(op)));
        static NOTES: AtomicUsize = AtomicUsize::new(0);
        if NOTES.fetch_add(1, Ordering::SeqCst) < 8 {
            let d = match (&s, &s2) {
                (Outcome::Ok(x), Outcome::Ok(y)) => defgen::first_diff(x, y, "").unwrap_or_else(|| "?".into()),
                _ => format!("{} vs {}", s.short(), s2.short()),
            };
            run.note(format!("control-unstable {} (signer {}, settings {}, a {}): two sync runs differ: {d}; async: {}", op_name(op), c.signer % N_SIGNERS, c.settings % N_SETTINGS, c.a, a.short()));
        }
        return Ok(());
    }
    let class = match (&s, &a) {
        (Outcome::Panic(p), _) | (_, Outcome::Panic(p)) => format!("panic:{p}"),
        (Outcome::Err(x), Outcome::Err(y)) => format!("error-kind-differs:sync-{x}:async-{y}"),
        (Outcome::Ok(_), Outcome::Err(y)) => format!("sync-ok-async-err:{y}"),
        (Outcome::Err(x), Outcome::Ok(_)) => format!("sync-err-{x}:async-ok"),
        (Outcome::Ok(x), Outcome::Ok(y)) => {
            if x["verdict"] != y["verdict"] {
                "verdict-differs".to_string()
            } else {
                "report-differs".to_string()
            }
        }
    };
    let detail = match (&s, &a) {
        (Outcome::Ok(x), Outcome::Ok(y)) => defgen::first_diff(x, y, "").unwrap_or_else(|| "?".into()),
        _ => format!("sync {} vs async {}", s.short(), a.short()),
    };
    let what = match op {
        _ if inv_kind.is_some() => format!(
            "invalid-on-validation definition kind {} ({}) seed {} = {}, source kind {}, alg {}, signer variant {}, settings variant {}",
            c.inv - 1,
            INV_KINDS[inv_kind.unwrap_or(0)],
            c.def.seed,
            inv_definition(c.inv - 1, c.def.seed),
            vh::assets::KINDS[c.a as usize % 16],
            sdk::ALGS[c.alg as usize % sdk::ALGS.len()],
            c.signer % N_SIGNERS,
            c.settings % N_SETTINGS
        ),
        2 | 6 => format!("input {}", inp.assets[c.a as usize % inp.assets.len()].2),
        3 => format!("input {}", inp.sidecars[c.a as usize % inp.sidecars.len()].3),
        7 => format!("input {}", inp.archives[c.a as usize % inp.archives.len()].1),
        8 => format!("resolver mode {}", c.mode % 6),
        9 => format!("box hash input {}, signer variant {}, settings variant {}", c.a % 3, c.signer % N_SIGNERS, c.settings % N_SETTINGS),
        _ => format!("source kind {}, signer variant {}, settings variant {}", vh::assets::KINDS[c.a as usize % 16], c.signer % N_SIGNERS, c.settings % N_SETTINGS),
    };
    Err(Fail::new(format!("C40:{}:{class}", op_name(op)), format!("{} ({what}, tamper/mode {}): {detail}", op_name(op), c.mode)))
}

// ------------------------------------------------------------------------------------------------
// generator
// ------------------------------------------------------------------------------------------------

fn case_strategy() -> impl Strategy<Value = Case> {
    let op = prop_oneof![
        30 => Just(0u8),
        10 => Just(1u8),
        18 => Just(2u8),
        5 => Just(3u8),
        3 => Just(4u8),
        10 => Just(5u8),
        12 => Just(6u8),
        5 => Just(7u8),
        7 => Just(8u8),
        14 => Just(9u8),
    ];
    let inv = prop_oneof![11 => Just(0u8), 9 => 1u8..=(INV_KINDS.len() as u8)];
    (op, 0u8..64, 0u8..7, prop_oneof![3 => Just(0u8), 7 => 1u8..N_SIGNERS], 0u8..(2 * N_SETTINGS), prop_oneof![2 => Just(0u8), 1 => 1u8..24], defgen::spec_strategy(def_opts()), inv)
        .prop_map(|(op, a, alg, signer, s, mode, def, inv)| {
            // invalid-on-validation definitions: verify_after_sign on / off with equal weight (off = variant 1)
            let settings = if inv == 0 {
                s % N_SETTINGS
            } else if s % 2 == 1 {
                1
            } else {
                [0u8, 0, 0, 3, 2, 5][(s / 2) as usize % 6]
            };
            // the signer / tamper dimensions are explored with valid definitions; keep most invalid ones plain so the
            // definition is what decides the outcome
            let (signer, mode) = if inv > 0 && a % 4 != 0 { (if signer % 2 == 0 { 0 } else { signer }, 0) } else { (signer, mode) };
            Case { op, a, alg, signer, settings, mode, def, inv }
        })
}

fn main() {
    vh::quiet_panics();
    let run = Run::from_args("C40", "exploration");
    let selftest = std::env::var("VERIF_SELFTEST").unwrap_or_default();
    run.set_rule("case = (operation pair, input selector, algorithm, signer variant [plain | harness TSA answering send_timestamp_request | TSA error | TSA url without answer | junk OCSP override | dynamic assertion | junk TSA answer | TSA + OCSP + dynamic assertion], settings variant [base | verify_after_sign off | verify_timestamp_trust on with an untrusted TSA | compressed manifests | CAWG identity decoding | auto time-stamp assertion through the context resolver], tamper / resolver mode, vh::defgen definition [0-3 assertions, 0-2 ingredients incl. signed ones, claim v1/v2, Create/Edit intents]). Pairs: sign/sign_async and save_to_stream(_async) over 16 synthesised container kinds, with_stream(_async) over 17 repository fixtures + 5 harness-signed assets (time stamp, OCSP junk, dynamic assertion, compressed, untrusted TSA) each pristine or tampered 3 ways, with_manifest_data_and_stream(_async), with_fragment(_async), sign_data_hashed_embeddable(_async), add_ingredient_from_stream(_async), add_ingredient_from_archive(_async) (4 archives), remote-manifest read through mock sync/async resolvers (6 answer modes). Additionally every pair except with_fragment is driven with signable-but-invalid-on-validation definitions (10 generated kinds of action-rule violations: c2pa.created without digitalSourceType, no created/opened first action, opened/placed/removed without ingredient reference, translated without languages, empty action name, placed/transcoded ingredient with the wrong relationship, unresolvable redaction uri, empty actions array; random company actions, titles, labels), crossed with verify_after_sign on/off; for reading/import pairs the input is an asset/sidecar/remote store/archive signed from such a definition; sign_box_hashed_embeddable(_async) over boxhash.jpg + boxhash.json / boxhash_with_exclusion.json and the bare application/c2pa box map. Non-trivial = a `_sync`-branch site beyond the entry point is exercised: TSA / OCSP / dynamic-assertion signer, verify-after-sign, remote fetch through the mock resolver, OCSP-/CAWG-/time-stamp-bearing input.");
    run.assume("the async signer / resolver / dynamic assertion delegate to the same objects as the sync ones; the harness TSA (openssl ts -reply) issues one token per request");
    run.assume("signing outcomes are compared after cross-run normalisation; a mismatch is judged only if a second sync run reproduces the first sync normal form");
    if let Err(e) = tsa() {
        run.inconclusive(format!("harness TSA cannot be set up: {e}"));
        run.finish();
    }
    let _ = inputs();
    run.extra("inputs", json!({
        "assets": inputs().assets.iter().map(|a| a.2.clone()).collect::<Vec<_>>(),
        "remote": inputs().remote.len(),
        "sidecars": inputs().sidecars.iter().map(|a| a.3.clone()).collect::<Vec<_>>(),
        "archives": inputs().archives.iter().map(|a| a.1.clone()).collect::<Vec<_>>(),
    }));

    // a small grid first: every operation x every signer variant x every settings variant (signing ops),
    // every input x pristine/tampered (reading ops)
    let mut grid: Vec<Case> = vec![];
    for op in [0u8, 1, 5, 9] {
        for signer in 0..N_SIGNERS {
            for settings in 0..N_SETTINGS {
                if run.quick() && op != 0 && (signer + settings) % 3 != 0 {
                    continue;
                }
                grid.push(Case { op, a: signer.wrapping_mul(5).wrapping_add(settings), alg: signer % 7, signer, settings, mode: 0, def: DefSpec { seed: (signer as u64) * 7 + settings as u64, intent: if settings == 5 { 3 } else { 0 }, n_assertions: 1, ..DefSpec::default() }, inv: 0 });
            }
        }
    }
    for a in 0..inputs().assets.len() as u8 {
        for mode in 0..(if run.quick() { 2 } else { 4 }) {
            grid.push(Case { op: 2, a, alg: 0, signer: 0, settings: if a % 2 == 0 { 0 } else { 4 }, mode, def: DefSpec::default(), inv: 0 });
            if mode == 0 {
                grid.push(Case { op: 6, a, alg: a % 3, signer: 0, settings: 0, mode, def: DefSpec::default(), inv: 0 });
            }
        }
    }
    for mode in 0..6u8 {
        for a in 0..2u8 {
            grid.push(Case { op: 8, a, alg: 0, signer: 0, settings: 0, mode, def: DefSpec::default(), inv: 0 });
        }
    }
    for a in 0..4u8 {
        grid.push(Case { op: 7, a, alg: 0, signer: 0, settings: 0, mode: 0, def: DefSpec::default(), inv: 0 });
        grid.push(Case { op: 3, a, alg: 0, signer: 0, settings: 0, mode: a, def: DefSpec::default(), inv: 0 });
        grid.push(Case { op: 4, a, alg: 0, signer: 0, settings: 0, mode: a, def: DefSpec::default(), inv: 0 });
    }
    // invalid-on-validation definitions: every pair x every kind x verify_after_sign on / off (signing pairs), seeds
    // drawn from the run seed; the box-hashed embeddable pair additionally over its three box-hash inputs
    let mut seeds = vh::rng::SplitMix64::new(run.seed ^ 0xC40_0000_0BAD);
    let mut n_inv_grid = 0usize;
    for op in [9u8, 0, 1, 5, 2, 3, 6, 7, 8] {
        let signing = matches!(op, 0 | 1 | 5 | 9);
        for kind in 0..INV_KINDS.len() as u8 {
            let reps: u8 = if op == 9 { 3 } else { 2 };
            for rep in 0..reps {
                for settings in [0u8, 1] {
                    if !signing && settings == 1 {
                        continue;
                    }
                    let a = if op == 9 { rep } else { (seeds.below(64)) as u8 };
                    let def = DefSpec { seed: seeds.next_u64() >> 16, ..DefSpec::default() };
                    grid.push(Case { op, a, alg: (seeds.below(7)) as u8, signer: 0, settings, mode: 0, def, inv: kind + 1 });
                    n_inv_grid += 1;
                }
            }
        }
    }
    run.extra("grid_invalid_def_cases", json!(n_inv_grid));
    run.extra("grid_cases", json!(grid.len()));
    run.drive_enum_par("grid", grid, run.scale(4, 12), |c| judge(&run, c, &selftest));

    let n = run.scale(200, 6000);
    run.drive_par("pairs", n, run.scale(4, 16), case_strategy(), |c| judge(&run, c, &selftest));
    if let Ok(t) = tsa() {
        let _ = std::fs::remove_dir_all(&t.dir);
    }
    run.finish();
}
