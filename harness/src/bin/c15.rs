//! C15 — embeddable signing returns bytes of exactly the placeholder size (or fails with an error).
//!
//! Flows (public API only, as in the SDK's own `test_data_hashed_placeholder_workflow_complete`,
//! `test_bmff_hashed_placeholder_workflow_complete`, `test_builder_data_hashed_embeddable`):
//!   flow 0  `Builder::placeholder(fmt)` → embed → `set_data_hash_exclusions` → `update_hash_from_stream`
//!           → `sign_embeddable(fmt)` → patch in place → `Reader`          (BMFF: no exclusion call, BmffHash)
//!   flow 1  `data_hashed_placeholder(reserve, fmt)` → embed → caller-built `DataHash` (hash computed by the
//!           harness with the sha2 crate) → `sign_data_hashed_embeddable` → patch → `Reader`
//!   flow 2  flow 1 with additional exclusion ranges at offsets >= 2^32 (they cannot lie inside a small asset, so
//!           only the size contract is judged, the asset is not read back).
//!
//! Embedding: the JUMBF length L is read from the composed placeholder, the format handler embeds a dummy store
//! of L bytes (`jumbf_io::save_jumbf_to_memory`), the handler reports where it put it
//! (`verif_hooks::object_locations`, kind Cai; BMFF: the top-level C2PA `uuid` box) and the composed placeholder
//! is written over exactly that span (its length must equal the span, else the case is counted as not embeddable).
//!
//! Oracle: `Ok(b)` ⇒ `b.len() == placeholder.len()` and the asset patched with `b` at the placeholder span reads
//! Valid/Trusted; `Err` is allowed. (The harness patches exactly `b.len()` bytes, so "bytes outside the
//! placeholder span untouched" is equivalent to the length equality.)

use std::io::Cursor;

use c2pa::{
    assertions::DataHash,
    dynamic_assertion::{DynamicAssertion, DynamicAssertionContent, PartialClaim},
    Builder, BuilderIntent, DigitalSourceType, HashRange, Signer, SigningAlg,
};
use proptest::prelude::*;
use serde::{Deserialize, Serialize};
use serde_json::json;
use sha2::Digest;
use vh::{rng::SplitMix64, CaseResult, Fail, Run};

const DATA_KINDS: [&str; 5] = ["jpeg", "png", "gif", "tiff", "jxl"];
const BMFF_KINDS: [&str; 5] = ["mp4", "heic", "avif", "m4a", "mov"];
const BMFF_C2PA_UUID: [u8; 16] = [0xd8, 0xfe, 0xc3, 0xd6, 0x1b, 0x0e, 0x48, 0x3c, 0x92, 0x97, 0x58, 0x28, 0x87, 0x7e, 0xc4, 0x81];
const C2PA_STORE_UUID: [u8; 16] = [0x63, 0x32, 0x70, 0x61, 0x00, 0x11, 0x00, 0x10, 0x80, 0x00, 0x00, 0xAA, 0x00, 0x38, 0x9B, 0x71];

#[derive(Clone, Debug, Serialize, Deserialize, PartialEq, Eq, Hash)]
struct Def {
    title_len: usize,
    /// one custom assertion per entry, the entry is the length of its string field
    assertions: Vec<usize>,
}

#[derive(Clone, Debug, Serialize, Deserialize, PartialEq, Eq, Hash)]
struct Case {
    /// jpeg png gif tiff jxl | c2pa (sidecar) | mp4 heic avif m4a mov (BmffHash, flow 0 only)
    kind: String,
    asset_seed: u64,
    /// size hint for the synthesised asset (0 = small default)
    asset_size: usize,
    flow: u8,
    /// raw material for the additional exclusion ranges; mapped into the asset outside the placeholder span
    /// (see `map_extras`); the placeholder span itself is always the first range handed to the SDK
    extras: Vec<(u64, u64)>,
    /// flow 2 only: number of additional ranges at offsets >= 2^32
    huge: usize,
    def: Def,
    /// 0 ed25519, 1 es256, 2 ps256
    signer: u8,
    /// added to the fixture signer's reserve_size()
    reserve_extra: usize,
    /// reserve_size (= content size) of a harness DynamicAssertion offered by the signer
    dynamic: Option<usize>,
    /// 0 sha256, 1 sha384, 2 sha512 (definition.hash_alg; flow 0 only)
    hash_alg: u8,
    /// the signer additionally carries the SDK's CAWG X.509 identity assertion (flow 0 only)
    #[serde(default)]
    cawg: bool,
}

fn alg_name(a: u8) -> &'static str {
    match a % 3 {
        0 => "sha256",
        1 => "sha384",
        _ => "sha512",
    }
}

fn sha(alg: u8, bytes: &[u8]) -> Vec<u8> {
    match alg % 3 {
        0 => sha2::Sha256::digest(bytes).to_vec(),
        1 => sha2::Sha384::digest(bytes).to_vec(),
        _ => sha2::Sha512::digest(bytes).to_vec(),
    }
}

// ------------------------------------------------------------------------------------------------
// signer wrapper + dynamic assertion
// ------------------------------------------------------------------------------------------------

/// Encoded size of a CBOR unsigned integer / length header for `n`.
fn cbor_uint_len(n: u64) -> usize {
    match n {
        0..=23 => 1,
        24..=0xff => 2,
        0x100..=0xffff => 3,
        0x1_0000..=0xffff_ffff => 5,
        _ => 9,
    }
}

/// Valid CBOR of exactly `n` bytes (n >= 1): a byte string, or `[0, bstr]` where no byte string has that size.
fn cbor_of_len(n: usize) -> Vec<u8> {
    fn bstr(n: usize) -> Option<Vec<u8>> {
        for h in [1usize, 2, 3, 5] {
            if n < h {
                continue;
            }
            let p = n - h;
            if cbor_uint_len(p as u64) == h {
                let mut v = Vec::with_capacity(n);
                match h {
                    1 => v.push(0x40 + p as u8),
                    2 => v.extend_from_slice(&[0x58, p as u8]),
                    3 => {
                        v.push(0x59);
                        v.extend_from_slice(&(p as u16).to_be_bytes());
                    }
                    _ => {
                        v.push(0x5a);
                        v.extend_from_slice(&(p as u32).to_be_bytes());
                    }
                }
                v.extend(std::iter::repeat(0xA5).take(p));
                return Some(v);
            }
        }
        None
    }
    if let Some(v) = bstr(n) {
        return v;
    }
    let mut v = vec![0x82, 0x00];
    v.extend(bstr(n - 2).expect("two consecutive sizes cannot both be CBOR byte-string gaps"));
    v
}

/// By how many bytes the SDK's placeholder slot for a dynamic assertion of reserve size `r` falls short of `r`
/// (the slot is a CBOR array of zeros whose element count is `r` minus the header width *of an r-element array*;
/// computed from the input only, to name the failure class): 1 for r in 24..=25 and 256..=258, 2 for 65536..=65540.
fn da_placeholder_short(r: usize) -> usize {
    let n = r.saturating_sub(cbor_uint_len(r as u64));
    r.saturating_sub(n + cbor_uint_len(n as u64))
}

struct HarnessDa {
    size: usize,
}

impl DynamicAssertion for HarnessDa {
    fn label(&self) -> String {
        "org.verif.dynamic".to_string()
    }
    fn reserve_size(&self) -> c2pa::Result<usize> {
        Ok(self.size)
    }
    fn content(&self, _label: &str, size: Option<usize>, _claim: &PartialClaim) -> c2pa::Result<DynamicAssertionContent> {
        // contract: the content must have exactly the reserved size
        Ok(DynamicAssertionContent::Cbor(cbor_of_len(size.unwrap_or(self.size))))
    }
}

struct WrapSigner {
    inner: c2pa::BoxedSigner,
    extra: usize,
    dynamic: Option<usize>,
}

impl Signer for WrapSigner {
    fn sign(&self, data: &[u8]) -> c2pa::Result<Vec<u8>> {
        self.inner.sign(data)
    }
    fn alg(&self) -> SigningAlg {
        self.inner.alg()
    }
    fn certs(&self) -> c2pa::Result<Vec<Vec<u8>>> {
        self.inner.certs()
    }
    fn reserve_size(&self) -> usize {
        self.inner.reserve_size() + self.extra
    }
    fn dynamic_assertions(&self) -> Vec<Box<dyn DynamicAssertion>> {
        let mut v = self.inner.dynamic_assertions();
        if let Some(size) = self.dynamic {
            v.push(Box::new(HarnessDa { size }));
        }
        v
    }
}

fn make_signer(c: &Case, with_dynamic: bool) -> Result<WrapSigner, Fail> {
    let name = ["ed25519", "es256", "ps256"][(c.signer % 3) as usize];
    let mut inner = vh::sdk::signer(name);
    if with_dynamic && c.cawg {
        // the SDK's own CAWG X.509 identity assertion (credential: the ed25519 fixture), built through the public
        // settings type exactly as Context does for `cawg_x509_signer`
        let (cert, key) = vh::sdk::credential("ed25519");
        let cawg = c2pa::settings::signer::SignerSettings::Local {
            alg: SigningAlg::Ed25519,
            sign_cert: String::from_utf8_lossy(&cert).to_string(),
            private_key: String::from_utf8_lossy(&key).to_string(),
            tsa_url: None,
            referenced_assertions: None,
            roles: Some(vec!["creator".to_string()]),
        };
        inner = cawg.cawg_signer(inner).map_err(|e| Fail::new("C15:harness-cawg-signer", format!("{e}")))?;
    }
    Ok(WrapSigner { inner, extra: c.reserve_extra, dynamic: if with_dynamic { c.dynamic } else { None } })
}

fn definition(d: &Def) -> serde_json::Value {
    let assertions: Vec<serde_json::Value> = d
        .assertions
        .iter()
        .enumerate()
        .map(|(i, n)| json!({"label": format!("org.verif.a{i}"), "data": {"s": "x".repeat(*n), "n": i}}))
        .collect();
    json!({
        "title": "t".repeat(d.title_len),
        "claim_generator_info": [{"name": "verif-c15", "version": "1"}],
        "assertions": assertions,
    })
}

// ------------------------------------------------------------------------------------------------
// embedding
// ------------------------------------------------------------------------------------------------

/// Length of the JUMBF superbox carried by a composed manifest (LBox of the first `jumb` box).
fn jumbf_len(composed: &[u8]) -> Option<usize> {
    let p = vh::sdk::find_sub(composed, b"jumb")?;
    if p < 4 {
        return None;
    }
    Some(u32::from_be_bytes([composed[p - 4], composed[p - 3], composed[p - 2], composed[p - 1]]) as usize)
}

/// A store-shaped JUMBF of exactly `total` bytes (C2PA description box + filler).
fn dummy_store(total: usize) -> Vec<u8> {
    let mut v = Vec::with_capacity(total);
    v.extend_from_slice(&(total as u32).to_be_bytes());
    v.extend_from_slice(b"jumb");
    v.extend_from_slice(&30u32.to_be_bytes());
    v.extend_from_slice(b"jumd");
    v.extend_from_slice(&C2PA_STORE_UUID);
    v.push(0x03);
    v.extend_from_slice(b"c2pa\0");
    v.resize(total, 0x5a);
    v
}

/// Top-level C2PA uuid box of a BMFF file: (offset, size).
fn bmff_c2pa_box(b: &[u8]) -> Option<(usize, usize)> {
    let mut p = 0usize;
    while p + 8 <= b.len() {
        let s32 = u32::from_be_bytes([b[p], b[p + 1], b[p + 2], b[p + 3]]) as usize;
        let (size, hdr) = if s32 == 1 {
            if p + 16 > b.len() {
                return None;
            }
            (u64::from_be_bytes(b[p + 8..p + 16].try_into().ok()?) as usize, 16)
        } else if s32 == 0 {
            (b.len() - p, 8)
        } else {
            (s32, 8)
        };
        if size < hdr || p + size > b.len() {
            return None;
        }
        if &b[p + 4..p + 8] == b"uuid" && size >= hdr + 16 && b[p + hdr..p + hdr + 16] == BMFF_C2PA_UUID {
            return Some((p, size));
        }
        p += size;
    }
    None
}

/// Asset with `composed` embedded where the format handler puts a store of the same size: (bytes, offset).
fn embed(kind: &str, fmt: &str, asset: &[u8], composed: &[u8]) -> Result<(Vec<u8>, usize), String> {
    if kind == "c2pa" {
        return Ok((composed.to_vec(), 0));
    }
    let l = jumbf_len(composed).ok_or("composed placeholder carries no jumb box")?;
    let with_dummy = c2pa::jumbf_io::save_jumbf_to_memory(fmt, asset, &dummy_store(l)).map_err(|e| format!("save_jumbf_to_memory: {e}"))?;
    let (off, len) = if BMFF_KINDS.contains(&kind) {
        bmff_c2pa_box(&with_dummy).ok_or("no C2PA uuid box after embedding")?
    } else {
        let locs = c2pa::verif_hooks::object_locations(fmt, &with_dummy).map_err(|e| format!("object_locations: {e}"))?;
        let cai: Vec<_> = locs.iter().filter(|l| l.0 == "Cai").collect();
        if cai.len() != 1 {
            return Err(format!("{} Cai locations", cai.len()));
        }
        (cai[0].1, cai[0].2)
    };
    if len != composed.len() {
        return Err(format!("handler span {len} != composed placeholder {}", composed.len()));
    }
    let mut out = with_dummy;
    out[off..off + len].copy_from_slice(composed);
    Ok((out, off))
}

// ------------------------------------------------------------------------------------------------
// exclusion ranges
// ------------------------------------------------------------------------------------------------

/// CBOR size of an exclusion list as the DataHash assertion stores it: array of {"start": s, "length": l}.
fn excl_cbor_len(ranges: &[(u64, u64)]) -> usize {
    cbor_uint_len(ranges.len() as u64) + ranges.iter().map(|(s, l)| 1 + 6 + cbor_uint_len(*s) + 7 + cbor_uint_len(*l)).sum::<usize>()
}

/// What the placeholder reserves: ten ranges (0, 2).
fn dummy_excl_cbor_len() -> usize {
    excl_cbor_len(&[(0, 2); 10])
}

/// Additional ranges inside `0..n`, disjoint from the placeholder span `off..off+plen` and from each other,
/// sorted by start, every length >= 1. Offsets / lengths are drawn from the classes <24, <256, <65536, rest.
fn map_extras(extras: &[(u64, u64)], n: u64, off: u64, plen: u64) -> Vec<(u64, u64)> {
    let after = off + plen;
    let mut v: Vec<(u64, u64)> = vec![];
    for (a, l) in extras {
        let mut start = match a % 5 {
            0 => (a / 5) % 24,
            1 => (a / 5) % 256,
            2 => (a / 5) % 65_536,
            _ => (a / 5) % n.max(1),
        };
        if start >= off && start < after {
            start = after + (start - off);
        }
        if start >= n {
            if n <= after {
                continue;
            }
            start = after + (a / 5) % (n - after);
        }
        let len = match l % 4 {
            0 => 1 + (l / 4) % 23,
            1 => 24 + (l / 4) % 232,
            2 => 256 + (l / 4) % 65_280,
            _ => 1 + (l / 4) % 64,
        };
        let limit = if start < off { off } else { n };
        let len = len.min(limit - start);
        if len > 0 {
            v.push((start, len));
        }
    }
    v.sort();
    // clip overlaps
    let mut out: Vec<(u64, u64)> = vec![];
    for (s, l) in v {
        if let Some(last) = out.last_mut() {
            if last.0 + last.1 > s {
                if s == last.0 {
                    continue;
                }
                last.1 = s - last.0;
            }
        }
        out.push((s, l));
    }
    out
}

fn class_of(v: u64) -> &'static str {
    match v {
        0..=23 => "<24",
        24..=0xff => "<256",
        0x100..=0xffff => "<65536",
        0x1_0000..=0xffff_ffff => "<2^32",
        _ => ">=2^32",
    }
}

// ------------------------------------------------------------------------------------------------
// judge
// ------------------------------------------------------------------------------------------------

fn panic_fail(step: &str, p: String) -> Fail {
    Fail::new(format!("C15:panic:{}", vh::core::panic_site(&p)), format!("{step}: {p}"))
}

fn judge(run: &Run, selftest: &str, c: &Case) -> CaseResult {
    let is_bmff = BMFF_KINDS.contains(&c.kind.as_str());
    let (fmt, _) = vh::assets::kind_format(&c.kind);
    let flow = if is_bmff { 0 } else { c.flow % 3 };
    run.count(&format!("kind_{}", c.kind));
    run.count(&format!("flow_{flow}"));
    run.count(match c.reserve_extra {
        0 => "reserve_default",
        1..=1000 => "reserve_plus_1k",
        _ => "reserve_plus_10k",
    });
    let dynamic = flow == 0 && (c.dynamic.is_some() || c.cawg);
    if flow == 0 && c.cawg {
        run.count("with_cawg_x509_identity_assertion");
    }
    if flow == 0 && c.dynamic.is_some() {
        run.count("with_dynamic_assertion");
        if c.dynamic.map(da_placeholder_short).unwrap_or(0) > 0 {
            run.count("dynamic_reserve_at_cbor_boundary");
        }
    }

    // ---- asset
    let asset = if c.kind == "c2pa" {
        vec![]
    } else {
        vh::assets::synth(&c.kind, &mut SplitMix64::new(c.asset_seed), c.asset_size).bytes
    };

    // ---- builder + placeholder
    let signer = make_signer(c, dynamic)?;
    let reserve = signer.reserve_size();
    let ctx = if flow == 0 { vh::sdk::context().with_signer(make_signer(c, dynamic)?) } else { vh::sdk::context() };
    let mut builder = Builder::from_context(ctx)
        .with_definition(definition(&c.def).to_string())
        .map_err(|e| Fail::new("C15:harness-definition", format!("{e}")))?;
    builder.set_intent(BuilderIntent::Create(DigitalSourceType::Empty));
    let hash_alg = if flow == 0 { c.hash_alg % 3 } else { 0 };
    if hash_alg != 0 {
        builder.definition.hash_alg = Some(alg_name(hash_alg).to_string());
        run.count(&format!("hash_alg_{}", alg_name(hash_alg)));
    }
    let composed = vh::catch(|| if flow == 0 { builder.placeholder(fmt) } else { builder.data_hashed_placeholder(reserve, fmt) })
        .map_err(|p| panic_fail("placeholder", p))?;
    let composed = match composed {
        Ok(c) => c,
        Err(e) => {
            run.count("placeholder_err");
            run.note(format!("placeholder error ({}): {e}", c.kind));
            return Ok(());
        }
    };
    let (embedded, off) = match embed(&c.kind, fmt, &asset, &composed) {
        Ok(x) => x,
        Err(e) => {
            run.count("not_embeddable");
            run.count(&format!("not_embeddable_{}", c.kind));
            run.note(format!("not embeddable ({} size {}): {e}", c.kind, c.asset_size));
            return Ok(());
        }
    };
    let n = embedded.len() as u64;
    let plen = composed.len() as u64;

    // ---- exclusion list (data-hash formats)
    let mut ranges: Vec<(u64, u64)> = vec![(off as u64, plen)];
    if !is_bmff && c.kind != "c2pa" {
        ranges.extend(map_extras(&c.extras, n, off as u64, plen));
        ranges.sort();
    }
    ranges.truncate(if flow == 2 { 12 - c.huge.clamp(1, 11) } else { 12 });
    let in_asset = ranges.clone();
    if flow == 2 {
        // ranges a caller of a multi-gigabyte asset would pass; beyond this (small) asset, so never read back
        let mut rng = SplitMix64::new(c.asset_seed ^ 0xC15);
        for i in 0..c.huge.clamp(1, 11) {
            let s = (1u64 << 32) + (i as u64) * (1 << 33) + rng.below(1 << 32);
            let l = if rng.bool() { (1u64 << 32) + rng.below(1 << 20) } else { 1 + rng.below(70_000) };
            ranges.push((s, l));
        }
    }
    let excl_len = excl_cbor_len(&ranges);
    let outgrows = !is_bmff && excl_len > dummy_excl_cbor_len();
    if !is_bmff {
        run.count(&format!("ranges_{:02}", ranges.len()));
        for (s, l) in &ranges[1..] {
            run.count(&format!("extra_offset_{}", class_of(*s)));
            run.count(&format!("extra_length_{}", class_of(*l)));
        }
        if outgrows {
            run.count("exclusions_outgrow_dummy_ranges");
            run.nontrivial(c);
        }
    }
    let what_case = || {
        format!(
            "{} flow {flow} asset {n} bytes, placeholder {plen} bytes at {off}, {} exclusion ranges {:?} (CBOR {excl_len} bytes, placeholder reserves {}), reserve {reserve}, dynamic {:?}, {}",
            c.kind,
            ranges.len(),
            ranges,
            dummy_excl_cbor_len(),
            if flow == 0 { c.dynamic } else { None },
            if flow == 0 && c.cawg { format!("{} +cawg", alg_name(hash_alg)) } else { alg_name(hash_alg).to_string() }
        )
    };

    // ---- hash + sign
    let signed: c2pa::Result<Vec<u8>> = if flow == 0 {
        if !is_bmff {
            let hr: Vec<HashRange> = ranges.iter().map(|(s, l)| HashRange::new(*s, *l)).collect();
            match vh::catch(|| builder.set_data_hash_exclusions(hr).map(|_| ())).map_err(|p| panic_fail("set_data_hash_exclusions", p))? {
                Ok(()) => {}
                Err(e) => {
                    run.count("set_exclusions_err");
                    run.note(format!("set_data_hash_exclusions error: {e}"));
                    return Ok(());
                }
            }
        }
        let mut stream = Cursor::new(embedded.clone());
        match vh::catch(|| builder.update_hash_from_stream(fmt, &mut stream).map(|_| ())).map_err(|p| panic_fail("update_hash_from_stream", p))? {
            Ok(()) => {}
            Err(e) => {
                run.count("update_hash_err");
                run.note(format!("update_hash_from_stream error ({}): {e}", c.kind));
                return Ok(());
            }
        }
        vh::catch(|| builder.sign_embeddable(fmt)).map_err(|p| panic_fail("sign_embeddable", p))?
    } else {
        // caller-computed hash: every byte outside the in-asset exclusion ranges
        let mut keep = vec![true; embedded.len()];
        for (s, l) in &in_asset {
            for k in &mut keep[*s as usize..(*s + *l) as usize] {
                *k = false;
            }
        }
        let kept: Vec<u8> = embedded.iter().zip(&keep).filter(|(_, k)| **k).map(|(b, _)| *b).collect();
        let mut dh = DataHash::new("jumbf manifest", "sha256");
        for (s, l) in &ranges {
            dh.add_exclusion(HashRange::new(*s, *l));
        }
        dh.set_hash(sha(0, &kept));
        vh::catch(|| builder.sign_data_hashed_embeddable(&signer, &dh, fmt)).map_err(|p| panic_fail("sign_data_hashed_embeddable", p))?
    };

    let api = if flow == 0 { "sign-embeddable" } else { "data-hashed-embeddable" };
    let mut signed = match signed {
        Ok(b) => b,
        Err(e) => {
            run.count("sign_err");
            let es = format!("{e:?}");
            run.count(&format!("sign_err:{}", es.split(['(', ' ', '{']).next().unwrap_or("?")));
            if outgrows {
                run.count("sign_err_when_exclusions_outgrow");
            }
            if flow == 0 && run.hist_get("sign_err") <= 40 {
                run.note(format!("sign error {es}: {}", what_case()));
            }
            return Ok(());
        }
    };
    run.count("sign_ok");
    if selftest == "shorter" && c.extras.len() == 2 {
        signed.pop();
    }
    if signed.len() != composed.len() {
        let dir = if signed.len() > composed.len() { "longer" } else { "shorter" };
        // the class is derived from the input only: exclusion list larger than what the placeholder reserved, or not
        let cause = if outgrows {
            ""
        } else if flow == 0 && c.dynamic.map(da_placeholder_short).unwrap_or(0) > 0 {
            ":dynamic-reserve-at-cbor-boundary"
        } else {
            ":exclusions-fit"
        };
        return Err(Fail::new(
            format!("C15:{api}-{dir}-than-placeholder{cause}"),
            format!("returned {} bytes for a {}-byte placeholder ({:+}); {}", signed.len(), composed.len(), signed.len() as i64 - composed.len() as i64, what_case()),
        ));
    }
    run.count("same_length");
    if outgrows {
        run.count("same_length_when_exclusions_outgrow");
    }
    if flow == 2 {
        run.count("size_only_not_read_back");
        return Ok(());
    }
    if selftest == "corrupt" && c.extras.len() == 3 {
        let mid = signed.len() / 2;
        signed[mid] ^= 0x40;
    }

    // ---- patch in place + read
    let mut patched = embedded.clone();
    patched[off..off + signed.len()].copy_from_slice(&signed);
    // bytes of zero padding that sign_embeddable appends after the JUMBF superbox (flow 0), predicted from the
    // input only: what the placeholder reserved minus what the real exclusion list / dynamic assertion need
    let slack = if flow == 0 && !is_bmff {
        dummy_excl_cbor_len() as i64 - excl_len as i64 - c.dynamic.map(da_placeholder_short).unwrap_or(0) as i64
    } else {
        0
    };
    if c.kind == "jxl" && jumbf_len(&signed).is_some_and(|l| l < signed.len()) {
        // informational: JPEG XL carries the manifest as a bare top-level `jumb` box, so zeros after it are parsed
        // as further box headers (size 0 = "to end of file") by any box walker
        run.count("jxl_zero_bytes_after_jumb_box");
    }
    let reader = match vh::catch(|| vh::sdk::read(fmt, &patched)).map_err(|p| panic_fail("Reader", p))? {
        Ok(r) => r,
        Err(e) => {
            let class = if c.kind == "jxl" && (1..=7).contains(&slack) { ":zero-padding-1..7-bytes" } else { "" };
            return Err(Fail::new(
                format!("C15:{api}-patched-asset-unreadable:{}{class}", c.kind),
                format!("Reader fails: {e}; predicted zero padding {slack} bytes; {}", what_case()),
            ));
        }
    };
    if !vh::sdk::is_valid_or_trusted(&reader) {
        return Err(Fail::new(
            format!("C15:{api}-patched-asset-invalid:{}", c.kind),
            format!("reads back {} {:?}; {}", vh::sdk::state_name(reader.validation_state()), vh::sdk::failure_codes(&reader), what_case()),
        ));
    }
    run.count("read_valid");
    Ok(())
}

// ------------------------------------------------------------------------------------------------
// generator
// ------------------------------------------------------------------------------------------------

fn case_strategy() -> impl Strategy<Value = Case> {
    let kind = prop_oneof![
        12 => (0usize..DATA_KINDS.len()).prop_map(|i| DATA_KINDS[i].to_string()),
        1 => Just("c2pa".to_string()),
        3 => (0usize..BMFF_KINDS.len()).prop_map(|i| BMFF_KINDS[i].to_string()),
    ];
    let extras = prop_oneof![
        2 => proptest::collection::vec((any::<u64>(), any::<u64>()), 0..4),
        3 => proptest::collection::vec((any::<u64>(), any::<u64>()), 4..12),
        2 => proptest::collection::vec((any::<u64>(), any::<u64>()), 8..12),
    ];
    let def = (0usize..40, proptest::collection::vec(0usize..300, 0..4)).prop_map(|(title_len, assertions)| Def { title_len, assertions });
    let reserve_extra = prop_oneof![3 => Just(0usize), 1 => Just(1_000usize), 1 => Just(10_000usize)];
    let dynamic = prop_oneof![
        4 => Just(None),
        1 => (1usize..60).prop_map(Some),
        1 => prop_oneof![Just(24usize), Just(25), Just(26), Just(255), Just(256), Just(257), Just(258), Just(259), Just(1000)].prop_map(Some),
        1 => (60usize..3000).prop_map(Some),
    ];
    let asset_size = prop_oneof![3 => Just(0usize), 2 => Just(70_000usize), 1 => Just(140_000usize)];
    let flow = prop_oneof![5 => Just(0u8), 2 => Just(1u8), 1 => Just(2u8)];
    (kind, any::<u64>(), asset_size, flow, extras, 1usize..12, def, 0u8..3, reserve_extra, dynamic, 0u8..3, prop::bool::weighted(0.12)).prop_map(
        |(kind, asset_seed, asset_size, flow, extras, huge, def, signer, reserve_extra, dynamic, hash_alg, cawg)| Case {
            kind,
            asset_seed,
            asset_size,
            flow,
            extras,
            huge,
            def,
            signer,
            reserve_extra,
            dynamic,
            hash_alg,
            cawg,
        },
    )
}

fn main() {
    vh::quiet_panics();
    let run = Run::from_args("C15", "exploration");
    let selftest = std::env::var("VERIF_SELFTEST").unwrap_or_default();
    let threads = std::thread::available_parallelism().map(|n| n.get()).unwrap_or(4).min(16);
    run.set_rule("case = (format kind jpeg|png|gif|tiff|jxl|sidecar|mp4|heic|avif|m4a|mov, synthesised asset (seed, size 0.3-6 KB | 70 KB | 140 KB), flow 0 placeholder/sign_embeddable | 1 data_hashed_placeholder/sign_data_hashed_embeddable | 2 = 1 plus ranges at offsets >= 2^32 (size contract only), 0..11 additional exclusion ranges mapped into the asset outside the placeholder span with offsets/lengths from the classes <24, <256, <65536, rest, manifest definition (title 0..39 chars, 0..3 custom assertions of 0..299 chars), fixture signer ed25519|es256|ps256 with reserve_size +0|+1000|+10000, optional harness DynamicAssertion with reserve 1..2999 bytes incl. CBOR header-width boundaries and/or the SDK CAWG X.509 identity assertion (flow 0), definition.hash_alg sha256|384|512 (flow 0)). The first range is always the real span of the embedded placeholder. Non-trivial = the CBOR encoding of the exclusion list is larger than the ten (0,2) ranges the placeholder reserves.");
    run.assume("the composed placeholder is embedded where the format handler puts a store of the same JUMBF length (save_jumbf_to_memory with a dummy store + object_locations / the C2PA uuid box); cases where the handler's span differs in size from the composed placeholder are counted not_embeddable and not judged");
    run.assume("additional exclusion ranges lie inside the asset, outside the placeholder span, sorted and disjoint (what a caller excluding other mutable regions passes); ranges at offsets >= 2^32 only appear in flow 2, where only the returned length is judged");
    run.assume("the harness DynamicAssertion honours its contract (content is valid CBOR of exactly the reserved size)");
    run.assume("errors from placeholder / set_data_hash_exclusions / update_hash_from_stream are counted, not judged (the property speaks about what signing returns); Err from signing is allowed");
    run.assume("the harness patches exactly the returned bytes at the placeholder offset, so 'bytes outside the placeholder span untouched' is implied by the length equality");

    // ---- fixed small-first enumeration: every format x 1..12 ranges, default everything else -------------------
    let mut cases = vec![];
    let kinds: Vec<&str> = DATA_KINDS.iter().copied().chain(["c2pa"]).chain(BMFF_KINDS.iter().copied().take(run.scale(1, 5))).collect();
    for k in &kinds {
        let ns: Vec<usize> = if DATA_KINDS.contains(k) { run.scale(vec![0, 8, 9, 11], (0..12).collect()) } else { vec![0] };
        for nx in ns {
            for flow in 0..2u8 {
                if flow == 1 && (!DATA_KINDS.contains(k) || nx % 2 == 1) {
                    continue;
                }
                // small offsets/lengths first (class <24 / <256), one variant with offsets >= 65536
                for big in [false, true] {
                    if big && (nx == 0 || run.quick() && *k != "jpeg") {
                        continue;
                    }
                    let extras: Vec<(u64, u64)> = (0..nx as u64)
                        .map(|i| if big { (5 * (66_000 + i * 600) + 3, 4 * 100 + 1) } else { (5 * (40 * i + 30) + 1, 4 * 2 + 0) })
                        .collect();
                    cases.push(Case {
                        kind: k.to_string(),
                        asset_seed: 1,
                        asset_size: if big { 140_000 } else { 0 },
                        flow,
                        extras,
                        huge: 0,
                        def: Def { title_len: 3, assertions: vec![5] },
                        signer: 0,
                        reserve_extra: 0,
                        dynamic: None,
                        hash_alg: 0,
                        cawg: false,
                    });
                }
            }
        }
    }
    run.extra("enumerated_cases", json!(cases.len()));
    run.drive_enum_par("by_format_and_count", cases, threads, |c| judge(&run, &selftest, c));

    // ---- random ---------------------------------------------------------------------------------------------
    run.drive_par("random_flows", run.scale(3_000, 40_000), threads, case_strategy(), |c| judge(&run, &selftest, c));

    // non-vacuity guard: most flows must reach the size comparison
    let ok = run.hist_get("sign_ok");
    let total = run.evals();
    if run.replay.is_none() && ok * 2 < total {
        run.inconclusive(format!("only {ok} of {total} flows reached a signed result (see coverage.classes / notes)"));
    }
    run.set_exhaustive(false);
    run.finish();
}
