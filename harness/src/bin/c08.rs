//! C08 — same-size manifest replacement only changes the reported manifest region.
//!
//! `A1 = write(A, s1)`, `L = object_locations(A1)` (hook over `CAIWriter::get_object_locations_from_stream`),
//! `A2 = write(A1, s2)` with `len(s2) == len(s1)`; the replacement is done by a second `save_jumbf_to_memory`
//! and, where the handler offers `AssetPatch`, by `patch_cai_store` on a file copy.
//!
//! The `Cai` region is interpreted the way the only consumer does (`Store::generate_data_hashes_for_stream`):
//! entries sorted by offset, region = [first Cai offset, last Cai end). Judged:
//!   * at least one Cai entry, the entries are contiguous, the region is non-empty and inside `[0, len(A1))`;
//!   * the region contains the embedded store as located by the independent walker (payload bytes of every
//!     manifest unit; for containers that hold the store contiguously also `s1` as a substring of the region);
//!   * no other reported region overlaps the Cai region (and reported regions are pairwise disjoint);
//!   * `len(A2) == len(A1)` and every differing byte lies inside the region — for both replacement routes;
//!     a successful patch must make the reader return `s2`; a failed patch must leave the file untouched.
//! BMFF reports no object locations by design (BMFF hashes exclude boxes by path): the region is the C2PA uuid
//! box located by the walker and only the diff-locality half is judged.
//! Recorded, not judged: `A2 == write(A, s2)` (history freeness), `A2(patch) == A2(write)`, stability of the
//! reported locations across the replacement, whether the placeholder location reported for a manifest-free
//! asset equals the final location.

use std::sync::atomic::{AtomicU64, Ordering};

use proptest::prelude::*;
use serde::{Deserialize, Serialize};
use serde_json::json;
use vh::{assets, rng::SplitMix64, walk, CaseResult, Fail, Run};

const WORK: &str = "/verif/work/C08";

#[derive(Clone, Debug, Serialize, Deserialize, PartialEq, Eq, Hash)]
enum AssetSrc {
    Default,
    Fresh { seed: u64, size: usize },
    /// first seed in `seed..seed+48` whose synthesised instance carries an XMP packet (detected in the bytes); kinds
    /// without an XMP knob fall back to the plain instance of `seed`
    Xmp { seed: u64, size: usize },
    WithStore { seed: u64, size: usize, slen: usize },
    Fixture { name: String },
}

#[derive(Clone, Debug, Serialize, Deserialize, PartialEq, Eq, Hash)]
struct Case {
    kind: String,
    asset: AssetSrc,
    len: usize,
    seed1: u64,
    /// `seed2 == seed1` gives `s2 == s1`
    seed2: u64,
}

fn is_bmff(kind: &str) -> bool {
    walk::family(kind) == Some("bmff")
}

fn min_a(kind: &str) -> usize {
    if is_bmff(kind) {
        46
    } else {
        38
    }
}

fn store_a(kind: &str, len: usize, seed: u64) -> Vec<u8> {
    assets::fake_store(len.max(min_a(kind)), &mut SplitMix64::new(seed ^ 0xA11CE))
}

struct Built {
    bytes: Vec<u8>,
    store: Option<Vec<u8>>,
    desc: String,
}

fn build_asset(kind: &str, a: &AssetSrc) -> Result<Built, String> {
    Ok(match a {
        AssetSrc::Default => {
            let s = assets::synth_default(kind);
            Built { bytes: s.bytes, store: None, desc: s.desc }
        }
        AssetSrc::Fresh { seed, size } => {
            let s = assets::synth(kind, &mut SplitMix64::new(*seed), *size);
            Built { bytes: s.bytes, store: None, desc: s.desc }
        }
        AssetSrc::Xmp { seed, size } => {
            // XMP is detected in the bytes (xpacket id); kinds without an XMP knob (mp3, flac, avi) fall back to
            // the plain random instance of `seed`
            let mut found = None;
            for k in 0..48u64 {
                let s = assets::synth(kind, &mut SplitMix64::new(seed.wrapping_add(k)), *size);
                if contains_plain(&s.bytes, b"W5M0MpCehiHzreSzNTczkc9d") {
                    found = Some(s);
                    break;
                }
            }
            match found {
                Some(s) => Built { bytes: s.bytes, store: None, desc: format!("{} [xmp]", s.desc) },
                None => {
                    let s = assets::synth(kind, &mut SplitMix64::new(*seed), *size);
                    Built { bytes: s.bytes, store: None, desc: format!("{} [no-xmp-knob]", s.desc) }
                }
            }
        }
        AssetSrc::WithStore { seed, size, slen } => {
            let st = assets::fake_store((*slen).max(min_a(kind)), &mut SplitMix64::new(*seed ^ 0x51));
            let s = assets::synth_with_store(kind, &mut SplitMix64::new(*seed), *size, &st);
            Built { bytes: s.bytes, store: Some(st), desc: s.desc }
        }
        AssetSrc::Fixture { name } => {
            let bytes = std::fs::read(format!("{}/{}", vh::sdk::FIXTURES, name)).map_err(|e| format!("fixture {name}: {e}"))?;
            Built { bytes, store: None, desc: format!("fixture {name}") }
        }
    })
}

fn contains_plain(hay: &[u8], needle: &[u8]) -> bool {
    hay.windows(needle.len()).any(|w| w == needle)
}

fn short(e: &str) -> String {
    e.chars().take(200).collect()
}

fn sdk_write(fmt: &str, asset: &[u8], store: &[u8]) -> Result<Result<Vec<u8>, String>, String> {
    vh::catch(|| c2pa::jumbf_io::save_jumbf_to_memory(fmt, asset, store).map_err(|e| format!("{e:?}")))
}

type Loc = (String, usize, usize);

fn sdk_locations(fmt: &str, asset: &[u8]) -> Result<Result<Vec<Loc>, String>, String> {
    vh::catch(|| c2pa::verif_hooks::object_locations(fmt, asset).map_err(|e| format!("{e:?}")))
}

static SELFTEST: std::sync::OnceLock<String> = std::sync::OnceLock::new();
static FILE_NO: AtomicU64 = AtomicU64::new(0);

/// Positions where `a` and `b` differ: (first, last, count); lengths must be equal.
fn diff_span(a: &[u8], b: &[u8]) -> Option<(usize, usize, usize)> {
    let mut first = None;
    let mut last = 0;
    let mut n = 0;
    for i in 0..a.len().min(b.len()) {
        if a[i] != b[i] {
            if first.is_none() {
                first = Some(i);
            }
            last = i;
            n += 1;
        }
    }
    first.map(|f| (f, last, n))
}

fn contains(hay: &[u8], needle: &[u8]) -> bool {
    if needle.is_empty() || needle.len() > hay.len() {
        return needle.is_empty();
    }
    // the needle starts with the fixed store frame: scan for its first 8 bytes, then compare
    let head = &needle[..needle.len().min(8)];
    let mut i = 0;
    while i + needle.len() <= hay.len() {
        if &hay[i..i + head.len()] == head && &hay[i..i + needle.len()] == needle {
            return true;
        }
        i += 1;
    }
    false
}

fn check_locality(kind: &str, route: &str, a1: &[u8], a2: &[u8], r: (usize, usize), ctx: &str) -> CaseResult {
    if a2.len() != a1.len() {
        return Err(Fail::new(
            format!("C08:{route}-changes-length:{kind}"),
            format!("{ctx}: same-size replacement by {route} changes the asset length {} -> {}", a1.len(), a2.len()),
        ));
    }
    if let Some((f, l, n)) = diff_span(a1, a2) {
        if f < r.0 || l >= r.1 {
            return Err(Fail::new(
                format!("C08:{route}-changes-outside-region:{kind}"),
                format!("{ctx}: same-size replacement by {route} changes {n} bytes in [{f},{l}] but the manifest region is [{},{})", r.0, r.1),
            ));
        }
    }
    Ok(())
}

fn judge(run: &Run, c: &Case) -> CaseResult {
    let kind = c.kind.as_str();
    let (fmt, ext) = assets::kind_format(kind);
    let built = match vh::catch(|| build_asset(kind, &c.asset)) {
        Ok(Ok(b)) => b,
        Ok(Err(e)) => {
            run.count("generator_rejected");
            run.count(&format!("generator_rejected:{kind}:build"));
            run.note(format!("generator_rejected {kind} {:?}: {e}", c.asset));
            return Ok(());
        }
        Err(p) => {
            run.count("generator_rejected");
            run.note(format!("generator_rejected {kind} {:?}: synthesiser panic {p}", c.asset));
            return Ok(());
        }
    };
    let a = built.bytes;
    let s1 = store_a(kind, c.len, c.seed1);
    let s2 = store_a(kind, c.len, c.seed2);
    let ctx = format!("{kind} {:?} ({}) store length {}", c.asset, short(&built.desc), s1.len());

    // ---- A1 ------------------------------------------------------------------------------------------------
    let a1 = match sdk_write(fmt, &a, &s1) {
        Err(p) => {
            if is_bmff(kind) && p.contains("subtract with overflow") {
                // the BMFF offset-adjust underflow on pre-embedded boxes behind media data: C07/C09's finding
                run.count("precondition:bmff-underflow-panic(C07)");
                return Ok(());
            }
            return Err(Fail::new(format!("C08:write-panic:{kind}:{}", vh::core::panic_site(&p)), format!("{ctx}: first write panics: {p}")));
        }
        Ok(Err(e)) => {
            run.count("generator_rejected");
            run.count(&format!("generator_rejected:{kind}:write"));
            run.note(format!("generator_rejected {ctx}: first write: {}", short(&e)));
            return Ok(());
        }
        Ok(Ok(o)) => o,
    };
    // precondition (C07's subject): the store is embedded, once
    let units = match walk::walk(kind, &a1) {
        Ok(u) => u,
        Err(e) => {
            run.count("precondition:walker-rejects-A1(C07)");
            run.note(format!("{ctx}: walker on A1: {e}"));
            return Ok(());
        }
    };
    match walk::extract_store(kind, &a1) {
        Ok(Some(v)) if v == s1 => {}
        other => {
            run.count("precondition:store-not-embedded(C07)");
            run.note(format!("{ctx}: walker on A1 does not return s1: {:?}", other.map(|o| o.map(|v| v.len()))));
            return Ok(());
        }
    }
    let munits: Vec<&walk::Unit> = units.iter().filter(|u| u.is_manifest).collect();
    let asset_class = match &c.asset {
        AssetSrc::Default => "default",
        AssetSrc::Fresh { .. } => "fresh",
        AssetSrc::Xmp { .. } if built.desc.ends_with("[xmp]") => "xmp",
        AssetSrc::Xmp { .. } => "fresh(no-xmp-knob)",
        AssetSrc::WithStore { .. } => "with-store",
        AssetSrc::Fixture { .. } => "fixture",
    };
    run.count(&format!("asset:{asset_class}"));
    run.count(&format!("kind:{kind}"));

    // ---- reported locations ---------------------------------------------------------------------------------
    let locs = match sdk_locations(fmt, &a1) {
        Err(p) => return Err(Fail::new(format!("C08:locations-panic:{kind}:{}", vh::core::panic_site(&p)), format!("{ctx}: object locations of the written asset panic: {p}"))),
        Ok(Err(e)) => return Err(Fail::new(format!("C08:locations-error:{kind}"), format!("{ctx}: the handler cannot report object locations of its own output: {}", short(&e)))),
        Ok(Ok(l)) => l,
    };
    let mut locs = locs;
    if SELFTEST.get().map(|s| s == "region-short").unwrap_or(false) {
        // sensitivity self-test: the handler under-reports the region by one byte at the end
        if let Some(l) = locs.iter_mut().filter(|l| l.0 == "Cai").max_by_key(|l| l.1) {
            l.2 = l.2.saturating_sub(1);
        }
    }
    let region: (usize, usize);
    if is_bmff(kind) {
        if !locs.is_empty() {
            run.count("bmff:locations-nonempty");
            run.note(format!("{ctx}: BMFF handler reported object locations {locs:?} (expected none)"));
        }
        if munits.len() != 1 {
            run.count("precondition:bmff-box-count(C07)");
            return Ok(());
        }
        region = (munits[0].start, munits[0].end());
        run.count("region:from-walker(bmff)");
    } else {
        let mut cai: Vec<(usize, usize)> = locs.iter().filter(|l| l.0 == "Cai").map(|l| (l.1, l.2)).collect();
        cai.sort();
        if cai.is_empty() {
            return Err(Fail::new(format!("C08:no-cai-region:{kind}"), format!("{ctx}: no Cai entry among the reported locations {locs:?}")));
        }
        run.count(if cai.len() == 1 { "cai-entries:1" } else { "cai-entries:>1" });
        for w in cai.windows(2) {
            if w[0].0 + w[0].1 != w[1].0 {
                return Err(Fail::new(format!("C08:cai-not-contiguous:{kind}"), format!("{ctx}: Cai entries {cai:?} are not contiguous")));
            }
        }
        let start = cai[0].0;
        let last = cai[cai.len() - 1];
        let end = last.0.saturating_add(last.1);
        if end <= start {
            return Err(Fail::new(format!("C08:cai-empty:{kind}"), format!("{ctx}: the reported Cai region [{start},{end}) is empty")));
        }
        if end > a1.len() {
            return Err(Fail::new(format!("C08:cai-outside-file:{kind}"), format!("{ctx}: the reported Cai region [{start},{end}) reaches past the {}-byte asset", a1.len())));
        }
        region = (start, end);
        // contains the embedded store
        for u in &munits {
            if u.payload_start < start || u.payload_start + u.payload_len > end {
                return Err(Fail::new(
                    format!("C08:cai-misses-store:{kind}"),
                    format!("{ctx}: the reported Cai region [{start},{end}) does not contain the store payload [{},{}) located by the independent walker", u.payload_start, u.payload_start + u.payload_len),
                ));
            }
        }
        if munits.is_empty() {
            return Err(Fail::new(format!("C08:cai-misses-store:{kind}"), format!("{ctx}: the walker finds no manifest unit although it extracts the store")));
        }
        let fam = walk::family(kind).unwrap_or("");
        if !["jpeg", "gif", "svg"].contains(&fam) && !contains(&a1[start..end], &s1) {
            return Err(Fail::new(format!("C08:cai-misses-store:{kind}"), format!("{ctx}: the bytes of the reported Cai region [{start},{end}) do not contain the store")));
        }
        // disjointness
        let mut all: Vec<(usize, usize, &str)> = locs.iter().filter(|l| l.2 > 0).map(|l| (l.1, l.1.saturating_add(l.2), l.0.as_str())).collect();
        all.sort();
        for l in &all {
            if l.2 != "Cai" && l.0 < end && l.1 > start {
                return Err(Fail::new(
                    format!("C08:cai-overlaps-other:{kind}"),
                    format!("{ctx}: reported {} region [{},{}) overlaps the Cai region [{start},{end})", l.2, l.0, l.1),
                ));
            }
        }
        for w in all.windows(2) {
            if w[1].0 < w[0].1 {
                return Err(Fail::new(
                    format!("C08:regions-overlap:{kind}"),
                    format!("{ctx}: reported regions {} [{},{}) and {} [{},{}) overlap", w[0].2, w[0].0, w[0].1, w[1].2, w[1].0, w[1].1),
                ));
            }
        }
        if all.iter().any(|l| l.1 > a1.len()) {
            run.count("stat:other-region-past-eof");
        }
        let covered: usize = all.iter().map(|l| l.1.min(a1.len()).saturating_sub(l.0)).sum();
        run.count(if covered == a1.len() { "stat:regions-cover-file" } else { "stat:regions-leave-gaps" });
    }
    let after = a1.len() - region.1;
    run.count(if after > 0 { "layout:bytes-after-region" } else { "layout:region-at-eof" });

    // ---- replacement by a second write -----------------------------------------------------------------------
    let a2 = match sdk_write(fmt, &a1, &s2) {
        Err(p) => return Err(Fail::new(format!("C08:rewrite-panic:{kind}:{}", vh::core::panic_site(&p)), format!("{ctx}: second write panics: {p}"))),
        Ok(Err(e)) => return Err(Fail::new(format!("C08:rewrite-fails:{kind}"), format!("{ctx}: the handler rejects its own output on the second write: {}", short(&e)))),
        Ok(Ok(o)) => o,
    };
    check_locality(kind, "rewrite", &a1, &a2, region, &ctx)?;
    match vh::catch(|| c2pa::jumbf_io::load_jumbf_from_memory(fmt, &a2)) {
        Ok(Ok(v)) if v == s2 => {}
        other => {
            // C07's subject, but a "local" rewrite that loses the store must not pass silently here
            return Err(Fail::new(format!("C08:rewrite-does-not-store:{kind}"), format!("{ctx}: after the same-size rewrite the reader does not return s2: {}", short(&format!("{:?}", other.map(|r| r.map(|v| v.len())))))));
        }
    }
    run.count("route:rewrite-verified");
    if let Ok(Ok(l2)) = sdk_locations(fmt, &a2) {
        run.count(if l2 == locs || SELFTEST.get().map(|s| !s.is_empty()).unwrap_or(false) { "stat:locations-stable" } else { "stat:locations-changed" });
    }
    // history freeness (recorded)
    if let Ok(Ok(direct)) = sdk_write(fmt, &a, &s2) {
        run.count(if direct == a2 { "stat:history-free" } else { "stat:history-dependent" });
    }
    // placeholder location reported for the manifest-free start asset (recorded)
    if built.store.is_none() && !is_bmff(kind) {
        if let Ok(Ok(l0)) = sdk_locations(fmt, &a) {
            let p0 = l0.iter().filter(|l| l.0 == "Cai").map(|l| l.1).min();
            run.count(if p0 == Some(region.0) { "stat:placeholder-offset-equals-final" } else { "stat:placeholder-offset-differs" });
        } else {
            run.count("stat:placeholder-locations-error");
        }
    }

    // ---- replacement by AssetPatch ---------------------------------------------------------------------------
    let n = FILE_NO.fetch_add(1, Ordering::SeqCst);
    let path = std::path::PathBuf::from(format!("{WORK}/p{n}.{ext}"));
    if let Err(e) = std::fs::write(&path, &a1) {
        run.inconclusive(format!("cannot write {path:?}: {e}"));
        return Ok(());
    }
    let pr = vh::catch(|| c2pa::verif_hooks::patch_cai_store(fmt, &path, &s2).map(|r| r.map_err(|e| format!("{e:?}"))));
    let after_patch = std::fs::read(&path);
    let _ = std::fs::remove_file(&path);
    match pr {
        Err(p) => return Err(Fail::new(format!("C08:patch-panic:{kind}:{}", vh::core::panic_site(&p)), format!("{ctx}: patch_cai_store panics: {p}"))),
        Ok(None) => run.count(&format!("route:no-patch-support:{kind}")),
        Ok(Some(res)) => {
            let ap = match after_patch {
                Ok(b) => b,
                Err(e) => {
                    run.inconclusive(format!("cannot read back {path:?}: {e}"));
                    return Ok(());
                }
            };
            match res {
                Err(e) => {
                    run.count(&format!("route:patch-refused:{kind}"));
                    if run.hist_get(&format!("route:patch-refused:{kind}")) == 1 {
                        run.note(format!("patch_cai_store refused a same-size store for {kind} (file untouched, not judged): {}", short(&e)));
                    }
                    if ap != a1 {
                        return Err(Fail::new(format!("C08:patch-failed-but-modified:{kind}"), format!("{ctx}: patch_cai_store returned {} yet the file changed", short(&e))));
                    }
                }
                Ok(()) => {
                    check_locality(kind, "patch", &a1, &ap, region, &ctx)?;
                    match vh::catch(|| c2pa::jumbf_io::load_jumbf_from_memory(fmt, &ap)) {
                        Ok(Ok(v)) if v == s2 => {}
                        other => {
                            return Err(Fail::new(
                                format!("C08:patch-does-not-store:{kind}"),
                                format!("{ctx}: patch_cai_store returned Ok but the reader does not return s2: {}", short(&format!("{:?}", other.map(|r| r.map(|v| v.len()))))),
                            ))
                        }
                    }
                    run.count("route:patch-verified");
                    run.count(if ap == a2 { "stat:patch-equals-rewrite" } else { "stat:patch-differs-from-rewrite" });
                }
            }
        }
    }
    if s1 != s2 && after > 0 {
        run.nontrivial(c);
    } else if s1 == s2 {
        run.count("pair:identical");
    }
    Ok(())
}

fn fixtures_of(kind: &str, quick: bool) -> Vec<String> {
    let mut v = vec![];
    for (k, _, f) in vh::sdk::writable_fixtures() {
        if k == kind && !f.is_empty() {
            let sz = std::fs::metadata(format!("{}/{}", vh::sdk::FIXTURES, f)).map(|m| m.len()).unwrap_or(0);
            if sz > 0 && (!quick || sz <= 1_100_000) {
                v.push(f.to_string());
            }
        }
    }
    v
}

fn strategy(kind: String, fixtures: Vec<String>) -> impl Strategy<Value = Case> {
    let lens: Vec<usize> = {
        let mut v = vec![38, 39, 40, 41, 46, 47, 75, 85, 86, 100, 101, 254, 255, 256, 257, 510, 511, 1000, 1001, 1002, 4095, 4096, 4097, 16_331, 16_341, 16_384, 63_999, 64_000, 64_001, 65_535, 65_536, 128_001, 200_000];
        v.retain(|l| *l >= min_a(&kind));
        v
    };
    let nl = lens.len();
    ((0u8..16, 0u64..100_000, 0u8..8, 0usize..3000), (0u8..20, 0usize..nl, 0usize..1963, 0usize..68_000, 0usize..130_001), 0u64..4096, 0u64..4096, 0u8..16).prop_map(
        move |((asel, aseed, asize, aslen), (lsel, li, small, medium, large), seed1, seed2, same)| {
            let size = match asize {
                0..=3 => 0,
                4 => 40,
                5 => 1,
                6 => 20_000,
                _ => 60_000,
            };
            let asset = match asel {
                0 | 1 => AssetSrc::Default,
                2..=4 => AssetSrc::Fresh { seed: aseed, size },
                5..=8 => AssetSrc::Xmp { seed: aseed, size },
                9..=13 => AssetSrc::WithStore { seed: aseed, size, slen: 38 + aslen },
                _ => {
                    if fixtures.is_empty() {
                        AssetSrc::Fresh { seed: aseed, size }
                    } else {
                        AssetSrc::Fixture { name: fixtures[aseed as usize % fixtures.len()].clone() }
                    }
                }
            };
            let len = match lsel {
                0..=7 => lens[li],
                8..=15 => 38 + small,
                16..=18 => 2000 + medium,
                _ => 70_000 + large,
            };
            let seed2 = if same == 0 {
                seed1
            } else if seed2 == seed1 {
                seed1 + 1
            } else {
                seed2
            };
            Case { kind: kind.clone(), asset, len, seed1, seed2 }
        },
    )
}

fn main() {
    vh::quiet_panics();
    let run = Run::from_args("C08", "exploration");
    run.set_rule("case = (container kind: the 16 synthesiser kinds; start asset: simplest synthesised / random synthesised / random synthesised instance that carries XMP / synthesised with a pre-embedded store of another length at a generated position / repository fixture; pair (s1,s2) of class A stores (JUMBF superbox with C2PA description box) of equal length: 40% from a stratified list (38..200000 incl. JPEG 64000-byte split +-1, ID3 7-bit size steps, GIF 255-byte sub-blocks, 2^16), 40% 38..2000, 15% 2000..70000, 5% up to 200000; 1 pair in 16 has s1 == s2). A1 = write(A,s1); regions = object_locations(A1); replacement both by write(A1,s2) and by AssetPatch::patch_cai_store on a file copy under /verif/work/C08. Non-trivial = s1 != s2 and at least one byte of A1 lies behind the manifest region.");
    run.assume("the Cai region is what Store::generate_data_hashes_for_stream makes of the reported entries: sorted by offset, [first Cai offset, last Cai end)");
    run.assume("'contains the embedded store' = the region covers the payload bytes of every manifest unit located by the independent walker (vh::walk); framing that the handler leaves outside (RIFF pad byte, SVG element tags, TIFF IFD entry, ID3 frame header) is not demanded");
    run.assume("BMFF handlers report no object locations by design; there the region is the C2PA uuid box located by the walker and only diff locality is judged");
    run.assume("failures of the first write (C07's subject, incl. the known BMFF offset-underflow panic on pre-embedded boxes behind media data) are counted as unmet preconditions, not judged here");
    run.assume("a patch_cai_store that returns an error is not a violation as long as the file is untouched (callers fall back to a full write); the sidecar kind has no media bytes and is not part of this check");

    let _ = std::fs::remove_dir_all(WORK);
    if let Err(e) = std::fs::create_dir_all(WORK) {
        run.inconclusive(format!("cannot create {WORK}: {e}"));
        run.finish();
    }
    let _ = SELFTEST.set(std::env::var("VERIF_SELFTEST").unwrap_or_default());
    if !SELFTEST.get().map(|s| s.is_empty()).unwrap_or(true) {
        run.note(format!("SELF-TEST MODE {:?}: the SDK's answers are deliberately corrupted, failures are expected", SELFTEST.get()));
    }

    let kinds: Vec<String> = assets::KINDS.iter().map(|k| k.to_string()).collect();
    let n: u32 = run.scale(1500, 6000);
    std::thread::scope(|sc| {
        for k in &kinds {
            let run = &run;
            let strat = strategy(k.clone(), fixtures_of(k, run.quick()));
            let name = format!("pairs-{k}");
            sc.spawn(move || {
                run.drive(&name, n, strat, |c| judge(run, c));
            });
        }
    });

    // every small length on the simplest asset and on one XMP-carrying instance (padding / alignment / encoding
    // group effects: RIFF and TIFF word alignment, base64 groups of 3, GIF sub-blocks, ID3 7-bit sizes)
    for k in &kinds {
        let top = run.scale(300usize, 3000usize);
        let mut cases = vec![];
        for len in min_a(k)..=top {
            cases.push(Case { kind: k.clone(), asset: AssetSrc::Default, len, seed1: len as u64, seed2: len as u64 + 7 });
            if len % 3 == 0 {
                cases.push(Case { kind: k.clone(), asset: AssetSrc::Xmp { seed: 11, size: 0 }, len, seed1: len as u64, seed2: len as u64 + 7 });
            }
        }
        for b in [16_331usize, 16_341, 64_000, 65_025, 65_536, 128_000] {
            for len in b - 2..=b + 2 {
                cases.push(Case { kind: k.clone(), asset: AssetSrc::Default, len, seed1: len as u64, seed2: len as u64 + 7 });
            }
        }
        run.drive_enum_par(&format!("lengths-{k}"), cases, 16, |c| judge(&run, c));
    }
    run.set_exhaustive(false);

    let rejected = run.hist_get("generator_rejected");
    let evals = run.evals().max(1);
    run.extra("generator_rejected_share", json!(rejected as f64 / evals as f64));
    if rejected * 20 > evals {
        run.inconclusive(format!("{rejected} of {evals} cases were rejected by the handlers on the start asset (> 5 %)"));
    }
    let _ = std::fs::remove_dir_all(WORK);
    run.finish();
}
