//! C24 — contexts are isolated and safe to share across threads.
//!
//! Case = a program: 1..4 contexts (settings variants; shared as `Arc<Context>` by all threads, or one private
//! instance per thread built from the same settings) and 1..16 threads, each with a list of operations
//! (sign / sign through the context's lazily created signer / read / add ingredient + sign / builder-style
//! `Settings` calls / deprecated thread-local setters on thread 0 only / `cancel()` on context 0 only), a start
//! barrier flag and a number of yields before every operation (all from the case).
//!
//! Oracle:
//!  (1) every operation's normalised result equals the result of the same operation run alone, sequentially, on a
//!      fresh context with the same settings (signing: read-back of the output under cross-run normalisation);
//!  (2) an operation on a context other than the cancelled one never ends with `OperationCancelled`; operations on
//!      the cancelled context are judged only when a logical clock proves that they completed before the first
//!      `cancel()` started (otherwise: baseline result or `OperationCancelled`, anything else is counted only —
//!      that is C23's subject);
//!  (3) on every thread the thread-local settings snapshot (`Settings::to_toml()`) taken after every operation
//!      equals the snapshot a sequential run of that thread's own deprecated setter calls produces (i.e. the
//!      pristine default on every thread except thread 0).
//! Schedules are not controlled: this is randomised stress, not an enumeration of interleavings.

use std::{
    collections::HashMap,
    io::Cursor,
    sync::{
        atomic::{AtomicU64, Ordering},
        Arc, Barrier, Mutex, OnceLock,
    },
};

use c2pa::{Builder, BuilderIntent, Context, DigitalSourceType, Reader, Settings};
use proptest::prelude::*;
use serde::{Deserialize, Serialize};
use serde_json::{json, Value};
use vh::{sdk, CaseResult, Fail, Run};

// ------------------------------------------------------------------------------------------------
// case
// ------------------------------------------------------------------------------------------------

#[derive(Clone, Debug, Serialize, Deserialize, PartialEq, Eq, Hash)]
enum Op {
    Sign { ctx: u8, src: u8, alg: u8, via_ctx_signer: bool },
    Read { ctx: u8, asset: u8 },
    Ingredient { ctx: u8, asset: u8 },
    SettingsJson { which: u8 },
    SettingsValue { which: u8 },
    /// executed as a deprecated thread-local setter on thread 0, as `SettingsJson` elsewhere
    TlSet { which: u8 },
    /// `cancel()` on context 0
    Cancel,
}

#[derive(Clone, Debug, Serialize, Deserialize, PartialEq, Eq, Hash)]
struct Step {
    yields: u8,
    op: Op,
}

#[derive(Clone, Debug, Serialize, Deserialize, PartialEq, Eq, Hash)]
struct ThreadProg {
    barrier: bool,
    steps: Vec<Step>,
}

#[derive(Clone, Debug, Serialize, Deserialize, PartialEq, Eq, Hash)]
struct Program {
    /// settings variant of each context (1..=4 contexts)
    contexts: Vec<u8>,
    shared: bool,
    /// false: `Cancel` steps are executed as a builder-style settings call instead (about 60 % of the programs,
    /// so that most programs are judged on every operation)
    #[serde(default)]
    cancel: bool,
    threads: Vec<ThreadProg>,
}

const N_SETTINGS: u8 = 4;
const N_SRC: u8 = 5;
const N_ASSETS: u8 = 8;
/// asset index that stands for "BMFF Merkle tree over two mdat boxes" (known nondeterminism, excluded)
const MULTI_MDAT_ASSET: u8 = 7;

fn ctx_settings(variant: u8) -> Value {
    let cred = |alg: &str| {
        let (c, k) = sdk::credential(alg);
        json!({"local": {"alg": alg, "sign_cert": String::from_utf8_lossy(&c), "private_key": String::from_utf8_lossy(&k)}})
    };
    match variant % N_SETTINGS {
        0 => {
            let mut st = sdk::base_settings(true);
            st["signer"] = cred("es256");
            sdk::merge(&mut st, &json!({"builder": {"claim_generator_info": {"name": "ctx-variant-0", "version": "1"}}}));
            st
        }
        1 => {
            let mut st = sdk::base_settings(false);
            st["signer"] = cred("ed25519");
            sdk::merge(&mut st, &json!({"builder": {"claim_generator_info": {"name": "ctx-variant-1"}}}));
            st
        }
        2 => {
            // no signer settings: signing through the context must fail with MissingSignerSettings
            let mut st = sdk::base_settings(true);
            sdk::merge(&mut st, &json!({"core": {"prefer_compress_manifests": true}, "builder": {"claim_generator_info": {"name": "ctx-variant-2"}}}));
            st
        }
        _ => {
            let mut st = sdk::base_settings(true);
            st["signer"] = cred("ps256");
            sdk::merge(&mut st, &json!({"verify": {"verify_trust": false}, "core": {"merkle_tree_chunk_size_in_kb": 1}, "builder": {"claim_generator_info": {"name": "ctx-variant-3"}}}));
            st
        }
    }
}

fn settings_json(which: u8) -> String {
    match which % 5 {
        0 => json!({"verify": {"verify_trust": false, "verify_after_sign": false}}).to_string(),
        1 => json!({"core": {"merkle_tree_chunk_size_in_kb": 4, "prefer_compress_manifests": true}}).to_string(),
        2 => json!({"builder": {"vendor": "built", "claim_generator_info": {"name": "built-generator"}}}).to_string(),
        3 => json!({"trust": {"trust_anchors": sdk::test_anchors()}}).to_string(),
        _ => "{\"verify\": {\"verify_trust\": \"not a bool\"}}".to_string(), // rejected
    }
}

fn settings_value(which: u8) -> (&'static str, Value) {
    match which % 5 {
        0 => ("verify.verify_after_sign", json!(false)),
        1 => ("core.merkle_tree_chunk_size_in_kb", json!(7)),
        2 => ("builder.thumbnail.enabled", json!(false)),
        3 => ("builder.vendor", json!("valuevendor")),
        _ => ("core.max_decompressed_manifest_size_in_mb", json!(99_999_999u64)), // rejected
    }
}

#[allow(deprecated)]
fn tl_set(which: u8) -> c2pa::Result<()> {
    match which % 4 {
        0 => Settings::from_toml("[verify]\nverify_trust = false\nverify_after_sign = false\n"),
        1 => Settings::from_string(&json!({"core": {"merkle_tree_chunk_size_in_kb": 1, "prefer_compress_manifests": true}}).to_string(), "json").map(|_| ()),
        2 => Settings::from_toml("[builder]\nvendor = \"tlvendor\"\n[builder.claim_generator_info]\nname = \"tl-generator\"\n"),
        _ => Settings::from_string("[verify]\nstrict_v1_validation = true\nremote_manifest_fetch = false\n", "toml").map(|_| ()),
    }
}

#[allow(deprecated)]
fn tl_snapshot() -> String {
    Settings::to_toml().unwrap_or_else(|e| format!("to_toml failed: {e}"))
}

// ------------------------------------------------------------------------------------------------
// inputs (made once per process)
// ------------------------------------------------------------------------------------------------

struct Inputs {
    /// sources for signing: (mime, bytes)
    src: Vec<(String, Vec<u8>)>,
    /// assets to read / to use as ingredients: (mime, bytes, description)
    assets: Vec<(String, Vec<u8>, &'static str)>,
}

static INPUTS: OnceLock<Inputs> = OnceLock::new();

fn one_mdat_mp4(seed: u64) -> Vec<u8> {
    for k in 0..200u64 {
        let mut rng = vh::rng::SplitMix64::new(seed + k * 7919);
        let s = vh::assets::synth("mp4", &mut rng, 1200);
        // exactly one top-level mdat box, no size-0 header
        let mut p = 0usize;
        let (mut n, mut bad) = (0, false);
        let b = &s.bytes;
        while p + 8 <= b.len() {
            let sz = u32::from_be_bytes([b[p], b[p + 1], b[p + 2], b[p + 3]]) as usize;
            let size = if sz == 1 { u64::from_be_bytes(b[p + 8..p + 16].try_into().unwrap()) as usize } else if sz == 0 { b.len() - p } else { sz };
            if &b[p + 4..p + 8] == b"mdat" {
                n += 1;
                bad |= sz == 0;
            }
            if size < 8 {
                break;
            }
            p += size;
        }
        if n == 1 && !bad {
            return s.bytes;
        }
    }
    vh::assets::synth_default("mp4").bytes
}

fn inputs() -> &'static Inputs {
    INPUTS.get_or_init(|| {
        let synth = |kind: &str, seed: u64| {
            let mut rng = vh::rng::SplitMix64::new(seed);
            let s = vh::assets::synth(kind, &mut rng, 1200);
            (s.format.to_string(), s.bytes)
        };
        let src = vec![synth("jpeg", 0xC24_01), synth("png", 0xC24_02), ("video/mp4".to_string(), one_mdat_mp4(0xC24_03)), synth("wav", 0xC24_04), synth("gif", 0xC24_05)];
        let sign = |i: usize, settings: &Value, alg: &str| {
            sdk::sign_with(
                sdk::context_with(settings),
                &sdk::simple_definition("c24 input"),
                Some(BuilderIntent::Create(DigitalSourceType::Empty)),
                sdk::signer(alg).as_ref(),
                &src[i].0,
                &src[i].1,
            )
            .expect("input asset must sign")
        };
        let base = sdk::base_settings(true);
        let mut merkle = base.clone();
        sdk::merge(&mut merkle, &json!({"core": {"merkle_tree_chunk_size_in_kb": 1}}));
        let mut boxh = base.clone();
        sdk::merge(&mut boxh, &json!({"core": {"prefer_compress_manifests": true}}));
        let signed_jpeg = sign(0, &base, "es384");
        let mut tampered = signed_jpeg.clone();
        let p = tampered.len() - 40;
        tampered[p] ^= 0x5a;
        let mut rng = vh::rng::SplitMix64::new(0xC24_99);
        let assets = vec![
            ("image/jpeg".to_string(), sdk::fixture("C.jpg"), "fixture C.jpg"),
            ("image/jpeg".to_string(), sdk::fixture("CA.jpg"), "fixture CA.jpg"),
            (src[1].0.clone(), sign(1, &base, "ed25519"), "signed png"),
            ("video/mp4".to_string(), sign(2, &merkle, "ps384"), "signed mp4 Merkle (one mdat)"),
            ("image/jpeg".to_string(), tampered, "tampered signed jpeg"),
            (src[4].0.clone(), sign(4, &boxh, "es512"), "signed gif box hash"),
            ("image/png".to_string(), rng.bytes(900), "garbage"),
        ];
        Inputs { src, assets }
    })
}

// ------------------------------------------------------------------------------------------------
// normalised results
// ------------------------------------------------------------------------------------------------

#[derive(Clone, Debug, PartialEq, Serialize, Deserialize)]
enum Outcome {
    Ok(Value),
    Err(String),
    Panic(String),
}

impl Outcome {
    fn short(&self) -> String {
        match self {
            Outcome::Ok(v) => format!("Ok(state {})", v["verdict"]["state"].as_str().unwrap_or("-")),
            Outcome::Err(e) => format!("Err({e})"),
            Outcome::Panic(p) => format!("panic({p})"),
        }
    }
    fn cancelled(&self) -> bool {
        matches!(self, Outcome::Err(e) if e == "OperationCancelled")
    }
}

fn err_kind(e: &c2pa::Error) -> String {
    let d = format!("{e:?}");
    d.split(|c: char| c == '(' || c == ' ' || c == '{').next().unwrap_or("").to_string()
}

fn urn_order(txt: &str) -> Vec<(usize, String)> {
    // Only the active manifest's URN is new in every signing run; ingredient manifests keep the labels they have in
    // their own assets (identical on both sides of every comparison made here). Renaming by order of first
    // appearance in the JSON text would depend on the iteration order of the reader's manifest HashMap.
    let v: Value = serde_json::from_str(txt).unwrap_or(Value::Null);
    match v["active_manifest"].as_str() {
        Some(l) => {
            let u = match l.find("urn:") {
                Some(i) => &l[i..],
                None => l,
            };
            vec![(0, u.to_string())]
        }
        None => vec![],
    }
}

fn rename_urns(s: &str, order: &[(usize, String)]) -> String {
    let mut out = s.to_string();
    for (i, u) in order {
        if out.contains(u.as_str()) {
            out = out.replace(u.as_str(), &format!("M{i}"));
        }
    }
    out
}

fn rename_walk(v: &mut Value, order: &[(usize, String)]) {
    match v {
        Value::String(s) => *s = rename_urns(s, order),
        Value::Array(a) => a.iter_mut().for_each(|x| rename_walk(x, order)),
        Value::Object(m) => {
            let keys: Vec<String> = m.keys().cloned().collect();
            for k in keys {
                let mut val = m.remove(&k).unwrap();
                rename_walk(&mut val, order);
                m.insert(rename_urns(&k, order), val);
            }
        }
        _ => {}
    }
}

/// Cross-run normal form (private copy of `sdk::report_cross_run`, which panics on non-ASCII text) + verdict.
fn cross_of(r: &Reader) -> Value {
    let txt = r.json();
    let order = urn_order(&txt);
    let mut v: Value = serde_json::from_str(&txt).unwrap_or(Value::Null);
    rename_walk(&mut v, &order);
    sdk::blank_keys(
        &mut v,
        &["instance_id", "instanceID", "instanceId", "time", "when", "validation_time", "hash", "pad", "pad1", "pad2", "signature", "serial_number", "validationTime", "salt"],
    );
    let mut verdict = sdk::verdict(r);
    for c in verdict.codes.iter_mut() {
        *c = rename_urns(c, &order);
    }
    verdict.codes.sort();
    json!({"report": v, "verdict": verdict})
}

fn same_of(r: &Reader) -> Value {
    json!({"report": sdk::report_same_bytes(r), "verdict": sdk::verdict(r)})
}

fn wrap<T>(r: Result<c2pa::Result<T>, String>, f: impl FnOnce(T) -> Outcome) -> Outcome {
    match r {
        Err(p) => Outcome::Panic(vh::core::panic_site(&p)),
        Ok(Err(e)) => Outcome::Err(err_kind(&e)),
        Ok(Ok(t)) => f(t),
    }
}

/// Read-back of a signed output with a private standard context (not part of the program).
fn readback(fmt: &str, bytes: &[u8]) -> Outcome {
    wrap(vh::catch(|| sdk::read_with(sdk::context(), fmt, bytes)), |r| Outcome::Ok(cross_of(&r)))
}

fn definition(tag: &str) -> Value {
    // no claim_generator_info: the context's setting shows up in the report
    json!({"title": format!("c24 {tag}"), "assertions": [{"label": "org.verif.note", "data": {"note": tag, "n": 1}}]})
}

/// Execute one context operation on `ctx`.
fn exec(ctx: &Arc<Context>, op: &Op) -> Outcome {
    let inp = inputs();
    match op {
        Op::Sign { src, alg, via_ctx_signer, .. } => {
            let (fmt, bytes) = &inp.src[*src as usize % inp.src.len()];
            let signer = sdk::signer(sdk::ALGS[*alg as usize % sdk::ALGS.len()]);
            let r = vh::catch(|| {
                let mut b = Builder::from_shared_context(ctx).with_definition(definition("sign").to_string())?;
                b.set_intent(BuilderIntent::Create(DigitalSourceType::Empty));
                let mut out = Cursor::new(Vec::new());
                if *via_ctx_signer {
                    b.save_to_stream(fmt, &mut Cursor::new(bytes.clone()), &mut out)?;
                } else {
                    b.sign(signer.as_ref(), fmt, &mut Cursor::new(bytes.clone()), &mut out)?;
                }
                Ok(out.into_inner())
            });
            wrap(r, |b| readback(fmt, &b))
        }
        Op::Read { asset, .. } => {
            let (fmt, bytes, _) = &inp.assets[asset_index(*asset)];
            wrap(vh::catch(|| Reader::from_shared_context(ctx).with_stream(fmt, Cursor::new(bytes.clone()))), |r| Outcome::Ok(same_of(&r)))
        }
        Op::Ingredient { asset, .. } => {
            let (ifmt, ibytes, _) = &inp.assets[asset_index(*asset)];
            let (fmt, bytes) = &inp.src[0];
            let signer = sdk::signer("es256");
            let r = vh::catch(|| {
                let mut b = Builder::from_shared_context(ctx).with_definition(definition("ingredient").to_string())?;
                b.set_intent(BuilderIntent::Create(DigitalSourceType::Empty));
                b.add_ingredient_from_stream(json!({"title": "ing", "relationship": "componentOf"}).to_string(), ifmt, &mut Cursor::new(ibytes.clone()))?;
                let mut out = Cursor::new(Vec::new());
                b.sign(signer.as_ref(), fmt, &mut Cursor::new(bytes.clone()), &mut out)?;
                Ok(out.into_inner())
            });
            wrap(r, |b| readback(fmt, &b))
        }
        _ => Outcome::Err("not a context operation".into()),
    }
}

fn asset_index(a: u8) -> usize {
    let a = a % N_ASSETS;
    if a == MULTI_MDAT_ASSET {
        3 // the one-mdat Merkle asset stands in for the excluded two-mdat Merkle asset
    } else {
        a as usize
    }
}

fn exec_settings(op: &Op) -> Outcome {
    match op {
        Op::SettingsJson { which } | Op::TlSet { which } => {
            let j = settings_json(*which);
            wrap(vh::catch(|| Settings::new().with_json(&j)), |s| Outcome::Ok(serde_json::to_value(&s).unwrap_or(Value::Null)))
        }
        Op::SettingsValue { which } => {
            let (path, v) = settings_value(*which);
            wrap(vh::catch(|| Settings::new().with_value(path, v)), |s| Outcome::Ok(serde_json::to_value(&s).unwrap_or(Value::Null)))
        }
        _ => Outcome::Err("not a settings operation".into()),
    }
}

fn op_key(op: &Op, variant: u8) -> String {
    match op {
        Op::Sign { src, alg, via_ctx_signer, .. } => format!("sign:{variant}:{}:{}:{via_ctx_signer}", src % N_SRC, alg % 7),
        Op::Read { asset, .. } => format!("read:{variant}:{}", asset_index(*asset)),
        Op::Ingredient { asset, .. } => format!("ing:{variant}:{}", asset_index(*asset)),
        Op::SettingsJson { which } | Op::TlSet { which } => format!("sjson:{}", which % 5),
        Op::SettingsValue { which } => format!("sval:{}", which % 5),
        Op::Cancel => "cancel".into(),
    }
}

static BASELINES: Mutex<Option<HashMap<String, Outcome>>> = Mutex::new(None);

/// The operation alone, sequentially, on a fresh context with the same settings (cached per distinct operation).
fn baseline(op: &Op, variant: u8, fresh: bool) -> Outcome {
    let key = op_key(op, variant);
    if !fresh {
        if let Some(o) = BASELINES.lock().unwrap().get_or_insert_with(HashMap::new).get(&key) {
            return o.clone();
        }
    }
    let o = match op {
        Op::Sign { .. } | Op::Read { .. } | Op::Ingredient { .. } => {
            let ctx = Arc::new(sdk::context_with(&ctx_settings(variant)));
            exec(&ctx, op)
        }
        Op::Cancel => Outcome::Ok(Value::Null),
        _ => exec_settings(op),
    };
    BASELINES.lock().unwrap().get_or_insert_with(HashMap::new).insert(key, o.clone());
    o
}

fn ctx_of(op: &Op) -> Option<u8> {
    match op {
        Op::Sign { ctx, .. } | Op::Read { ctx, .. } | Op::Ingredient { ctx, .. } => Some(*ctx),
        Op::Cancel => Some(0),
        _ => None,
    }
}

// ------------------------------------------------------------------------------------------------
// running a program
// ------------------------------------------------------------------------------------------------

struct Rec {
    thread: usize,
    step: usize,
    start: u64,
    end: u64,
    outcome: Outcome,
    tl_after: String,
}

fn op_name(op: &Op) -> &'static str {
    match op {
        Op::Sign { via_ctx_signer: true, .. } => "sign-via-context-signer",
        Op::Sign { .. } => "sign",
        Op::Read { .. } => "read",
        Op::Ingredient { .. } => "ingredient",
        Op::SettingsJson { .. } => "settings-with_json",
        Op::SettingsValue { .. } => "settings-with_value",
        Op::TlSet { .. } => "thread-local-setter",
        Op::Cancel => "cancel",
    }
}

fn judge(run: &Run, prog_in: &Program, selftest: &str) -> CaseResult {
    let mut prog_owned = prog_in.clone();
    if !prog_owned.cancel {
        for t in prog_owned.threads.iter_mut() {
            for s in t.steps.iter_mut() {
                if s.op == Op::Cancel {
                    s.op = Op::SettingsValue { which: 0 };
                }
            }
        }
    }
    let prog = &prog_owned;
    let nctx = prog.contexts.len().max(1);
    let variants: Vec<u8> = (0..nctx).map(|i| prog.contexts.get(i).copied().unwrap_or(0) % N_SETTINGS).collect();
    let nthreads = prog.threads.len();
    run.count(&format!("threads:{}", match nthreads { 1 => "1", 2..=4 => "2-4", 5..=8 => "5-8", _ => "9-16" }));
    run.count(if prog.shared { "contexts:shared" } else { "contexts:distinct" });

    // ---- sequential baselines (before anything runs concurrently)
    for t in &prog.threads {
        for s in &t.steps {
            if let Op::Read { asset, .. } | Op::Ingredient { asset, .. } = &s.op {
                if asset % N_ASSETS == MULTI_MDAT_ASSET {
                    run.count("excluded:multi-mdat-merkle-asset-replaced");
                    run.excluded_known(1);
                }
            }
            let v = ctx_of(&s.op).map(|c| variants[c as usize % nctx]).unwrap_or(0);
            baseline(&s.op, v, false);
        }
    }
    // thread-local expectation of thread 0: its setter calls alone, on a fresh thread
    let t0_ops: Vec<Op> = prog.threads.first().map(|t| t.steps.iter().map(|s| s.op.clone()).collect()).unwrap_or_default();
    let (pristine, t0_expected): (String, Vec<String>) = std::thread::scope(|s| {
        s.spawn(|| {
            let p = tl_snapshot();
            let mut v = vec![];
            for op in &t0_ops {
                if let Op::TlSet { which } = op {
                    let _ = vh::catch(|| tl_set(*which));
                }
                v.push(tl_snapshot());
            }
            (p, v)
        })
        .join()
        .unwrap_or_default()
    });

    // ---- concurrent run
    let shared_ctx: Vec<Arc<Context>> = variants.iter().map(|v| Arc::new(sdk::context_with(&ctx_settings(*v)))).collect();
    let clock = AtomicU64::new(1);
    let n_barrier = prog.threads.iter().filter(|t| t.barrier).count();
    let barrier = Barrier::new(n_barrier.max(1));
    let recs: Mutex<Vec<Rec>> = Mutex::new(vec![]);
    let tl_start: Mutex<Vec<(usize, String)>> = Mutex::new(vec![]);
    std::thread::scope(|s| {
        for (ti, tp) in prog.threads.iter().enumerate() {
            let (shared_ctx, clock, barrier, recs, tl_start, variants) = (&shared_ctx, &clock, &barrier, &recs, &tl_start, &variants);
            s.spawn(move || {
                let own: Vec<Arc<Context>> = if prog.shared { vec![] } else { variants.iter().map(|v| Arc::new(sdk::context_with(&ctx_settings(*v)))).collect() };
                let ctxs: &Vec<Arc<Context>> = if prog.shared { shared_ctx } else { &own };
                tl_start.lock().unwrap().push((ti, tl_snapshot()));
                if tp.barrier {
                    barrier.wait();
                }
                for (si, st) in tp.steps.iter().enumerate() {
                    for _ in 0..st.yields {
                        std::thread::yield_now();
                    }
                    let start = clock.fetch_add(1, Ordering::SeqCst);
                    let outcome = match &st.op {
                        Op::Cancel => {
                            ctxs[0].cancel();
                            Outcome::Ok(Value::Null)
                        }
                        Op::TlSet { which } if ti == 0 => {
                            let r = vh::catch(|| tl_set(*which));
                            match r {
                                Err(p) => Outcome::Panic(vh::core::panic_site(&p)),
                                _ => exec_settings(&st.op),
                            }
                        }
                        Op::SettingsJson { .. } | Op::SettingsValue { .. } | Op::TlSet { .. } => exec_settings(&st.op),
                        op => {
                            let c = ctx_of(op).unwrap_or(0) as usize % ctxs.len();
                            exec(&ctxs[c], op)
                        }
                    };
                    let end = clock.fetch_add(1, Ordering::SeqCst);
                    recs.lock().unwrap().push(Rec { thread: ti, step: si, start, end, outcome, tl_after: tl_snapshot() });
                }
            });
        }
    });
    let mut recs = recs.into_inner().unwrap();
    recs.sort_by_key(|r| (r.thread, r.step));
    if selftest == "cross-talk" {
        // sensitivity: pretend one operation on another context saw the cancellation
        if let Some(r) = recs.iter_mut().find(|r| matches!(ctx_of(&prog.threads[r.thread].steps[r.step].op), Some(c) if c as usize % nctx != 0) && prog.threads[r.thread].steps[r.step].op != Op::Cancel) {
            r.outcome = Outcome::Err("OperationCancelled".into());
        }
    }
    if selftest == "tl-leak" {
        if let Some(r) = recs.iter_mut().find(|r| r.thread == 1) {
            r.tl_after.push_str("\n# changed");
        }
    }

    // first cancel per (shared context 0 | per-thread context 0)
    let cancels: Vec<(usize, u64, u64)> = recs.iter().filter(|r| prog.threads[r.thread].steps[r.step].op == Op::Cancel).map(|r| (r.thread, r.start, r.end)).collect();
    let settings_ops: Vec<(u64, u64)> = recs
        .iter()
        .filter(|r| matches!(prog.threads[r.thread].steps[r.step].op, Op::SettingsJson { .. } | Op::SettingsValue { .. } | Op::TlSet { .. } | Op::Cancel))
        .map(|r| (r.start, r.end))
        .collect();

    // ---- (3) thread-local snapshots
    for (ti, snap) in tl_start.into_inner().unwrap() {
        if snap != pristine {
            return Err(Fail::new("C24:fresh-thread-local-settings-not-default", format!("thread {ti} of {nthreads} starts with thread-local settings different from a fresh thread's default")));
        }
    }
    for r in &recs {
        let op = &prog.threads[r.thread].steps[r.step].op;
        let expected = if r.thread == 0 { t0_expected.get(r.step).unwrap_or(&pristine) } else { &pristine };
        if r.tl_after != *expected {
            let sig = if r.thread == 0 { "C24:thread-local-settings-of-setter-thread-unexpected" } else { "C24:thread-local-settings-changed-on-other-thread" };
            let line = r.tl_after.lines().zip(expected.lines()).find(|(a, b)| a != b).map(|(a, b)| format!("`{a}` vs expected `{b}`")).unwrap_or_else(|| "length differs".into());
            return Err(Fail::new(sig, format!("thread {} after step {} ({}): Settings::to_toml() {line}", r.thread, r.step, op_name(op))));
        }
    }

    // ---- (1) + (2) results
    let mut overlap = false;
    let mut shared_by_two = false;
    if prog.shared {
        for c in 0..nctx {
            let users: std::collections::BTreeSet<usize> = recs.iter().filter(|r| ctx_of(&prog.threads[r.thread].steps[r.step].op).map(|x| x as usize % nctx) == Some(c)).map(|r| r.thread).collect();
            shared_by_two |= users.len() >= 2;
        }
    }
    for r in &recs {
        let op = &prog.threads[r.thread].steps[r.step].op;
        if *op == Op::Cancel {
            continue;
        }
        run.count(&format!("op:{}", op_name(op)));
        if settings_ops.iter().any(|(s, e)| *s < r.end && r.start < *e) && ctx_of(op).is_some() {
            overlap = true;
        }
        let variant = ctx_of(op).map(|c| variants[c as usize % nctx]).unwrap_or(0);
        let base = baseline(op, variant, false);
        if let Outcome::Panic(p) = &r.outcome {
            if base != r.outcome {
                return Err(Fail::new(format!("C24:panic:{p}"), format!("{} on thread {} panics under concurrency ({} threads); alone: {}", op_name(op), r.thread, nthreads, base.short())));
            }
        }
        let on_a = ctx_of(op).map(|c| c as usize % nctx == 0).unwrap_or(false);
        // cancels that can reach this operation's context instance
        let relevant: Vec<&(usize, u64, u64)> = cancels.iter().filter(|c| on_a && (prog.shared || c.0 == r.thread)).collect();
        let certainly_before = relevant.iter().all(|c| r.end < c.1);
        let certainly_after = relevant.iter().any(|c| c.2 < r.start);
        if !relevant.is_empty() && !certainly_before {
            // racing with / following cancel(): baseline or OperationCancelled
            if r.outcome.cancelled() {
                run.count("on-cancelled-context:OperationCancelled");
            } else if r.outcome == base {
                // (whether a cancelled context must refuse later operations is C23's subject)
                run.count(if certainly_after { "on-cancelled-context:started-after-cancel-completed-as-alone" } else { "on-cancelled-context:completed-as-alone" });
            } else {
                run.count(&format!("on-cancelled-context:other-outcome(C23):{}", op_name(op)));
            }
            continue;
        }
        if r.outcome.cancelled() && !base.cancelled() {
            return Err(Fail::new(
                format!("C24:cancel-leaked-to-other-context:{}", if prog.shared { "shared" } else { "distinct" }),
                format!(
                    "{} on context #{:?} (thread {}) ended with OperationCancelled although only context #0 {} was cancelled",
                    op_name(op),
                    ctx_of(op).map(|c| c as usize % nctx),
                    r.thread,
                    if on_a { "(before this operation, per the logical clock: no)" } else { "" }
                ),
            ));
        }
        if r.outcome != base {
            // a fresh baseline tells a concurrency effect from an unstable sequential result (C38's subject)
            let again = baseline(op, variant, true);
            if again != base {
                run.count("baseline-unstable(not judged)");
                continue;
            }
            let d = match (&base, &r.outcome) {
                (Outcome::Ok(a), Outcome::Ok(b)) => vh::defgen::first_diff(a, b, "").unwrap_or_else(|| "?".into()),
                (a, b) => format!("{} vs {}", a.short(), b.short()),
            };
            return Err(Fail::new(
                format!("C24:result-differs-under-concurrency:{}:{}", op_name(op), if prog.shared { "shared" } else { "distinct" }),
                format!("{} ({}) on thread {} of {}: alone vs concurrent: {d}", op_name(op), op_key(op, variant), r.thread, nthreads),
            ));
        }
    }
    let nt = nthreads >= 2 && (shared_by_two || !prog.shared) && overlap;
    if nt {
        run.nontrivial(prog_in);
    }
    run.count(if nt { "program:nontrivial" } else { "program:trivial" });
    if !cancels.is_empty() {
        run.count("program:with-cancel");
    }
    Ok(())
}

// ------------------------------------------------------------------------------------------------
// generator
// ------------------------------------------------------------------------------------------------

fn op_strategy() -> impl Strategy<Value = Op> {
    prop_oneof![
        4 => (0u8..4, 0u8..N_SRC, 0u8..7, prop::bool::weighted(0.35)).prop_map(|(ctx, src, alg, via_ctx_signer)| Op::Sign { ctx, src, alg, via_ctx_signer }),
        5 => (0u8..4, 0u8..N_ASSETS).prop_map(|(ctx, asset)| Op::Read { ctx, asset }),
        2 => (0u8..4, 0u8..N_ASSETS).prop_map(|(ctx, asset)| Op::Ingredient { ctx, asset }),
        2 => (0u8..5).prop_map(|which| Op::SettingsJson { which }),
        2 => (0u8..5).prop_map(|which| Op::SettingsValue { which }),
        2 => (0u8..4).prop_map(|which| Op::TlSet { which }),
        1 => Just(Op::Cancel),
    ]
}

fn program_strategy(max_threads: usize) -> impl Strategy<Value = Program> {
    let step = (prop_oneof![3 => Just(0u8), 2 => 1u8..4, 1 => 4u8..40], op_strategy()).prop_map(|(yields, op)| Step { yields, op });
    let thread = (prop::bool::weighted(0.7), proptest::collection::vec(step, 1..=5)).prop_map(|(barrier, steps)| ThreadProg { barrier, steps });
    (proptest::collection::vec(0u8..N_SETTINGS, 1..=4), prop::bool::weighted(0.7), prop::bool::weighted(0.4), proptest::collection::vec(thread, 1..=max_threads))
        .prop_map(|(contexts, shared, cancel, threads)| Program { contexts, shared, cancel, threads })
}

// ------------------------------------------------------------------------------------------------
// settings construction forms vs the legacy thread-local settings
// ------------------------------------------------------------------------------------------------

#[derive(Clone, Debug, Serialize, Deserialize, PartialEq, Eq, Hash)]
struct FormStep {
    form: u8,
    content: u8,
}

#[derive(Clone, Debug, Serialize, Deserialize, PartialEq, Eq, Hash)]
struct FormThread {
    /// deprecated thread-local setters applied on this thread before anything is built
    tl_pre: Vec<u8>,
    steps: Vec<FormStep>,
}

#[derive(Clone, Debug, Serialize, Deserialize, PartialEq, Eq, Hash)]
struct FormCase {
    threads: Vec<FormThread>,
}

const FORM_NAMES: [&str; 21] = [
    "ctx_with_settings_str_json",
    "ctx_with_settings_str_toml",
    "ctx_with_settings_string_json",
    "ctx_with_settings_string_toml",
    "ctx_with_settings_value",
    "ctx_with_settings_settings",
    "ctx_with_settings_ref_settings",
    "ctx_set_settings_str_json",
    "ctx_set_settings_value",
    "ctx_set_settings_settings",
    "ctx_set_settings_ref_settings",
    "ctx_set_settings_string_toml",
    "settings_with_json",
    "settings_with_toml",
    "settings_with_value",
    "settings_update_from_str_json",
    "settings_update_from_str_toml",
    "settings_set_value",
    "settings_with_file_json",
    "settings_with_file_toml",
    "ctx_new_plain",
];
const N_FORMS: u8 = 21;
const N_CONTENTS: u8 = 6;
const N_TL2: u8 = 7;

fn content_leaves(c: u8) -> Vec<(&'static str, Value)> {
    match c % N_CONTENTS {
        0 => vec![("verify.verify_after_reading", json!(false))],
        1 => vec![("core.merkle_tree_max_proofs", json!(7))],
        2 => vec![("verify.remote_manifest_fetch", json!(false)), ("verify.ocsp_fetch", json!(true))],
        3 => vec![("builder.vendor", json!("formvendor")), ("core.prefer_compress_manifests", json!(true))],
        4 => vec![("builder.thumbnail.enabled", json!(false)), ("verify.verify_trust", json!(false))],
        _ => vec![("verify.verify_trust", json!("not a bool"))], // rejected by every form
    }
}

fn content_json(c: u8) -> Value {
    let mut v = json!({});
    for (path, leaf) in content_leaves(c) {
        let mut cur = &mut v;
        for part in path.split('.') {
            cur = &mut cur[part];
        }
        *cur = leaf;
    }
    v
}

/// Generated non-default legacy thread-local states (deprecated setters).
#[allow(deprecated)]
fn tl_set2(which: u8) -> c2pa::Result<()> {
    match which % N_TL2 {
        0 => Settings::from_toml("[verify]\nverify_trust = false\nverify_after_sign = false\n"),
        1 => Settings::from_string(&json!({"core": {"merkle_tree_chunk_size_in_kb": 1, "prefer_compress_manifests": true}}).to_string(), "json").map(|_| ()),
        2 => Settings::from_toml("[builder]\nvendor = \"tlvendor\"\n[builder.claim_generator_info]\nname = \"tl-generator\"\n"),
        3 => Settings::from_string("[verify]\nstrict_v1_validation = true\nremote_manifest_fetch = false\n", "toml").map(|_| ()),
        4 => Settings::from_string(&json!({"core": {"merkle_tree_max_proofs": 9, "backing_store_memory_threshold_in_mb": 3}}).to_string(), "json").map(|_| ()),
        5 => Settings::from_toml("[verify]\nverify_after_reading = false\nocsp_fetch = true\n[builder.thumbnail]\nenabled = false\n"),
        _ => Settings::from_string(&json!({"trust": {"trust_anchors": sdk::test_anchors()}, "verify": {"verify_timestamp_trust": false}}).to_string(), "json").map(|_| ()),
    }
}

static FILE_NO: AtomicU64 = AtomicU64::new(0);

fn work_dir() -> std::path::PathBuf {
    vh::core::verif_root().join("work").join("C24")
}

/// One way of constructing settings / a context from `content`; normal form = the resulting `Settings` as JSON.
#[allow(deprecated)]
fn exec_form(form: u8, content: u8, selftest: &str) -> Outcome {
    let j = content_json(content);
    let js = j.to_string();
    let ts = toml::to_string(&j).unwrap_or_default();
    let leaves = content_leaves(content);
    let form = form % N_FORMS;
    if selftest == "value-form-leak" && (form == 4 || form == 8) {
        // sensitivity: the Value form routed through the legacy thread-local path
        let _ = vh::catch(|| Settings::from_string(&js, "json").map(|_| ()));
    }
    let of_ctx = |r: c2pa::Result<Context>| r.map(|c| c.settings().clone());
    let set = |f: &dyn Fn(&mut Context) -> c2pa::Result<()>| {
        let mut c = Context::new();
        f(&mut c)?;
        Ok(c.settings().clone())
    };
    let r: Result<c2pa::Result<Settings>, String> = vh::catch(|| match form {
        0 => of_ctx(Context::new().with_settings(js.as_str())),
        1 => of_ctx(Context::new().with_settings(ts.as_str())),
        2 => of_ctx(Context::new().with_settings(js.clone())),
        3 => of_ctx(Context::new().with_settings(ts.clone())),
        4 => of_ctx(Context::new().with_settings(j.clone())),
        5 => {
            let st = Settings::new().with_json(&js)?;
            of_ctx(Context::new().with_settings(st))
        }
        6 => {
            let st = Settings::new().with_toml(&ts)?;
            of_ctx(Context::new().with_settings(&st))
        }
        7 => set(&|c| c.set_settings(js.as_str())),
        8 => set(&|c| c.set_settings(j.clone())),
        9 => {
            let st = Settings::new().with_toml(&ts)?;
            set(&|c| c.set_settings(st.clone()))
        }
        10 => {
            let st = Settings::new().with_json(&js)?;
            set(&|c| c.set_settings(&st))
        }
        11 => set(&|c| c.set_settings(ts.clone())),
        12 => Settings::new().with_json(&js),
        13 => Settings::new().with_toml(&ts),
        14 => {
            let mut st = Settings::new();
            for (p, v) in &leaves {
                st = st.with_value(p, v.clone())?;
            }
            Ok(st)
        }
        15 => {
            let mut st = Settings::default();
            st.update_from_str(&js, "json")?;
            Ok(st)
        }
        16 => {
            let mut st = Settings::default();
            st.update_from_str(&ts, "toml")?;
            Ok(st)
        }
        17 => {
            let mut st = Settings::new();
            for (p, v) in &leaves {
                st.set_value(p, v.clone())?;
            }
            Ok(st)
        }
        18 | 19 => {
            let (ext, text) = if form == 18 { ("json", &js) } else { ("toml", &ts) };
            let f = work_dir().join(format!("form-{}-{}.{ext}", std::process::id(), FILE_NO.fetch_add(1, Ordering::SeqCst)));
            std::fs::write(&f, text).map_err(c2pa::Error::IoError)?;
            let r = Settings::new().with_file(&f);
            let _ = std::fs::remove_file(&f);
            r
        }
        _ => Ok(Context::new().settings().clone()),
    });
    wrap(r, |st| Outcome::Ok(serde_json::to_value(&st).unwrap_or(Value::Null)))
}

static FORM_BASELINES: Mutex<Option<HashMap<(u8, u8), Outcome>>> = Mutex::new(None);

/// The form on a pristine (fresh) thread.
fn form_baseline(form: u8, content: u8) -> Outcome {
    let key = (form % N_FORMS, content % N_CONTENTS);
    if let Some(o) = FORM_BASELINES.lock().unwrap().get_or_insert_with(HashMap::new).get(&key) {
        return o.clone();
    }
    let o = std::thread::scope(|s| s.spawn(|| exec_form(form, content, "")).join().unwrap_or(Outcome::Panic("baseline thread".into())));
    FORM_BASELINES.lock().unwrap().get_or_insert_with(HashMap::new).insert(key, o.clone());
    o
}

fn first_line_diff(a: &str, b: &str) -> String {
    a.lines().zip(b.lines()).find(|(x, y)| x != y).map(|(x, y)| format!("`{x}` became `{y}`")).unwrap_or_else(|| format!("{} vs {} lines", a.lines().count(), b.lines().count()))
}

fn judge_forms(run: &Run, case: &FormCase, selftest: &str) -> CaseResult {
    let pristine = std::thread::scope(|s| s.spawn(tl_snapshot).join().unwrap_or_default());
    for t in &case.threads {
        for st in &t.steps {
            form_baseline(st.form, st.content);
        }
    }
    struct FRec {
        thread: usize,
        step: usize,
        before: String,
        after: String,
        out: Outcome,
        nondefault: bool,
    }
    let recs: Mutex<Vec<FRec>> = Mutex::new(vec![]);
    let start_bad: Mutex<Vec<usize>> = Mutex::new(vec![]);
    let barrier = Barrier::new(case.threads.len().max(1));
    std::thread::scope(|s| {
        for (ti, tp) in case.threads.iter().enumerate() {
            let (recs, start_bad, barrier, pristine) = (&recs, &start_bad, &barrier, &pristine);
            s.spawn(move || {
                if tl_snapshot() != *pristine {
                    start_bad.lock().unwrap().push(ti);
                }
                for w in &tp.tl_pre {
                    let _ = vh::catch(|| tl_set2(*w));
                }
                let nondefault = tl_snapshot() != *pristine;
                barrier.wait();
                for (si, st) in tp.steps.iter().enumerate() {
                    let before = tl_snapshot();
                    let out = exec_form(st.form, st.content, selftest);
                    let after = tl_snapshot();
                    recs.lock().unwrap().push(FRec { thread: ti, step: si, before, after, out, nondefault });
                    std::thread::yield_now();
                }
            });
        }
    });
    if let Some(ti) = start_bad.into_inner().unwrap().first() {
        return Err(Fail::new("C24:fresh-thread-local-settings-not-default", format!("settings-forms thread {ti} starts with non-default thread-local settings")));
    }
    let mut recs = recs.into_inner().unwrap();
    recs.sort_by_key(|r| (r.thread, r.step));
    let mut any_nondefault = false;
    for r in &recs {
        let st = &case.threads[r.thread].steps[r.step];
        let name = FORM_NAMES[(st.form % N_FORMS) as usize];
        run.count(&format!("settings_form_{name}"));
        if r.nondefault {
            run.count("tls_nondefault_before_build");
            any_nondefault = true;
        } else {
            run.count("tls_default_before_build");
        }
        if r.after != r.before {
            return Err(Fail::new(
                format!("C24:settings-construction-changes-thread-local:{name}"),
                format!(
                    "thread {} (legacy setters before: {:?}) step {}: {name} with {} changes Settings::to_toml() of the calling thread: {}",
                    r.thread,
                    case.threads[r.thread].tl_pre,
                    r.step,
                    content_json(st.content),
                    first_line_diff(&r.before, &r.after)
                ),
            ));
        }
        let base = form_baseline(st.form, st.content);
        if r.out != base {
            let d = match (&base, &r.out) {
                (Outcome::Ok(a), Outcome::Ok(b)) => vh::defgen::first_diff(a, b, "").unwrap_or_else(|| "?".into()),
                (a, b) => format!("{} vs {}", a.short(), b.short()),
            };
            return Err(Fail::new(
                format!("C24:settings-construction-depends-on-thread-local:{name}"),
                format!(
                    "thread {} (legacy setters before: {:?}) step {}: {name} with {} gives other settings than on a pristine thread: {d}",
                    r.thread,
                    case.threads[r.thread].tl_pre,
                    r.step,
                    content_json(st.content)
                ),
            ));
        }
        run.count(match &r.out {
            Outcome::Ok(_) => "settings_form_result:ok",
            _ => "settings_form_result:rejected",
        });
    }
    if any_nondefault {
        run.nontrivial(case);
    }
    Ok(())
}

fn forms_strategy() -> impl Strategy<Value = FormCase> {
    let step = (0u8..N_FORMS, 0u8..N_CONTENTS).prop_map(|(form, content)| FormStep { form, content });
    let thread = (prop_oneof![1 => Just(vec![]), 4 => proptest::collection::vec(0u8..N_TL2, 1..=3)], proptest::collection::vec(step, 1..=5)).prop_map(|(tl_pre, steps)| FormThread { tl_pre, steps });
    proptest::collection::vec(thread, 1..=4).prop_map(|threads| FormCase { threads })
}

// ------------------------------------------------------------------------------------------------
// cancel histories: a cancelled context stays cancelled
// ------------------------------------------------------------------------------------------------

#[derive(Clone, Debug, Serialize, Deserialize, PartialEq, Eq, Hash)]
struct CancelCase {
    variant_a: u8,
    variant_b: u8,
    /// 0 cancel, then all operations one after the other on one thread; 1 cancel, then the threads run concurrently;
    /// 2 every thread's first operation is parked inside its first progress callback when cancel() is called
    mode: u8,
    /// operations on the cancelled context, per thread (`ctx` fields are ignored)
    threads: Vec<Vec<Op>>,
    /// operations of the bystander thread on the other context
    bystander: Vec<Op>,
}

struct Park {
    gen: u64,
    enabled: bool,
    arrived: AtomicU64,
    release: std::sync::atomic::AtomicBool,
    timed_out: std::sync::atomic::AtomicBool,
}

thread_local! {
    static PARKED_GEN: std::cell::Cell<u64> = const { std::cell::Cell::new(0) };
}
static PARK_GEN: AtomicU64 = AtomicU64::new(1);

fn judge_cancel(run: &Run, case: &CancelCase, selftest: &str) -> CaseResult {
    use std::sync::atomic::AtomicBool;
    let mode = case.mode % 3;
    let va = case.variant_a % N_SETTINGS;
    let vb = case.variant_b % N_SETTINGS;
    // operations on A: only sign with an explicit signer and read (first checkpoint precedes every result)
    let norm = |op: &Op| match op {
        Op::Sign { src, alg, .. } => Op::Sign { ctx: 0, src: *src, alg: *alg, via_ctx_signer: false },
        Op::Read { asset, .. } => Op::Read { ctx: 0, asset: *asset },
        _ => Op::Read { ctx: 0, asset: 0 },
    };
    let mut threads: Vec<Vec<Op>> = case.threads.iter().map(|t| t.iter().map(norm).collect::<Vec<_>>()).filter(|t: &Vec<Op>| !t.is_empty()).collect();
    if threads.is_empty() {
        threads.push(vec![Op::Read { ctx: 0, asset: 0 }]);
    }
    if mode == 0 {
        threads = vec![threads.into_iter().flatten().collect()];
    }
    if threads.iter().map(|t| t.len()).sum::<usize>() < 2 {
        threads[0].push(Op::Read { ctx: 0, asset: 1 });
    }
    let total: usize = threads.iter().map(|t| t.len()).sum();
    let bystander: Vec<Op> = case.bystander.iter().map(norm).collect();
    for op in &bystander {
        baseline(op, vb, false);
    }

    let park = Arc::new(Park { gen: PARK_GEN.fetch_add(1, Ordering::SeqCst), enabled: mode == 2, arrived: AtomicU64::new(0), release: AtomicBool::new(false), timed_out: AtomicBool::new(false) });
    let pk = park.clone();
    let ctx_a = Arc::new(sdk::context_with(&ctx_settings(va)).with_progress_callback(move |_p, _s, _t| {
        if pk.enabled && PARKED_GEN.with(|g| g.get()) != pk.gen {
            PARKED_GEN.with(|g| g.set(pk.gen));
            pk.arrived.fetch_add(1, Ordering::SeqCst);
            let mut spins = 0u32;
            while !pk.release.load(Ordering::SeqCst) {
                std::thread::sleep(std::time::Duration::from_millis(1));
                spins += 1;
                if spins > 60_000 {
                    pk.timed_out.store(true, Ordering::SeqCst);
                    break;
                }
            }
        }
        true
    }));
    let ctx_b = Arc::new(sdk::context_with(&ctx_settings(vb)));
    let consumed = AtomicBool::new(false);
    // (thread, step, outcome, is_cancelled after, parked at cancel)
    let recs: Mutex<Vec<(usize, usize, Outcome, bool, bool)>> = Mutex::new(vec![]);
    let by_recs: Mutex<Vec<(usize, Outcome)>> = Mutex::new(vec![]);
    let no_checkpoint = AtomicU64::new(0);
    if mode != 2 {
        ctx_a.cancel();
    }
    let barrier = Barrier::new(threads.len() + 1);
    std::thread::scope(|s| {
        for (ti, ops) in threads.iter().enumerate() {
            let (ctx_a, recs, park, barrier, consumed, no_checkpoint) = (&ctx_a, &recs, &park, &barrier, &consumed, &no_checkpoint);
            s.spawn(move || {
                barrier.wait();
                for (si, op) in ops.iter().enumerate() {
                    let out = if selftest == "cancel-consumed" && consumed.swap(true, Ordering::SeqCst) {
                        // sensitivity: the cancellation was consumed by the first operation
                        exec(&Arc::new(sdk::context_with(&ctx_settings(va))), op)
                    } else {
                        exec(ctx_a, op)
                    };
                    let mut parked = false;
                    if park.enabled && si == 0 {
                        if PARKED_GEN.with(|g| g.get()) != park.gen {
                            // the operation ended without reaching a checkpoint: do not keep the canceller waiting
                            PARKED_GEN.with(|g| g.set(park.gen));
                            park.arrived.fetch_add(1, Ordering::SeqCst);
                            no_checkpoint.fetch_add(1, Ordering::SeqCst);
                        } else {
                            parked = true;
                        }
                    }
                    recs.lock().unwrap().push((ti, si, out, ctx_a.is_cancelled(), parked));
                }
            });
        }
        {
            let (ctx_b, by_recs, bystander) = (&ctx_b, &by_recs, &bystander);
            let barrier = &barrier;
            s.spawn(move || {
                barrier.wait();
                for (i, op) in bystander.iter().enumerate() {
                    by_recs.lock().unwrap().push((i, exec(ctx_b, op)));
                }
            });
        }
        if mode == 2 {
            // the canceller: wait until every thread is parked inside its first callback, cancel, release
            let mut spins = 0u32;
            while (park.arrived.load(Ordering::SeqCst) as usize) < threads.len() {
                std::thread::sleep(std::time::Duration::from_millis(1));
                spins += 1;
                if spins > 60_000 {
                    park.timed_out.store(true, Ordering::SeqCst);
                    break;
                }
            }
            ctx_a.cancel();
            park.release.store(true, Ordering::SeqCst);
        }
    });
    if park.timed_out.load(Ordering::SeqCst) {
        run.inconclusive("cancel history: parked operations did not line up within 60 s");
        return Ok(());
    }
    run.count(&format!("cancel_history:mode:{}", ["sequential", "concurrent-after-cancel", "parked-in-callback"][mode as usize]));
    run.count_n("cancel_history:ops_on_cancelled_context", total as u64);
    if total >= 2 {
        run.count("ops_after_cancel_ge2");
    }
    let mut recs = recs.into_inner().unwrap();
    recs.sort_by_key(|r| (r.0, r.1));
    let n_parked = recs.iter().filter(|r| r.4).count();
    if n_parked > 0 {
        run.count_n("parked_ops_at_cancel", n_parked as u64);
    }
    if no_checkpoint.load(Ordering::SeqCst) > 0 {
        run.count_n("parked:first-op-ended-without-checkpoint", no_checkpoint.load(Ordering::SeqCst));
    }
    let mode_name = ["sequential", "concurrent", "parked"][mode as usize];
    let history = || format!("context settings variant {va}, mode {mode_name}, operations per thread {:?}", threads.iter().map(|t| t.iter().map(|o| op_key(o, va)).collect::<Vec<_>>()).collect::<Vec<_>>());
    for (ti, si, out, still, parked) in &recs {
        let op = &threads[*ti][*si];
        if !out.cancelled() {
            let which = if *parked { "parked-at-cancel" } else if *si == 0 && mode != 0 { "first-on-its-thread" } else { "later" };
            return Err(Fail::new(
                format!("C24:operation-on-cancelled-context-not-cancelled:{}:{mode_name}:{which}", op_name(op)),
                format!("thread {ti} step {si} ({}) ended {} although cancel() on its context {}; {}", op_key(op, va), out.short(), if *parked { "was called while it was parked in its first progress callback" } else { "had returned before it started" }, history()),
            ));
        }
        if !*still {
            return Err(Fail::new("C24:is_cancelled-reset-after-operation", format!("is_cancelled() is false after thread {ti} step {si} ({}); {}", op_key(op, va), history())));
        }
    }
    if !ctx_a.is_cancelled() {
        return Err(Fail::new("C24:is_cancelled-reset-after-operation", format!("is_cancelled() is false at the end; {}", history())));
    }
    if ctx_b.is_cancelled() {
        return Err(Fail::new("C24:cancel-leaked-to-other-context:flag", format!("bystander context reports is_cancelled(); {}", history())));
    }
    for (i, out) in by_recs.into_inner().unwrap() {
        let op = &bystander[i];
        run.count("cancel_history:bystander_op");
        let base = baseline(op, vb, false);
        if out.cancelled() && !base.cancelled() {
            return Err(Fail::new("C24:cancel-leaked-to-other-context:bystander", format!("bystander {} ended with OperationCancelled; {}", op_key(op, vb), history())));
        }
        if out != base {
            if baseline(op, vb, true) != base {
                run.count("baseline-unstable(not judged)");
                continue;
            }
            return Err(Fail::new(format!("C24:result-differs-under-concurrency:{}:bystander", op_name(op)), format!("bystander {}: alone {} vs beside a cancelled context {}; {}", op_key(op, vb), base.short(), out.short(), history())));
        }
    }
    run.nontrivial(case);
    Ok(())
}

fn cancel_strategy() -> impl Strategy<Value = CancelCase> {
    let op = prop_oneof![
        3 => (0u8..6).prop_map(|asset| Op::Read { ctx: 0, asset }),
        2 => (0u8..N_SRC, 0u8..7).prop_map(|(src, alg)| Op::Sign { ctx: 0, src, alg, via_ctx_signer: false }),
    ];
    let thread = proptest::collection::vec(op.clone(), 1..=3);
    (0u8..N_SETTINGS, 0u8..N_SETTINGS, 0u8..3, prop_oneof![2 => proptest::collection::vec(thread.clone(), 1..=4), 1 => proptest::collection::vec(thread, 5..=16)], proptest::collection::vec(op, 0..=3))
        .prop_map(|(variant_a, variant_b, mode, threads, bystander)| CancelCase { variant_a, variant_b, mode, threads, bystander })
}


fn main() {
    vh::quiet_panics();
    let run = Run::from_args("C24", "exploration");
    let selftest = std::env::var("VERIF_SELFTEST").unwrap_or_default();
    run.set_rule("case = program: 1..4 contexts (4 settings variants: anchors / no anchors / compressed manifests without signer settings / Merkle + verify_trust off; each with its own claim_generator_info and signer settings), shared as Arc<Context> (Builder::from_shared_context, Reader::from_shared_context) or one private instance per thread; 1..16 threads x 1..5 steps (sign with an explicit signer or through the context's lazily created signer, read of 7 inputs [fixtures, signed png / Merkle mp4 / box-hash gif, tampered, garbage], add ingredient + sign, Settings::new().with_json / with_value incl. rejected input, deprecated thread-local setters on thread 0, cancel() on context 0), start barrier flag per thread, 0..40 yields before each step. Non-trivial = at least 2 threads, a context used by 2 threads (or private instances), and a context operation overlapping a settings / cancel operation on the logical clock.");
    run.assume("schedules are whatever the OS produces: randomised stress, not an enumeration of interleavings; barriers and yields come from the case");
    run.assume("the sequential baseline of an operation is deterministic (checked again on a mismatch; an unstable baseline is counted and left to C38)");
    run.assume("operations on the cancelled context that may overlap cancel() are accepted with the baseline result or OperationCancelled; other outcomes there are counted only (C23)");
    run.note("second part 'settings_forms': 1-4 threads, each first sets generated non-default legacy thread-local settings (0-3 of 7 deprecated setter calls), then runs 1-5 of 21 construction forms (Context::with_settings / set_settings with &str JSON, &str TOML, String, serde_json::Value, Settings, &Settings; Settings::with_json / with_toml / with_value / with_file json+toml / update_from_str json+toml / set_value; Context::new) x 6 contents (one rejected): Settings::to_toml() of the thread must be byte-identical before and after every call and the resulting settings must equal those built on a pristine thread; a grid runs every form x content x 4 thread-local states. Third part 'cancel_histories': cancel() on a shared context followed by >= 2 sign/read operations sequentially, concurrently on 1-16 threads, or with every thread's first operation parked inside its first progress callback when cancel() is called: each must end with OperationCancelled, is_cancelled() stays true, a bystander context's operations equal their baselines");
    run.note("the asset class 'BMFF Merkle tree over two mdat boxes' (known nondeterministic validation, C38/C17) is replaced by the one-mdat Merkle asset and counted under excluded_known");
    let _ = inputs();

    let max_threads = 16usize;
    if run.quick() {
        // 40 programs; thread counts drawn from 1..16 (mean about 8)
        run.drive("programs", 40, program_strategy(max_threads), |p| judge(&run, p, &selftest));
    } else {
        run.drive_par("programs", 3000, 4, program_strategy(max_threads), |p| judge(&run, p, &selftest));
    }
    // every way of building settings / a context, on threads with generated non-default legacy settings
    let _ = std::fs::create_dir_all(work_dir());
    let mut all_forms: Vec<FormCase> = vec![];
    for pre in [vec![], vec![4u8], vec![3, 5], vec![0, 1, 6]] {
        for content in 0..N_CONTENTS {
            all_forms.push(FormCase { threads: vec![FormThread { tl_pre: pre.clone(), steps: (0..N_FORMS).map(|form| FormStep { form, content }).collect() }] });
        }
    }
    run.drive_enum("settings_forms_grid", all_forms, |c| judge_forms(&run, c, &selftest));
    run.drive("settings_forms", run.scale(120, 3000), forms_strategy(), |c| judge_forms(&run, c, &selftest));
    // cancel histories
    run.drive("cancel_histories", run.scale(45, 1500), cancel_strategy(), |c| judge_cancel(&run, c, &selftest));
    run.finish();
}
