//! C26 — the network host allow-list is enforced on every request.
//!
//! Stacks under test (all over a recording mock transport):
//!   0  `RestrictedResolver` alone (public API; built with `with_allowed_hosts`, `new` + `set_allowed_hosts`,
//!      or patterns deserialised with serde), sync and async;
//!   1  `RedirectResolver(RestrictedResolver(mock))` — exactly what `Context::resolver()` /
//!      `resolver_async()` assemble when `core.allowed_network_hosts` is set (the redirect follower is
//!      constructed through `c2pa::verif_hooks::redirect_resolver_{sync,async}`), with scripted redirects so
//!      that every hop passes the allow-list;
//!   2  the real `Context` built from settings JSON (`core.allowed_network_hosts`), used only for requests
//!      the reference refuses (nothing may touch the network).
//!
//! Oracle: a reference matcher written from the doc comment of `HostPattern` / `Core::allowed_network_hosts`
//! (`[http(s)://][*.]host[:port]`, case-insensitive, exact host or wildcard sub-domain with a label
//! boundary, scheme equal when given, port strings equal including both absent), evaluated on the generated
//! URI components for the top-level request and on the harness's own strict parse of every URI the mock
//! recorded. Reference-allowed top-level request must reach the mock; reference-refused must give
//! `UriDisallowed` and never reach the mock; no recorded request may be reference-refused. Points the
//! documentation leaves open are "unclear": counted, never judged.

use std::{
    io::{Cursor, Read},
    sync::{Arc, Mutex},
};

use async_trait::async_trait;
use c2pa::http::{
    restricted::{HostPattern, RestrictedResolver},
    AsyncHttpResolver, HttpResolverError, SyncHttpResolver,
};
use http::{HeaderName, HeaderValue, Request, Response};
use proptest::prelude::*;
use serde::{Deserialize, Serialize};
use vh::{CaseResult, Fail, Run};

// =====================================================================================================
// case
// =====================================================================================================

#[derive(Clone, Debug, Serialize, Deserialize, PartialEq, Eq, Hash)]
struct UriParts {
    scheme: String,
    userinfo: Option<String>,
    /// host as written (IPv6 literals with brackets)
    host: String,
    port: Option<String>,
    /// path / query / fragment text (may be empty)
    tail: String,
}

impl UriParts {
    fn render(&self) -> String {
        let mut s = format!("{}://", self.scheme);
        if let Some(u) = &self.userinfo {
            s.push_str(u);
            s.push('@');
        }
        s.push_str(&self.host);
        if let Some(p) = &self.port {
            s.push(':');
            s.push_str(p);
        }
        s.push_str(&self.tail);
        s
    }
}

#[derive(Clone, Debug, Serialize, Deserialize, PartialEq, Eq, Hash)]
struct Resp {
    status: u16,
    location: Option<String>,
}

#[derive(Clone, Debug, Serialize, Deserialize, PartialEq, Eq, Hash)]
struct Case {
    /// 0 RestrictedResolver alone, 1 Redirect(Restricted(mock)), 2 Context from settings (refused requests only)
    stack: u8,
    asynch: bool,
    /// 0 with_allowed_hosts, 1 new + set_allowed_hosts, 2 serde-deserialised patterns
    ctor: u8,
    allow_redirects: bool,
    /// None = no allow-list configured
    list: Option<Vec<String>>,
    uri: UriParts,
    script: Vec<Resp>,
}

// =====================================================================================================
// recording mock transport
// =====================================================================================================

struct Mock {
    script: Vec<Resp>,
    log: Mutex<Vec<String>>,
}

impl Mock {
    fn new(script: Vec<Resp>) -> Arc<Mock> {
        Arc::new(Mock { script, log: Mutex::new(vec![]) })
    }

    fn serve(&self, req: Request<Vec<u8>>) -> Result<Response<Box<dyn Read>>, HttpResolverError> {
        let idx = {
            let mut g = self.log.lock().unwrap();
            g.push(req.uri().to_string());
            g.len() - 1
        };
        if idx > 40 {
            return Err(HttpResolverError::Io(std::io::Error::other("mock: runaway request loop")));
        }
        let spec = self.script.get(idx).cloned().unwrap_or(Resp { status: 200, location: None });
        let status = if http::StatusCode::from_u16(spec.status).is_ok() { spec.status } else { 200 };
        let mut b = Response::builder().status(status);
        if let Some(l) = &spec.location {
            if let Ok(v) = HeaderValue::from_bytes(l.as_bytes()) {
                b = b.header(HeaderName::from_static("location"), v);
            }
        }
        b.body(Box::new(Cursor::new(b"mock".to_vec())) as Box<dyn Read>).map_err(HttpResolverError::Http)
    }

    fn history(&self) -> Vec<String> {
        self.log.lock().unwrap().clone()
    }
}

impl SyncHttpResolver for Mock {
    fn http_resolve(&self, request: Request<Vec<u8>>) -> Result<Response<Box<dyn Read>>, HttpResolverError> {
        self.serve(request)
    }
}

#[async_trait]
impl AsyncHttpResolver for Mock {
    async fn http_resolve_async(&self, request: Request<Vec<u8>>) -> Result<Response<Box<dyn Read>>, HttpResolverError> {
        tokio::task::yield_now().await;
        self.serve(request)
    }
}

// =====================================================================================================
// reference model (from the documentation only)
// =====================================================================================================

#[derive(Clone, Debug, PartialEq)]
struct Authority {
    scheme: String,
    /// with brackets for IP literals
    host: String,
    port: Option<String>,
    /// authority-form text (no scheme) whose part after the colon is not a port number
    odd: bool,
}

/// `scheme://[userinfo@]host[:port]` followed by `/`, `?`, `#` or the end; or, without `://`, the authority
/// form `[userinfo@]host[:port]` (how `http::Uri` — the type the transport is handed — reads a string such as
/// `mailto:a@example.org`; scheme is then empty). Anything else is `None`.
fn strict_parse(uri: &str) -> Option<Authority> {
    let (scheme, auth, authority_form) = match uri.find("://") {
        Some(i) => {
            let scheme = &uri[..i];
            let mut sc = scheme.chars();
            if !sc.next()?.is_ascii_alphabetic() || !sc.all(|c| c.is_ascii_alphanumeric() || "+-.".contains(c)) {
                return None;
            }
            let rest = &uri[i + 3..];
            let end = rest.find(['/', '?', '#']).unwrap_or(rest.len());
            (scheme, &rest[..end], false)
        }
        None => {
            if uri.is_empty() || uri.contains(['/', '?', '#']) {
                return None;
            }
            ("", uri, true)
        }
    };
    let hostport = match auth.rfind('@') {
        Some(k) => &auth[k + 1..],
        None => auth,
    };
    let (host, port) = if hostport.starts_with('[') {
        let j = hostport.find(']')?;
        let after = &hostport[j + 1..];
        let port = if after.is_empty() { None } else { Some(after.strip_prefix(':')?) };
        (&hostport[..=j], port)
    } else {
        if hostport.matches(':').count() > 1 {
            return None;
        }
        match hostport.split_once(':') {
            Some((h, p)) => (h, Some(p)),
            None => (hostport, None),
        }
    };
    let mut odd = false;
    let mut port = port;
    if let Some(p) = port {
        if !p.bytes().all(|b| b.is_ascii_digit()) {
            if !authority_form {
                return None;
            }
            odd = true;
            port = None;
        }
    }
    if !host.starts_with('[') && host.bytes().any(|b| b <= 0x20 || b >= 0x7f || b"[]@/\\".contains(&b)) {
        return None;
    }
    Some(Authority { scheme: scheme.to_ascii_lowercase(), host: host.to_string(), port: port.filter(|p| !p.is_empty()).map(|p| p.to_string()), odd })
}

/// A pattern of the documented grammar `[http(s)://][*.]host[:port]` (or scheme only / empty).
#[derive(Clone, Debug)]
struct Pat {
    scheme: Option<String>,
    wildcard: bool,
    host: Option<String>,
    port: Option<String>,
}

/// `None` = the text is outside the documented grammar (its effect is not specified).
fn parse_pattern(text: &str) -> Option<Pat> {
    let t = text.to_ascii_lowercase();
    let (scheme, rest) = if let Some(r) = t.strip_prefix("https://") {
        (Some("https".to_string()), r)
    } else if let Some(r) = t.strip_prefix("http://") {
        (Some("http".to_string()), r)
    } else {
        (None, t.as_str())
    };
    if rest.is_empty() {
        return Some(Pat { scheme, wildcard: false, host: None, port: None });
    }
    let (hostpart, port) = match rest.split_once(':') {
        Some((h, p)) => {
            if p.is_empty() || p.len() > 5 || !p.bytes().all(|b| b.is_ascii_digit()) || p.parse::<u32>().ok()? > 65535 || (p.len() > 1 && p.starts_with('0')) {
                return None;
            }
            (h, Some(p.to_string()))
        }
        None => (rest, None),
    };
    let (wildcard, host) = match hostpart.strip_prefix("*.") {
        Some(h) => (true, h),
        None => (false, hostpart),
    };
    if host.is_empty() || host.split('.').any(|l| l.is_empty() || !l.bytes().all(|b| b.is_ascii_alphanumeric() || b == b'-')) {
        return None;
    }
    // a wildcard in front of an IP address is not a "sub-domain" pattern
    if wildcard && host.split('.').all(|l| l.bytes().all(|b| b.is_ascii_digit())) {
        return None;
    }
    Some(Pat { scheme, wildcard, host: Some(host.to_string()), port })
}

#[derive(Clone, Debug, PartialEq)]
enum V {
    Match,
    NoMatch,
    Unclear(&'static str),
}

fn and(a: V, b: V) -> V {
    match (a, b) {
        (V::NoMatch, _) | (_, V::NoMatch) => V::NoMatch,
        (V::Unclear(r), _) | (_, V::Unclear(r)) => V::Unclear(r),
        _ => V::Match,
    }
}

fn host_verdict(p: &Pat, uhost: &str) -> V {
    let ph = p.host.as_deref().unwrap_or("");
    let h = uhost.to_ascii_lowercase();
    let undot = |s: &str| s.strip_suffix('.').unwrap_or(s).to_string();
    if !p.wildcard {
        if h == ph {
            return V::Match;
        }
        if undot(&h) == ph {
            return V::Unclear("trailing-dot");
        }
        return V::NoMatch;
    }
    let suffix = format!(".{ph}");
    let (base, dotted) = if h.ends_with(&suffix) { (h.clone(), false) } else if undot(&h).ends_with(&suffix) { (undot(&h), true) } else { return V::NoMatch };
    let label = &base[..base.len() - suffix.len()];
    if label.is_empty() || label.split('.').any(|l| l.is_empty()) {
        return V::Unclear("empty-label-under-wildcard");
    }
    if dotted {
        return V::Unclear("trailing-dot");
    }
    if label.contains('.') {
        return V::Unclear("wildcard-over-several-labels");
    }
    V::Match
}

fn port_verdict(p: &Pat, uport: &Option<String>) -> V {
    match (&p.port, uport) {
        (None, None) => V::Match,
        (Some(a), Some(b)) if a == b => V::Match,
        (a, Some(b)) => {
            let n: Option<u32> = b.parse().ok();
            match n {
                None => V::Unclear("port-not-a-number"),
                Some(n) if n > 65535 => V::Unclear("port-out-of-range"),
                Some(n) => {
                    if a.as_ref().and_then(|a| a.parse::<u32>().ok()) == Some(n) {
                        V::Unclear("port-equal-as-number-only")
                    } else {
                        V::NoMatch
                    }
                }
            }
        }
        (Some(_), None) => V::NoMatch,
    }
}

fn pattern_verdict(p: &Pat, u: &Authority) -> V {
    let scheme = match &p.scheme {
        None => V::Match,
        Some(s) if *s == u.scheme.to_ascii_lowercase() => V::Match,
        Some(_) => V::NoMatch,
    };
    if p.host.is_none() {
        // scheme-only pattern: every URI of that scheme; the empty pattern matches nothing
        return if p.scheme.is_some() { scheme } else { V::NoMatch };
    }
    and(scheme, and(host_verdict(p, &u.host), port_verdict(p, &u.port)))
}

#[derive(Clone, Debug, PartialEq)]
enum Verdict {
    Allowed,
    Refused,
    Unclear(&'static str),
}

fn reference(list: &Option<Vec<String>>, u: &Authority) -> Verdict {
    let Some(list) = list else { return Verdict::Allowed };
    let mut unclear = None;
    for text in list {
        match parse_pattern(text) {
            None => unclear = unclear.or(Some("pattern-outside-documented-grammar")),
            Some(p) => match pattern_verdict(&p, u) {
                V::Match => return Verdict::Allowed,
                V::Unclear(r) => unclear = unclear.or(Some(r)),
                V::NoMatch => {}
            },
        }
    }
    match unclear {
        Some(r) => Verdict::Unclear(r),
        None => Verdict::Refused,
    }
}

// =====================================================================================================
// running the SDK
// =====================================================================================================

fn err_kind(e: &HttpResolverError) -> &'static str {
    match e {
        HttpResolverError::UriDisallowed { .. } => "UriDisallowed",
        HttpResolverError::RedirectDisallowed { .. } => "RedirectDisallowed",
        HttpResolverError::RedirectTargetDisallowed { .. } => "RedirectTargetDisallowed",
        HttpResolverError::TooManyRedirects { .. } => "TooManyRedirects",
        HttpResolverError::Http(_) => "Http",
        HttpResolverError::Io(_) => "Io",
        HttpResolverError::Other(_) => "Other",
        _ => "other-variant",
    }
}

/// Self-test only: plausible but wrong allow-list (VERIF_SELFTEST = suffix | noport | noscheme | firstonly).
struct NaiveRestricted<T> {
    inner: T,
    list: Option<Vec<String>>,
    variant: String,
}

impl<T> NaiveRestricted<T> {
    fn allowed(&self, uri: &http::Uri) -> bool {
        let Some(list) = &self.list else { return true };
        let host = uri.host().unwrap_or("").to_ascii_lowercase();
        let port = uri.port().map(|p| p.as_str().to_string());
        let scheme = uri.scheme_str().map(|s| s.to_ascii_lowercase());
        list.iter().filter_map(|t| parse_pattern(t)).any(|p| {
            let s_ok = self.variant == "noscheme" || p.scheme.is_none() || p.scheme == scheme;
            let Some(ph) = &p.host else { return p.scheme.is_some() && s_ok };
            let h_ok = if p.wildcard {
                if self.variant == "suffix" {
                    host.len() > ph.len() && host.ends_with(ph.as_str())
                } else {
                    host.len() > ph.len() + 1 && host.ends_with(&format!(".{ph}"))
                }
            } else {
                host == *ph
            };
            let p_ok = self.variant == "noport" || p.port == port;
            s_ok && h_ok && p_ok
        })
    }
}

impl<T: SyncHttpResolver> SyncHttpResolver for NaiveRestricted<T> {
    fn http_resolve(&self, request: Request<Vec<u8>>) -> Result<Response<Box<dyn Read>>, HttpResolverError> {
        if !self.allowed(request.uri()) {
            return Err(HttpResolverError::UriDisallowed { uri: request.uri().to_string() });
        }
        self.inner.http_resolve(request)
    }
}

fn patterns(c: &Case) -> Option<Vec<HostPattern>> {
    c.list.as_ref().map(|l| {
        if c.ctor == 2 {
            serde_json::from_value::<Vec<HostPattern>>(serde_json::json!(l)).expect("HostPattern deserialises from any string")
        } else {
            l.iter().map(|s| HostPattern::new(s)).collect()
        }
    })
}

fn restricted<T>(c: &Case, inner: T) -> RestrictedResolver<T> {
    match (c.ctor, patterns(c)) {
        (0, Some(p)) => RestrictedResolver::with_allowed_hosts(inner, p),
        (_, p) => {
            let mut r = RestrictedResolver::new(inner);
            r.set_allowed_hosts(p);
            r
        }
    }
}

fn block<F: std::future::Future>(f: F) -> F::Output {
    let rt = tokio::runtime::Builder::new_current_thread().build().expect("tokio runtime");
    rt.block_on(f)
}

type Out = Result<u16, (&'static str, String)>;

fn status_of(r: Result<Response<Box<dyn Read>>, HttpResolverError>) -> Out {
    match r {
        Ok(resp) => Ok(resp.status().as_u16()),
        Err(e) => Err((err_kind(&e), e.to_string())),
    }
}

fn run_sdk(c: &Case, req: Request<Vec<u8>>, mock: Arc<Mock>, selftest: &Option<String>) -> Result<Out, String> {
    let c = c.clone();
    let st = selftest.clone();
    vh::catch(move || {
        if let Some(v) = st {
            return match (c.stack, v.as_str()) {
                // allow-list outside the redirect follower: hops are not re-checked
                (1, "firstonly") => status_of(restricted(&c, c2pa::verif_hooks::redirect_resolver_sync(mock, c.allow_redirects)).http_resolve(req)),
                (1, _) => status_of(c2pa::verif_hooks::redirect_resolver_sync(NaiveRestricted { inner: mock, list: c.list.clone(), variant: v }, c.allow_redirects).http_resolve(req)),
                (_, _) => status_of(NaiveRestricted { inner: mock, list: c.list.clone(), variant: v }.http_resolve(req)),
            };
        }
        match (c.stack, c.asynch) {
            (0, false) => status_of(restricted(&c, mock).http_resolve(req)),
            (0, true) => {
                let r = restricted(&c, mock);
                status_of(block(r.http_resolve_async(req)))
            }
            (1, false) => status_of(c2pa::verif_hooks::redirect_resolver_sync(restricted(&c, mock), c.allow_redirects).http_resolve(req)),
            (1, true) => {
                let r = c2pa::verif_hooks::redirect_resolver_async(restricted(&c, mock), c.allow_redirects);
                status_of(block(r.http_resolve_async(req)))
            }
            (_, asynch) => {
                // the real Context; only ever called for requests the reference refuses
                let settings = serde_json::json!({"core": {"allowed_network_hosts": c.list.clone().unwrap_or_default(), "allow_redirects": c.allow_redirects}});
                let ctx = match c2pa::Context::new().with_settings(settings) {
                    Ok(ctx) => ctx,
                    Err(e) => return Err(("settings-rejected", e.to_string())),
                };
                if asynch {
                    let r = ctx.resolver_async();
                    status_of(block(r.http_resolve_async(req)))
                } else {
                    status_of(ctx.resolver().http_resolve(req))
                }
            }
        }
    })
}

// =====================================================================================================
// judge
// =====================================================================================================

fn related(list: &Option<Vec<String>>, host: &str) -> bool {
    let h = host.to_ascii_lowercase();
    let h = h.trim_matches('.');
    list.iter().flatten().filter_map(|t| parse_pattern(t)).filter_map(|p| p.host).any(|ph| !h.is_empty() && (h.contains(&ph) || ph.contains(h)))
}

fn judge(run: &Run, c: &Case, selftest: &Option<String>) -> CaseResult {
    let text = c.uri.render();
    let uri: http::Uri = match text.parse() {
        Ok(u) => u,
        Err(_) => {
            run.count("generator_rejected:not-a-uri");
            return Ok(());
        }
    };
    if uri.scheme().is_none() || uri.host().is_none() {
        run.count("generator_rejected:not-absolute");
        return Ok(());
    }
    // the generated components and the harness's strict parse of the rendered text must agree (harness sanity)
    let comps = Authority { scheme: c.uri.scheme.to_ascii_lowercase(), host: c.uri.host.clone(), port: c.uri.port.clone().filter(|p| !p.is_empty()), odd: false };
    match strict_parse(&text) {
        Some(a) if a == comps => {}
        other => {
            run.count("generator_rejected:strict-parse-differs");
            run.note(format!("harness: strict parse of {text:?} gives {other:?}, components {comps:?}"));
            return Ok(());
        }
    }
    let verdict = reference(&c.list, &comps);
    if c.stack == 2 && verdict != Verdict::Refused {
        run.count("context_stack_skipped(request would use the network)");
        return Ok(());
    }
    let Ok(req) = Request::get(uri.clone()).header("accept", "*/*").body(Vec::new()) else {
        run.count("generator_rejected:request");
        return Ok(());
    };
    let mock = Mock::new(if c.stack == 2 { vec![] } else { c.script.clone() });
    let out = match run_sdk(c, req, mock.clone(), selftest) {
        Ok(o) => o,
        Err(p) => {
            run.count("result_panic");
            run.note(format!("SDK panicked ({}) on {}", vh::core::panic_site(&p), serde_json::to_string(c).unwrap_or_default()));
            return Ok(());
        }
    };
    let hist = mock.history();

    // ---- coverage ---------------------------------------------------------------------------------
    run.count(&format!("stack_{}_{}", c.stack, if c.asynch { "async" } else { "sync" }));
    run.count(match &c.list {
        None => "list_none",
        Some(l) if l.is_empty() => "list_empty",
        Some(_) => "list_patterns",
    });
    let vlabel = match &verdict {
        Verdict::Allowed => "allowed".to_string(),
        Verdict::Refused => "refused".to_string(),
        Verdict::Unclear(r) => format!("unclear({r})"),
    };
    run.count(&format!("top_level:{vlabel}:{}", if hist.is_empty() { "kept-from-transport" } else { "reached-transport" }));
    match &out {
        Ok(_) => run.count("result_ok"),
        Err((k, _)) => run.count(&format!("result_err:{k}")),
    }
    let is_related = related(&c.list, &c.uri.host);
    if is_related && c.list.is_some() {
        run.nontrivial(c);
    }
    if is_related {
        run.count(&format!("related_host:{vlabel}"));
    }

    // ---- top-level request --------------------------------------------------------------------------
    if let Err(("settings-rejected", m)) = &out {
        run.count("context_settings_rejected");
        run.note(format!("settings rejected: {m}"));
        return Ok(());
    }
    match &verdict {
        Verdict::Allowed => {
            if hist.is_empty() {
                return Err(Fail::new("C26:allowed-request-refused", format!("{text} matches the list {:?} under the documented rules but did not reach the transport: {out:?}", c.list)));
            }
            if hist[0] != uri.to_string() {
                return Err(Fail::new("C26:first-request-differs", format!("asked for {text}, transport saw {}", hist[0])));
            }
        }
        Verdict::Refused => {
            if !hist.is_empty() {
                return Err(Fail::new("C26:refused-request-reached-transport", format!("{text} matches no pattern of {:?} but reached the transport", c.list)));
            }
            match &out {
                Err(("UriDisallowed", _)) => {}
                other => return Err(Fail::new("C26:refused-request-wrong-result", format!("{text} matches no pattern of {:?}; expected UriDisallowed, got {other:?}", c.list))),
            }
        }
        Verdict::Unclear(_) => {}
    }
    // ---- every later request (redirect hops) ----------------------------------------------------------
    for (i, h) in hist.iter().enumerate().skip(1) {
        let Some(a) = strict_parse(h) else {
            return Err(Fail::new("C26:hop-uri-not-a-strict-authority", format!("request {i} went to {h:?}, which has no strictly parsable scheme://host[:port], although an allow-list is configured: {:?}", c.list)));
        };
        if a.scheme.is_empty() {
            run.count("hop_uri_in_authority_form");
        }
        match reference(&c.list, &a) {
            Verdict::Refused if a.odd => run.count("hop:unclear(authority-form-with-non-numeric-port):reached-transport"),
            Verdict::Allowed => run.count("hop:allowed:reached-transport"),
            Verdict::Unclear(r) => run.count(&format!("hop:unclear({r}):reached-transport")),
            Verdict::Refused => {
                return Err(Fail::new("C26:refused-hop-reached-transport", format!("redirect hop {i} to {h} matches no pattern of {:?} but reached the transport (Location {:?})", c.list, c.script.get(i - 1))));
            }
        }
    }
    // coverage: what ended the exchange (uses the url crate, never part of the verdict)
    if c.stack == 1 && !hist.is_empty() && out.is_err() {
        let last = hist.len() - 1;
        if let Some(Resp { status, location: Some(loc) }) = c.script.get(last) {
            if (300..400).contains(status) {
                let v = match url::Url::parse(&hist[last]).and_then(|b| b.join(loc)) {
                    Ok(u) => match strict_parse(u.as_str()) {
                        Some(a) => match reference(&c.list, &a) {
                            Verdict::Allowed => "allowed",
                            Verdict::Refused => "refused",
                            Verdict::Unclear(_) => "unclear",
                        },
                        None => "no-authority",
                    },
                    Err(_) => "url-join-error",
                };
                run.count(&format!("hop_not_sent:reference-{v}:{}", out.as_ref().err().map(|e| e.0).unwrap_or("")));
            }
        }
    }
    Ok(())
}

// =====================================================================================================
// generators
// =====================================================================================================

const HOSTS: &[&str] = &[
    "example.org",
    "contentauthenticity.org",
    "cai.test",
    "a.b.example.org",
    "192.0.2.1",
    "93.184.216.34",
    "xn--bcher-kva.example",
    "localhost",
    "127.0.0.1",
    "example.com",
];

const ODD_PATTERNS: &[&str] = &[
    "",
    "https://",
    "http://",
    "HTTPS://",
    // outside the documented grammar
    "[::1]",
    "[::1]:8080",
    "example.org/path",
    "ftp://example.org",
    ":8080",
    "*.",
    "*example.org",
    "https://:443",
    "example.org:",
    "*.192.0.2.1",
    "example.org:080",
    "*.*.example.org",
    "exa*.org",
];

fn mixcase(s: &str, mask: u32) -> String {
    s.chars().enumerate().map(|(i, ch)| if (mask >> (i % 32)) & 1 == 1 { ch.to_ascii_uppercase() } else { ch }).collect()
}

#[derive(Clone, Debug)]
struct PatSpec {
    odd: u8,
    scheme: u8,
    wildcard: bool,
    host: u8,
    port: u8,
    mask: u32,
}

fn render_pattern(p: &PatSpec) -> String {
    if p.odd < 3 {
        // scheme-only / empty (first four entries)
        return ODD_PATTERNS[(p.odd as usize + p.host as usize) % 4].to_string();
    }
    if p.odd < 5 {
        return ODD_PATTERNS[4 + (p.mask as usize % (ODD_PATTERNS.len() - 4))].to_string();
    }
    let host = HOSTS[p.host as usize % HOSTS.len()];
    let is_ip = host.split('.').all(|l| l.bytes().all(|b| b.is_ascii_digit()));
    let s = format!(
        "{}{}{}{}",
        ["", "", "https://", "http://"][p.scheme as usize % 4],
        if p.wildcard && !is_ip { "*." } else { "" },
        host,
        ["", "", "", ":443", ":80", ":8080", ":8443"][p.port as usize % 7]
    );
    // most patterns in plain lower case, some in mixed case
    if p.mask % 4 == 0 {
        mixcase(&s, p.mask >> 2)
    } else {
        s
    }
}

#[derive(Clone, Debug)]
struct UriSpec {
    target: u8,
    scheme: u8,
    userinfo: u8,
    host: u8,
    port: u8,
    tail: u8,
    mask: u32,
}

const HOST_VARIANTS: u8 = 18;

fn render_uri(u: &UriSpec, list: &Option<Vec<String>>) -> UriParts {
    // derive the URI from one of the configured patterns so that near-misses are the common case
    let pats: Vec<Pat> = list.iter().flatten().filter_map(|t| parse_pattern(t)).filter(|p| p.host.is_some()).collect();
    let (ph, pport, pscheme, pwild) = if pats.is_empty() {
        (HOSTS[u.target as usize % HOSTS.len()].to_string(), None, None, false)
    } else {
        let p = &pats[u.target as usize % pats.len()];
        (p.host.clone().unwrap(), p.port.clone(), p.scheme.clone(), p.wildcard)
    };
    let is_ip = ph.split('.').all(|l| l.bytes().all(|b| b.is_ascii_digit()));
    // for a wildcard pattern the "natural" host is a sub-domain
    // half of the draws take the host form the pattern is meant for
    let hv = if u.host >= HOST_VARIANTS { u8::from(pwild) } else if pwild && u.host == 0 { 1 } else { u.host };
    let host = match hv {
        0 => ph.clone(),
        1 => format!("sub.{ph}"),
        2 => format!("a.b.{ph}"),
        3 => ph.split_once('.').map(|x| x.1.to_string()).unwrap_or_else(|| "org".to_string()),
        4 => format!("fake{ph}"),
        5 => format!("{ph}.evil.test"),
        6 => format!("{ph}."),
        7 => format!("sub.{ph}."),
        8 => format!(".{ph}"),
        9 => format!("sub-{ph}"),
        10 => "unrelated.test".to_string(),
        11 => {
            let mut s = ph.clone();
            let last = s.pop().unwrap_or('x');
            s.push(if last == 'x' { 'y' } else { 'x' });
            s
        }
        12 => format!("sub..{ph}"),
        13 => {
            if is_ip {
                format!("{ph}.1")
            } else {
                format!("{ph}.{ph}")
            }
        }
        14 => {
            if is_ip {
                format!("1.{ph}")
            } else {
                format!("x{ph}.{ph}")
            }
        }
        15 => ["[::1]", "[2001:db8::1]", "[::ffff:192.0.2.1]"][u.target as usize % 3].to_string(),
        16 => ph.replace('.', "-"),
        _ => format!("{}.sub.{ph}", ph.split('.').next().unwrap_or("w")),
    };
    let host = if u.mask % 3 == 0 { mixcase(&host, u.mask >> 2) } else { host };
    let scheme_l = match u.scheme % 8 {
        0 | 1 | 2 => pscheme.clone().unwrap_or_else(|| "https".to_string()),
        3 => match pscheme.as_deref() {
            Some("https") => "http".to_string(),
            Some("http") => "https".to_string(),
            _ => "http".to_string(),
        },
        4 => pscheme.clone().unwrap_or_else(|| "https".to_string()).to_ascii_uppercase(),
        5 => "ftp".to_string(),
        6 => "Https".to_string(),
        _ => "ws".to_string(),
    };
    let default_port = if scheme_l.eq_ignore_ascii_case("https") { "443" } else { "80" };
    let port = match u.port % 20 {
        0 | 1 | 2 | 3 | 12..=19 => pport.clone(),
        4 => None,
        5 => Some(default_port.to_string()),
        6 => Some("8081".to_string()),
        7 => Some(format!("0{}", pport.clone().unwrap_or_else(|| default_port.to_string()))),
        8 => Some(String::new()),
        9 => Some("99999".to_string()),
        10 => Some(pport.clone().map(|p| format!("{p}0")).unwrap_or_else(|| "65535".to_string())),
        _ => Some("0".to_string()),
    };
    let userinfo = match u.userinfo % 10 {
        0..=4 => None,
        5 => Some("user".to_string()),
        6 => Some("user:pw".to_string()),
        7 => Some(ph.clone()),
        8 => Some(format!("{ph}:{}", pport.clone().unwrap_or_else(|| "443".to_string()))),
        _ => Some(format!("a@{ph}")),
    };
    let tail = match u.tail % 10 {
        0 | 1 => "/".to_string(),
        2 => String::new(),
        3 => "/path?q=1".to_string(),
        4 => format!("/@{ph}/"),
        5 => format!("?@{ph}"),
        6 => format!("#@{ph}"),
        7 => format!("/..//{ph}/"),
        8 => format!("/?next=https://{ph}/"),
        _ => format!("/{ph}:443"),
    };
    UriParts { scheme: scheme_l, userinfo, host, port, tail }
}

fn pat_strategy() -> impl Strategy<Value = PatSpec> {
    (0u8..100, 0u8..4, any::<bool>(), 0u8..HOSTS.len() as u8, 0u8..7, any::<u32>()).prop_map(|(odd, scheme, wildcard, host, port, mask)| PatSpec { odd, scheme, wildcard, host, port, mask })
}

fn uri_strategy() -> impl Strategy<Value = UriSpec> {
    (0u8..16, 0u8..8, 0u8..10, 0u8..2 * HOST_VARIANTS, 0u8..20, 0u8..10, any::<u32>()).prop_map(|(target, scheme, userinfo, host, port, tail, mask)| UriSpec { target, scheme, userinfo, host, port, tail, mask })
}

fn case_strategy() -> impl Strategy<Value = Case> {
    (
        (0u8..100, any::<bool>(), 0u8..3, 0u8..100, 0u8..100),
        (0usize..24, proptest::collection::vec(pat_strategy(), 5)),
        uri_strategy(),
        proptest::collection::vec((0u8..100, 0u8..10, uri_strategy()), 0..4),
    )
        .prop_map(|((stack_roll, asynch, ctor, allow_roll, none_roll), (npat, pats), uri, hops)| {
            // list length: 0 (rare), then 1..5
            let npat = if npat == 0 { 0 } else { 1 + (npat - 1) % 5 };
            let pats = &pats[..npat];
            let list = if none_roll < 4 { None } else { Some(pats.iter().map(render_pattern).collect::<Vec<_>>()) };
            let stack = if stack_roll < 45 {
                0
            } else if stack_roll < 96 {
                1
            } else {
                2
            };
            let uri = render_uri(&uri, &list);
            let script = hops
                .iter()
                .map(|(roll, kind, u)| {
                    let target = render_uri(u, &list);
                    if *roll < 80 || stack != 1 {
                        let recode = |full_width: bool| {
                            // first host character percent-encoded (optionally as its full-width form, which IDNA maps back)
                            let mut t = target.clone();
                            if let Some(ch) = t.host.chars().next().filter(|c| c.is_ascii_alphanumeric()) {
                                let enc: String = if full_width {
                                    char::from_u32(ch as u32 - 0x20 + 0xFF00).unwrap_or(ch).to_string().bytes().map(|b| format!("%{b:02X}")).collect()
                                } else {
                                    format!("%{:02X}", ch as u32)
                                };
                                t.host = format!("{enc}{}", &t.host[1..]);
                            }
                            t.render()
                        };
                        let loc = match kind % 10 {
                            8 => format!("mailto:a@{}", target.host),
                            9 => format!("{}:{}", target.host, target.port.clone().unwrap_or_else(|| "alert(1)".to_string())),
                            6 => recode(false),
                            7 => recode(true),
                            0 | 1 | 2 => target.render(),
                            3 => ["/next", "next", "?again=1", "../up"][u.tail as usize % 4].to_string(),
                            4 => target.render().split_once(':').map(|x| x.1.to_string()).unwrap_or_default(),
                            _ => target.render().replacen("://", ":/\\", 1),
                        };
                        Resp { status: [302u16, 301, 307, 308, 303][u.scheme as usize % 5], location: Some(loc) }
                    } else {
                        Resp { status: [200u16, 404, 304][u.scheme as usize % 3], location: None }
                    }
                })
                .collect();
            Case { stack, asynch, ctor, allow_redirects: allow_roll < 92, list, uri, script }
        })
}

fn main() {
    vh::quiet_panics();
    let run = Run::from_args("C26", "exploration");
    let selftest = std::env::var("VERIF_SELFTEST").ok().filter(|s| !s.is_empty());
    if let Some(s) = &selftest {
        run.note(format!("SELF-TEST: the SDK allow-list is replaced by a deliberately wrong one ({s}); a violation is the expected outcome"));
    }
    run.set_rule("case = (stack: RestrictedResolver alone | RedirectResolver(RestrictedResolver(mock)) as Context wires it | real Context from settings for refused requests; sync|async; constructor variant; allow-list None | 0..5 patterns from the documented grammar [http(s)://][*.]host[:port] in mixed case over 10 host names / IP addresses with ports 80/443/8080/8443, plus scheme-only, empty and out-of-grammar patterns (12%); a URI derived from one configured pattern: scheme same/other/upper-case/ftp/ws, userinfo none/user/user:pw/<allowed host>/<allowed host:port>/a@<allowed host>, host exact / sub / a.b. / parent / fake-prefix / .evil.test suffix / trailing dot / leading dot / sub- / double dot / IPv4 neighbours / IPv6 literal / mixed case, port same / none / default / other / leading zero / empty / out of range, tails carrying @host, ?@host, #@host; for the redirect stack 0..3 scripted redirects whose Location is again such a URI (absolute, relative, scheme-relative, backslash form)). Non-trivial = an allow-list is configured and the URI host contains, or is contained in, the host of a configured pattern.");
    run.assume("documented rules: case-insensitive; exact host or '*.'-wildcard with a label boundary and a non-empty sub-domain label; scheme must be equal when the pattern has one; the port texts must be equal (both absent counts as equal); a scheme-only pattern matches every URI of that scheme; an empty list refuses everything; no list allows everything");
    run.assume("left open by the documentation, therefore counted but not judged: trailing-dot host forms, an empty label under a wildcard ('.example.org' against '*.example.org'), a wildcard spanning several labels, ports equal only as numbers or not valid port numbers, patterns outside the documented grammar (IPv6 literals, paths, other schemes, wildcards elsewhere)");
    run.assume("the top-level request is an absolute URI that http::Uri parses; redirect hops refused with any error are acceptable");

    // reference self-checks against the documented examples (harness sanity)
    let doc_examples: &[(&str, &str, bool)] = &[
        ("*.contentauthenticity.org", "https://sub.contentauthenticity.org", true),
        ("*.contentauthenticity.org", "http://api.contentauthenticity.org", true),
        ("*.contentauthenticity.org", "https://contentauthenticity.org", false),
        ("*.contentauthenticity.org", "https://sub.fakecontentauthenticity.org", false),
        ("*.contentauthenticity.org", "https://fakecontentauthenticity.org", false),
        ("http://192.0.2.1:8080", "http://192.0.2.1:8080", true),
        ("http://192.0.2.1:8080", "https://192.0.2.1:8080", false),
        ("http://192.0.2.1:8080", "http://192.0.2.1", false),
        ("http://192.0.2.1:8080", "http://192.0.2.2:8080", false),
        ("*.contentAuthenticity.org", "https://tEst.conTentauthenticity.orG", true),
    ];
    for (p, u, want) in doc_examples {
        let got = reference(&Some(vec![p.to_string()]), &strict_parse(u).expect("doc example parses"));
        if (got == Verdict::Allowed) != *want || matches!(got, Verdict::Unclear(_)) {
            run.inconclusive(format!("harness reference disagrees with the documented example {p} vs {u}: {got:?}"));
        }
    }

    run.drive_par("allow_list", run.scale(1_000_000, 20_000_000), run.scale(4, 16), case_strategy(), |c| judge(&run, c, &selftest));
    run.finish();
}
