//! C21 — update manifests cannot alter bound content or carry forbidden parts.
//!
//! case = (asset, 0..2 well-formed update manifests, optional rule-breaker applied last, optional content mutation
//! applied after everything).
//!
//! Oracle (from the property text):
//!  * every well-formed update (BuilderIntent::Update; own custom assertion and/or one of the actions allowed in
//!    update manifests) signs, the output is Valid/Trusted, its active manifest is an update manifest (`c2um` box,
//!    independent walker) and the parent's binding is still enforced (shown by the content mutations: the hard-binding
//!    match code itself is filtered from the top-level report as an already recorded ingredient status);
//!  * a rule-breaker is never reported Valid/Trusted (a sign-time rejection is a pass):
//!      API level  — Update builder with an extra componentOf ingredient, with two parentOf ingredients, without any
//!                   parentOf ingredient, with a componentOf ingredient only, with a disallowed action, with a
//!                   hard-binding assertion in the definition;
//!      byte level — a standard manifest (Create / Edit intent: hard binding present, c2pa.created or c2pa.opened
//!                   [+ c2pa.edited] actions, 0/1 parentOf [+ componentOf]) re-typed as update manifest by changing
//!                   the description-box UUID of the active manifest `c2ma` -> `c2um` (the UUID is covered by no
//!                   signature or hash), store re-embedded with save_jumbf_to_memory (same size);
//!      crafted    — `c2pa::verif_hooks::craft_store`: update manifest with 0 / 2 parentOf ingredient assertions;
//!  * flipping / overwriting a protected media byte after the last step => never Valid/Trusted.

use std::io::Cursor;

use c2pa::{
    verif_hooks::{craft_store, VerifGraphEdge, VerifGraphNode},
    Builder, BuilderIntent, DigitalSourceType,
};
use proptest::prelude::*;
use serde::{Deserialize, Serialize};
use serde_json::{json, Value};
use vh::{jumbf_walk as jw, rng::SplitMix64, sdk, CaseResult, Fail, Run};

/// (kind for the toolkit, source): synthesised or fixture
const ASSETS: [(&str, &str); 10] = [
    ("jpeg", "synth"),
    ("png", "synth"),
    ("mp4", "synth"),
    ("mov", "synth"),
    ("avif", "synth"),
    ("heic", "synth"),
    ("jpeg", "no_manifest.jpg"),
    ("png", "libpng-test.png"),
    ("mp4", "video1_no_manifest.mp4"),
    ("gif", "synth"),
];
/// asset indices of the quick tier (synthesised only)
const QUICK_ASSETS: [u8; 7] = [0, 1, 2, 3, 4, 5, 9];
/// assets bound by a data hash (insertions next to the manifest container apply to these)
const DATA_HASH_ASSETS_QUICK: [u8; 3] = [0, 1, 9];
const DATA_HASH_ASSETS: [u8; 5] = [0, 1, 9, 6, 7];

const ALLOWED_EXTRA: [&str; 3] = ["", "c2pa.published", "c2pa.edited.metadata"];
const DISALLOWED: [&str; 17] = [
    "c2pa.edited", "c2pa.cropped", "c2pa.color_adjustments", "c2pa.resized", "c2pa.filtered", "c2pa.drawing", "c2pa.transcoded", "c2pa.unknown",
    // not in the c2pa namespace: vendor (reverse-DNS) names, names without namespace, names that merely start with "c2pa"
    "com.example.retouch", "org.example.inpaint", "com.adobe.photoshop.liquify", "retouch", ".retouch", "c2paX.foo", "c2pa", "C2PA.published", "c2pa.edited.metadata.extra",
];

fn action_class(a: &str) -> &'static str {
    if a.starts_with("c2pa.") {
        "c2pa-name"
    } else {
        "non-c2pa-name"
    }
}

fn pick_action(variant: u8) -> &'static str {
    DISALLOWED[variant as usize / 2 % DISALLOWED.len()]
}

const BREAKERS: [&str; 14] = [
    "none",
    "api-extra-component-ingredient",
    "api-two-parents",
    "api-no-ingredient",
    "api-component-only",
    "api-disallowed-action",
    "api-hard-binding-assertion",
    "retype-edit-manifest",
    "retype-edit-manifest-with-edited-action",
    "retype-create-manifest",
    "retype-edit-manifest-with-component",
    "craft-update-no-parent",
    "craft-update-two-parents",
    "craft-update-one-parent-unbound",
];

#[derive(Clone, Debug, Serialize, Deserialize, PartialEq, Eq, Hash)]
struct Upd {
    extra_action: u8,
    note: bool,
}

#[derive(Clone, Debug, Serialize, Deserialize, PartialEq, Eq, Hash)]
struct Mutn {
    sel: u32,
    /// 0..8 flip that bit, 8 set 0x00/0xFF, 9 increment
    how: u8,
}

#[derive(Clone, Debug, Serialize, Deserialize, PartialEq, Eq, Hash)]
struct Case {
    asset: u8,
    aseed: u16,
    updates: Vec<Upd>,
    breaker: u8,
    variant: u8,
    mutation: Option<Mutn>,
}

fn family(kind: &str) -> &'static str {
    match kind {
        "jpeg" | "png" | "gif" => "data-hash",
        _ => "bmff-hash",
    }
}

fn source(asset: usize, aseed: u16) -> (String, &'static str, Vec<u8>) {
    let (kind, src) = ASSETS[asset % ASSETS.len()];
    let fmt = vh::assets::kind_format(kind).0;
    if src == "synth" {
        let mut r = SplitMix64::new(0xC21 ^ ((aseed as u64) << 12) ^ asset as u64);
        (kind.to_string(), fmt, vh::assets::synth(kind, &mut r, 1500).bytes)
    } else {
        (kind.to_string(), fmt, sdk::fixture(src))
    }
}

fn cgi() -> Value {
    json!([{"name": "verif-harness", "version": "0.1"}])
}

struct Spec<'a> {
    fmt: &'a str,
    src: &'a [u8],
    def: Value,
    intent: BuilderIntent,
    /// (ingredient json, format, bytes)
    ingredients: Vec<(Value, String, Vec<u8>)>,
    verify_after_sign: bool,
}

fn sign(s: &Spec) -> c2pa::Result<Vec<u8>> {
    let mut st = sdk::base_settings(true);
    if !s.verify_after_sign {
        sdk::merge(&mut st, &json!({"verify": {"verify_after_sign": false}}));
    }
    let mut b = Builder::from_context(sdk::context_with(&st)).with_definition(s.def.to_string())?;
    b.set_intent(s.intent.clone());
    for (j, f, bytes) in &s.ingredients {
        b.add_ingredient_from_stream(j.to_string(), f, &mut Cursor::new(bytes.clone()))?;
    }
    let signer = sdk::signer("ed25519");
    let mut src = Cursor::new(s.src.to_vec());
    let mut dst = Cursor::new(Vec::new());
    b.sign(signer.as_ref(), s.fmt, &mut src, &mut dst)?;
    Ok(dst.into_inner())
}

fn update_def(i: usize, u: &Upd) -> Value {
    let mut assertions = vec![];
    if u.note {
        assertions.push(json!({"label": "org.verif.c21.note", "data": {"update": i}}));
    }
    let extra = ALLOWED_EXTRA[u.extra_action as usize % ALLOWED_EXTRA.len()];
    if !extra.is_empty() {
        assertions.push(json!({"label": "c2pa.actions", "data": {"actions": [{"action": extra}]}}));
    }
    json!({"title": format!("c21 update {i}"), "claim_generator_info": cgi(), "assertions": assertions})
}

/// Is the active manifest (last manifest box of the store) an update manifest box?
fn active_box_tag(fmt: &str, bytes: &[u8], active: &str) -> Option<String> {
    let store = sdk::store_of(fmt, bytes).ok()?;
    let boxes = jw::walk_store(&store).ok()?;
    boxes.iter().find(|b| b.is(&jw::T_JUMB) && b.depth == 1 && b.label.as_deref() == Some(active)).and_then(|b| b.uuid_tag())
}

fn binding_verified(v: &sdk::Verdict) -> bool {
    v.codes.iter().any(|c| c.starts_with("S:assertion.dataHash.match") || c.starts_with("S:assertion.bmffHash.match") || c.starts_with("S:assertion.boxesHash.match"))
}

/// Top-level BMFF boxes (type, start, end, header length).
fn bmff_top(b: &[u8]) -> Vec<(String, usize, usize, usize)> {
    let mut out = vec![];
    let mut p = 0usize;
    while p + 8 <= b.len() {
        let sz32 = u32::from_be_bytes([b[p], b[p + 1], b[p + 2], b[p + 3]]) as u64;
        let ty = String::from_utf8_lossy(&b[p + 4..p + 8]).to_string();
        let (size, hl) = if sz32 == 1 {
            if p + 16 > b.len() {
                break;
            }
            (u64::from_be_bytes(b[p + 8..p + 16].try_into().unwrap()), 16)
        } else if sz32 == 0 {
            ((b.len() - p) as u64, 8)
        } else {
            (sz32, 8)
        };
        if size < hl as u64 || p as u64 + size > b.len() as u64 {
            break;
        }
        out.push((ty, p, p + size as usize, hl));
        p += size as usize;
    }
    out
}

/// Byte positions that the hard binding certainly protects.
fn protected_positions(kind: &str, bytes: &[u8]) -> Vec<(usize, usize)> {
    if family(kind) == "data-hash" {
        let spans = vh::walk::manifest_spans(kind, bytes).unwrap_or_default();
        if spans.is_empty() {
            return vec![];
        }
        let mut v = vec![];
        let mut p = 0usize;
        let mut sp: Vec<(usize, usize)> = spans.iter().map(|(s, l)| (*s, s + l)).collect();
        sp.sort();
        for (s, e) in sp {
            if s > p {
                v.push((p, s));
            }
            p = p.max(e);
        }
        if p < bytes.len() {
            v.push((p, bytes.len()));
        }
        v
    } else {
        // media data and the movie / meta boxes are never excluded by the default BMFF exclusions
        bmff_top(bytes).into_iter().filter(|(t, _, _, _)| t == "mdat").filter(|(_, s, e, hl)| e - s > *hl).map(|(_, s, e, hl)| (s + hl, e)).collect()
    }
}

fn ascii_filler(n: usize, seed: u32) -> Vec<u8> {
    let mut r = SplitMix64::new(seed as u64 ^ 0xF111);
    (0..n).map(|_| b'a' + (r.below(26) as u8)).collect()
}

/// A well-formed, ignorable structure of the container of (about) `len` bytes: JPEG COM / APP13 segment, PNG tEXt /
/// private ancillary chunk with correct CRC, GIF comment / application extension.
fn ignorable_unit(kind: &str, len: usize, alt: bool, seed: u32) -> Option<Vec<u8>> {
    match kind {
        "jpeg" => {
            let len = len.clamp(4, 65_000);
            let mut v = vec![0xff, if alt { 0xed } else { 0xfe }, ((len - 2) >> 8) as u8, ((len - 2) & 0xff) as u8];
            v.extend(ascii_filler(len - 4, seed));
            Some(v)
        }
        "png" => {
            let len = len.max(12);
            let n = len - 12;
            let (ty, data): (&[u8; 4], Vec<u8>) = if alt || n < 2 {
                (b"vrFy", ascii_filler(n, seed))
            } else {
                let mut d = b"k\0".to_vec();
                d.extend(ascii_filler(n - 2, seed));
                (b"tEXt", d)
            };
            let mut v = (data.len() as u32).to_be_bytes().to_vec();
            let mut body = ty.to_vec();
            body.extend(&data);
            v.extend(&body);
            v.extend(vh::assets::crc32(&body).to_be_bytes());
            Some(v)
        }
        "gif" => {
            let mut v = if alt {
                let mut h = vec![0x21, 0xff, 0x0b];
                h.extend_from_slice(b"VERIFHRN1.0");
                h
            } else {
                vec![0x21, 0xfe]
            };
            let data = ascii_filler(len.saturating_sub(v.len() + 2), seed);
            for ch in data.chunks(255) {
                v.push(ch.len() as u8);
                v.extend_from_slice(ch);
            }
            v.push(0);
            Some(v)
        }
        _ => None,
    }
}

/// (mutated bytes, position, description). how < 10: one protected byte changed; how >= 10: a well-formed ignorable unit
/// inserted immediately before (even) or after (odd) the manifest container, length 4..300 from `sel`.
fn mutate(kind: &str, bytes: &[u8], m: &Mutn) -> Option<(Vec<u8>, usize, String)> {
    if m.how >= 10 {
        let before = m.how % 2 == 0;
        let alt = (m.how / 2) % 2 == 1;
        let len = 4 + (m.sel as usize % 297);
        let unit = ignorable_unit(kind, len, alt, m.sel)?;
        let mut spans: Vec<(usize, usize)> = vh::walk::manifest_spans(kind, bytes).ok()?.iter().map(|(s, l)| (*s, s + l)).collect();
        spans.sort();
        let pos = if before { spans.first()?.0 } else { spans.last()?.1 };
        let mut v = bytes.to_vec();
        v.splice(pos..pos, unit.iter().copied());
        return Some((v, pos, format!("inserted:{}:{}", if before { "before-store" } else { "after-store" }, unit.len())));
    }
    let ranges = protected_positions(kind, bytes);
    let total: usize = ranges.iter().map(|(s, e)| e - s).sum();
    if total == 0 {
        return None;
    }
    let mut k = m.sel as usize % total;
    let mut pos = 0;
    for (s, e) in &ranges {
        if k < e - s {
            pos = s + k;
            break;
        }
        k -= e - s;
    }
    let mut v = bytes.to_vec();
    let old = v[pos];
    v[pos] = match m.how {
        b @ 0..=7 => old ^ (1 << b),
        8 => {
            if old == 0 {
                0xff
            } else {
                0
            }
        }
        _ => old.wrapping_add(1),
    };
    Some((v, pos, "byte-changed".into()))
}

enum Outcome {
    /// no asset was produced (sign-time rejection)
    Rejected(String),
    Asset(Vec<u8>),
    /// the breaker could not be built for harness reasons
    Unavailable(String),
}

fn retype_active_as_update(fmt: &str, bytes: &[u8]) -> Result<Vec<u8>, String> {
    let r = sdk::read(fmt, bytes).map_err(|e| format!("read: {e}"))?;
    let active = r.active_label().ok_or("no active label")?.to_string();
    let store = sdk::store_of(fmt, bytes).map_err(|e| e.to_string())?;
    let boxes = jw::walk_store(&store)?;
    let mi = boxes.iter().position(|b| b.is(&jw::T_JUMB) && b.depth == 1 && b.label.as_deref() == Some(active.as_str())).ok_or("active manifest box not found")?;
    if boxes[mi].uuid_tag().as_deref() != Some("c2ma") {
        return Err(format!("active manifest box is {:?}, not c2ma", boxes[mi].uuid_tag()));
    }
    let jumd = *boxes[mi].children.first().ok_or("no description box")?;
    let s1 = jw::apply_edit(&store, &boxes, &jw::Edit::UuidByte { jumd, at: 2, to: b'u' }).ok_or("uuid edit 1")?;
    let s2 = jw::apply_edit(&s1, &boxes, &jw::Edit::UuidByte { jumd, at: 3, to: b'm' }).ok_or("uuid edit 2")?;
    if s2.len() != store.len() {
        return Err("store size changed".into());
    }
    // control: the unmodified store re-embeds to a valid asset
    let ctl = c2pa::jumbf_io::save_jumbf_to_memory(fmt, bytes, &store).map_err(|e| format!("control embed: {e}"))?;
    let rc = sdk::read(fmt, &ctl).map_err(|e| format!("control read: {e}"))?;
    if !sdk::is_valid_or_trusted(&rc) {
        return Err("control re-embedding is not valid".into());
    }
    c2pa::jumbf_io::save_jumbf_to_memory(fmt, bytes, &s2).map_err(|e| format!("embed: {e}"))
}

fn unsigned_png(seed: u64) -> (Value, String, Vec<u8>) {
    let mut r = SplitMix64::new(seed);
    let x = vh::assets::synth("png", &mut r, 500);
    (json!({"title": "component", "relationship": "componentOf"}), x.format.to_string(), x.bytes)
}

fn apply_breaker(run: &Run, c: &Case, kind: &str, fmt: &str, cur: &[u8], original: &[u8]) -> Outcome {
    let name = BREAKERS[c.breaker as usize % BREAKERS.len()];
    let seed = 0xB4EA ^ c.aseed as u64;
    let wrap = |r: Result<c2pa::Result<Vec<u8>>, String>| match r {
        Ok(Ok(b)) => Outcome::Asset(b),
        Ok(Err(e)) => Outcome::Rejected(e.to_string()),
        Err(p) => Outcome::Rejected(format!("panic {p}")),
    };
    let upd = |def: Value, ingredients: Vec<(Value, String, Vec<u8>)>| {
        wrap(vh::catch(|| sign(&Spec { fmt, src: cur, def, intent: BuilderIntent::Update, ingredients, verify_after_sign: c.variant % 2 == 0 })))
    };
    let plain = json!({"title": "c21 breaker", "claim_generator_info": cgi(), "assertions": [{"label": "org.verif.c21.note", "data": {"b": name}}]});
    let opened_only = |extra: Vec<Value>| {
        let mut acts = vec![json!({"action": "c2pa.opened"})];
        acts.extend(extra);
        json!({"title": "c21 breaker", "claim_generator_info": cgi(), "assertions": [{"label": "c2pa.actions", "data": {"actions": acts}}]})
    };
    match name {
        "api-extra-component-ingredient" => upd(plain, vec![unsigned_png(seed)]),
        "api-two-parents" => {
            // a second, independently signed asset of the same format as another parentOf ingredient
            let (_, _, other) = source(c.asset as usize, c.aseed.wrapping_add(7919));
            let other_signed = match sdk::sign_simple(fmt, &other, "c21 other parent") {
                Ok(b) => b,
                Err(e) => return Outcome::Unavailable(format!("second parent: {e}")),
            };
            upd(
                plain,
                vec![
                    (json!({"title": "parent 1", "relationship": "parentOf"}), fmt.to_string(), cur.to_vec()),
                    (json!({"title": "parent 2", "relationship": "parentOf"}), fmt.to_string(), other_signed),
                ],
            )
        }
        "api-no-ingredient" => upd(opened_only(vec![]), vec![]),
        "api-component-only" => upd(opened_only(vec![]), vec![unsigned_png(seed)]),
        "api-disallowed-action" => {
            let a = pick_action(c.variant);
            run.count(&format!("disallowed_action_api:{a}"));
            let mut d = plain.clone();
            d["assertions"].as_array_mut().unwrap().push(json!({"label": "c2pa.actions", "data": {"actions": [{"action": a}]}}));
            upd(d, vec![])
        }
        "api-hard-binding-assertion" => {
            let mut d = plain.clone();
            let label = if family(kind) == "data-hash" || c.variant % 4 < 2 { "c2pa.hash.data" } else { "c2pa.hash.boxes" };
            let data = if label == "c2pa.hash.data" {
                json!({"exclusions": [{"start": 0, "length": 16}], "name": "jumbf manifest", "alg": "sha256", "hash": vec![7u8; 32], "pad": Vec::<u8>::new()})
            } else {
                json!({"boxes": [{"names": ["C2PA"], "hash": vec![0u8; 32], "pad": Vec::<u8>::new()}], "alg": "sha256"})
            };
            d["assertions"].as_array_mut().unwrap().push(json!({"label": label, "data": data}));
            upd(d, vec![])
        }
        "retype-edit-manifest" | "retype-edit-manifest-with-edited-action" | "retype-edit-manifest-with-component" | "retype-create-manifest" => {
            let base: Result<c2pa::Result<Vec<u8>>, String> = if name == "retype-create-manifest" {
                // the base manifest itself (Create intent): only meaningful without earlier updates
                vh::catch(|| sign(&Spec { fmt, src: original, def: plain.clone(), intent: BuilderIntent::Create(DigitalSourceType::Empty), ingredients: vec![], verify_after_sign: true }))
            } else {
                let mut d = plain.clone();
                if name == "retype-edit-manifest-with-edited-action" {
                    let a = pick_action(c.variant);
                    run.count(&format!("disallowed_action_retyped:{a}"));
                    d["assertions"].as_array_mut().unwrap().push(json!({"label": "c2pa.actions", "data": {"actions": [{"action": a}]}}));
                }
                let ing = if name == "retype-edit-manifest-with-component" { vec![unsigned_png(seed)] } else { vec![] };
                vh::catch(|| sign(&Spec { fmt, src: cur, def: d, intent: BuilderIntent::Edit, ingredients: ing, verify_after_sign: true }))
            };
            let signed = match base {
                Ok(Ok(b)) => b,
                other => return Outcome::Unavailable(format!("standard manifest for re-typing could not be signed: {:?}", other.map(|r| r.map(|_| ()).map_err(|e| e.to_string())))),
            };
            match sdk::read(fmt, &signed) {
                Ok(r) if sdk::is_valid_or_trusted(&r) => {}
                _ => return Outcome::Unavailable("standard manifest for re-typing is not valid".into()),
            }
            match vh::catch(|| retype_active_as_update(fmt, &signed)) {
                Ok(Ok(b)) => Outcome::Asset(b),
                Ok(Err(e)) => Outcome::Unavailable(e),
                Err(p) => Outcome::Unavailable(format!("panic {p}")),
            }
        }
        _ => {
            // crafted stores through the C19 hook
            let edge = |t: usize| VerifGraphEdge { target: t, relationship: 0, version: 3, bogus_hash: false };
            let normal = || VerifGraphNode { update_manifest: false, claim_version: 2, edges: vec![] };
            let nodes = match name {
                "craft-update-no-parent" => vec![normal(), VerifGraphNode { update_manifest: true, claim_version: 2, edges: vec![] }],
                "craft-update-two-parents" => vec![normal(), normal(), VerifGraphNode { update_manifest: true, claim_version: 2, edges: vec![edge(0), edge(1)] }],
                _ => vec![normal(), VerifGraphNode { update_manifest: true, claim_version: 2, edges: vec![edge(0)] }],
            };
            let order: Vec<usize> = (0..nodes.len()).collect();
            let mut st = sdk::base_settings(true);
            sdk::merge(&mut st, &json!({"verify": {"verify_after_sign": false}}));
            let ctx = sdk::context_with(&st);
            let signer = sdk::signer("ed25519");
            match vh::catch(|| craft_store(&nodes, &order, fmt, original, signer.as_ref(), &ctx)) {
                Ok(Ok(cs)) => Outcome::Asset(cs.asset),
                Ok(Err(e)) => Outcome::Rejected(e.to_string()),
                Err(p) => Outcome::Rejected(format!("panic {p}")),
            }
        }
    }
}

fn read_state(fmt: &str, bytes: &[u8]) -> (String, Option<c2pa::Reader>) {
    match vh::catch(|| sdk::read(fmt, bytes)) {
        Ok(Ok(r)) => (sdk::state_name(r.validation_state()).to_string(), Some(r)),
        Ok(Err(_)) => ("Err".into(), None),
        Err(p) => (format!("panic:{}", vh::core::panic_site(&p)), None),
    }
}

fn judge(run: &Run, c: &Case) -> CaseResult {
    let (kind, fmt, original) = source(c.asset as usize, c.aseed);
    let fam = family(&kind);
    let alabel = format!("{}-{}", kind, if ASSETS[c.asset as usize % ASSETS.len()].1 == "synth" { "synth" } else { "fixture" });
    run.count(&format!("asset_{alabel}"));
    let base = match vh::catch(|| sdk::sign_simple(fmt, &original, "c21 base")) {
        Ok(Ok(b)) => b,
        other => {
            run.count("generator_rejected_base");
            run.note(format!("base signing failed for {alabel} seed {}: {:?}", c.aseed, other.map(|r| r.map(|_| ()).map_err(|e| e.to_string()))));
            return Ok(());
        }
    };
    let (st, _) = read_state(fmt, &base);
    if st != "Trusted" && st != "Valid" {
        run.count("generator_rejected_base_not_valid");
        return Ok(());
    }
    let mut cur = base;
    run.count(&format!("updates_{}", c.updates.len()));
    for (i, u) in c.updates.iter().enumerate() {
        let out = vh::catch(|| sign(&Spec { fmt, src: &cur, def: update_def(i, u), intent: BuilderIntent::Update, ingredients: vec![], verify_after_sign: true }));
        let bytes = match out {
            Ok(Ok(b)) => b,
            Ok(Err(e)) => {
                // The property only says when an update manifest may be reported Valid; an update that the SDK cannot
                // write for some container layout is not its subject (recorded; the run is inconclusive when this is common).
                run.count(&format!("wellformed_update_sign_rejected:{kind}"));
                let layout: Vec<String> = if fam == "bmff-hash" { bmff_top(&cur).iter().map(|(t, s, e, _)| format!("{t}@{s}+{}", e - s)).collect() } else { vec![] };
                let last_to_eof = fam == "bmff-hash" && bmff_top(&cur).last().map(|(_, s, _, _)| cur[*s..*s + 4] == [0, 0, 0, 0]).unwrap_or(false);
                run.count(if last_to_eof { "wellformed_update_sign_rejected:last-box-has-size-0" } else { "wellformed_update_sign_rejected:other-layout" });
                run.note(format!("update {i} ({u:?}) on {alabel} seed {} rejected at sign: {e}; top-level boxes {layout:?}", c.aseed));
                return Ok(());
            }
            Err(p) => return Err(Fail::new(format!("C21:wellformed-update-sign-panic:{}", vh::core::panic_site(&p)), p)),
        };
        let (st, r) = read_state(fmt, &bytes);
        let Some(r) = r else {
            return Err(Fail::new(format!("C21:wellformed-update-unreadable:{fam}"), format!("update {i} ({u:?}) on {alabel}: read gives {st}")));
        };
        if !sdk::is_valid_or_trusted(&r) {
            let codes = sdk::failure_codes(&r);
            return Err(Fail::new(
                format!("C21:wellformed-update-not-valid:{fam}:{}", codes.first().cloned().unwrap_or_default()),
                format!("update {i} ({u:?}) on {alabel} (seed {}): {st}, failures {codes:?}", c.aseed),
            ));
        }
        let v = sdk::verdict(&r);
        // The match code of the parent's binding is part of the parent's recorded validation results and therefore
        // filtered from the top-level report (delta reporting): recorded only; the enforcement of the binding is
        // decided by the content mutations below.
        run.count(if binding_verified(&v) { "binding_match_code_reported" } else { "binding_match_code_filtered" });
        let tag = active_box_tag(fmt, &bytes, r.active_label().unwrap_or(""));
        if tag.as_deref() != Some("c2um") {
            return Err(Fail::new(format!("C21:update-intent-did-not-write-update-manifest:{fam}"), format!("active manifest box type is {tag:?}")));
        }
        run.count(&format!("wellformed_update_ok_{fam}"));
        cur = bytes;
    }

    let bname = BREAKERS[c.breaker as usize % BREAKERS.len()];
    let mut subject = cur.clone();
    if bname != "none" {
        run.nontrivial(c);
        match apply_breaker(run, c, &kind, fmt, &cur, &original) {
            Outcome::Rejected(e) => {
                run.count(&format!("breaker_{bname}:rejected_at_sign"));
                let _ = e;
                return Ok(());
            }
            Outcome::Unavailable(e) => {
                run.count(&format!("breaker_{bname}:unavailable"));
                run.note(format!("breaker {bname} unavailable on {alabel}: {e}"));
                return Ok(());
            }
            Outcome::Asset(b) => {
                let (st, r) = read_state(fmt, &b);
                run.count(&format!("breaker_{bname}:{fam}:{st}"));
                if bname == "craft-update-one-parent-unbound" {
                    // record only: the crafted parent carries no hard binding, the property does not decide this one
                } else if st == "Valid" || st == "Trusted" {
                    let tag = r.as_ref().and_then(|r| active_box_tag(fmt, &b, r.active_label().unwrap_or("")));
                    return Err(Fail::new(
                        if bname == "api-disallowed-action" || bname == "retype-edit-manifest-with-edited-action" { format!("C21:rule-breaker-reported-valid:{bname}:{}", action_class(pick_action(c.variant))) } else { format!("C21:rule-breaker-reported-valid:{bname}") },
                        format!("{bname} on {alabel} (seed {}, {} earlier updates, variant {} [action {}], active box {tag:?}) reads {st}", c.aseed, c.updates.len(), c.variant, pick_action(c.variant)),
                    ));
                }
                subject = b;
            }
        }
    }

    if let Some(m) = &c.mutation {
        if !c.updates.is_empty() || bname != "none" {
            run.nontrivial(c);
        }
        if std::env::var("VERIF_SELFTEST").ok().as_deref() == Some("nomutation") {
            // sensitivity self-test: judge the unmutated asset as if it had been mutated
            let (st, _) = read_state(fmt, &subject);
            if st == "Valid" || st == "Trusted" {
                return Err(Fail::new(format!("C21:content-change-after-update-valid:{fam}"), "selftest: unmutated asset judged as mutated".to_string()));
            }
            return Ok(());
        }
        match mutate(&kind, &subject, m) {
            None => run.count(if m.how >= 10 { "insertion_not_applicable" } else { "mutation_no_protected_bytes" }),
            Some((mutated, pos, desc)) => {
                let (st, rr) = read_state(fmt, &mutated);
                let ins = desc.starts_with("inserted");
                if ins {
                    let mut codes = rr.as_ref().map(sdk::failure_codes).unwrap_or_default();
                    codes.dedup();
                    run.count(&format!("insertion_{kind}_{}_codes[{}]", if c.updates.is_empty() { "no-update" } else { "with-update" }, codes.join("+")));
                }
                let dclass = desc.rsplitn(2, ':').last().unwrap_or("").to_string();
                run.count(&format!("{}_after_{}_{}:{}", if ins { dclass.as_str() } else { "mutation" }, c.updates.len(), if bname == "none" { "wellformed" } else { "breaker" }, st.split(':').next().unwrap_or("")));
                if st == "Valid" || st == "Trusted" {
                    let sig = if ins {
                        format!("C21:content-{dclass}-valid:{}{}", if c.updates.is_empty() { "no-update-manifest" } else { "with-update-manifest" }, if bname == "none" { String::new() } else { format!(":{bname}") })
                    } else {
                        format!("C21:content-change-after-update-valid:{fam}{}", if bname == "none" { String::new() } else { format!(":{bname}") })
                    };
                    return Err(Fail::new(
                        sig,
                        format!("{desc} at byte {pos} of {alabel} (seed {}, {} updates, breaker {bname}, {:?}) and the asset still reads {st}", c.aseed, c.updates.len(), m),
                    ));
                }
            }
        }
    }
    Ok(())
}

fn main() {
    vh::quiet_panics();
    let run = Run::from_args("C21", "exploration");
    run.set_rule("case = (asset: synthesised jpeg/png/gif/mp4/mov/avif/heic or fixture jpeg/png/mp4, signed with a Create manifest; 0..2 well-formed update manifests through BuilderIntent::Update with optional custom assertion and optional allowed action; optional rule-breaker (6 Update-builder misuses, 4 standard manifests re-typed c2ma->c2um at byte level, 3 craft_store graphs); optional content mutation after the last step: one protected media byte changed, or a well-formed ignorable unit of 4..300 bytes (JPEG COM/APP13 segment, PNG tEXt/private chunk with CRC, GIF comment/application extension) inserted immediately before or after the manifest container). Disallowed action names cover c2pa.* and names outside the c2pa namespace. Non-trivial = a rule-breaker, or a content mutation after at least one update.");
    run.assume("protected bytes: data hash = every byte outside the manifest container located by the independent walker; BMFF = payload bytes of top-level mdat boxes (never excluded by the default exclusions, Merkle off)");
    run.assume("a sign-time rejection of a rule-breaker counts as 'never reported Valid'; craft-update-one-parent-unbound is recorded only (its parent has no hard binding by construction of the hook)");

    // ---- enumeration: every breaker on jpeg, png and mp4 with 0 and 1 earlier updates; plain update chains on every asset ----
    let mut cases = vec![];
    let asset_list: Vec<u8> = if run.quick() { QUICK_ASSETS.to_vec() } else { (0..ASSETS.len() as u8).collect() };
    for &a in &asset_list {
        for n in 0..=2usize {
            let updates: Vec<Upd> = (0..n).map(|i| Upd { extra_action: ((a as usize + i) % 3) as u8, note: (a as usize + i) % 2 == 0 }).collect();
            for (mi, how) in [(0u32, 0u8), (7919, 8), (104729, 9)].iter().enumerate() {
                cases.push(Case { asset: a, aseed: (run.seed as u16).wrapping_add(a as u16 * 31 + n as u16), updates: updates.clone(), breaker: 0, variant: 0, mutation: Some(Mutn { sel: how.0.wrapping_mul(run.seed as u32 | 1).wrapping_add(mi as u32 * 977), how: how.1 }) });
            }
            cases.push(Case { asset: a, aseed: (run.seed as u16).wrapping_add(a as u16 * 31 + n as u16), updates, breaker: 0, variant: 0, mutation: None });
        }
    }
    for b in 1..BREAKERS.len() as u8 {
        for a in [0u8, 1, 2] {
            for n in [0usize, 1] {
                if run.quick() && n == 1 && b >= 11 {
                    continue;
                }
                let updates: Vec<Upd> = (0..n).map(|_| Upd { extra_action: 1, note: true }).collect();
                cases.push(Case { asset: a, aseed: (run.seed as u16) ^ (b as u16 * 257 + a as u16), updates, breaker: b, variant: b.wrapping_mul(3).wrapping_add(a), mutation: if (a + b) % 2 == 0 { Some(Mutn { sel: 12345 + b as u32, how: b % 10 }) } else { None } });
            }
        }
    }
    // every disallowed action name (c2pa.* and names outside the c2pa namespace) through the Update builder and in a
    // standard manifest re-typed as update manifest
    for (ai, _) in DISALLOWED.iter().enumerate() {
        for b in [5u8, 8] {
            for a in [0u8, 1] {
                if run.quick() && (ai + a as usize) % 2 == 1 {
                    continue;
                }
                let n = (ai + b as usize) % 2;
                let updates: Vec<Upd> = (0..n).map(|_| Upd { extra_action: 0, note: true }).collect();
                cases.push(Case { asset: a, aseed: (run.seed as u16) ^ (0x5D00 + ai as u16 * 8 + b as u16), updates, breaker: b, variant: (ai as u8) * 2 + (a + b) % 2, mutation: None });
            }
        }
    }
    // well-formed ignorable units inserted immediately before / after the manifest container, with and without update
    // manifests (data-hash assets)
    let dh: Vec<u8> = if run.quick() { DATA_HASH_ASSETS_QUICK.to_vec() } else { DATA_HASH_ASSETS.to_vec() };
    for &a in &dh {
        for n in 0..=2usize {
            let updates: Vec<Upd> = (0..n).map(|i| Upd { extra_action: ((a as usize + i) % 3) as u8, note: i % 2 == 0 }).collect();
            for (li, len) in [4u32, 5, 12, 16, 65, 130, 259, 300].iter().enumerate() {
                for how in 10u8..14 {
                    if run.quick() && (li + how as usize + n + a as usize) % 3 != 0 {
                        continue;
                    }
                    cases.push(Case { asset: a, aseed: (run.seed as u16).wrapping_add(0x1115 + a as u16 * 7 + n as u16), updates: updates.clone(), breaker: 0, variant: 0, mutation: Some(Mutn { sel: len - 4 + 297 * (li as u32 + how as u32), how }) });
                }
            }
        }
    }
    let threads = if run.quick() { 6 } else { 12 };
    run.drive_enum_par("enumerated", cases, threads, |c| judge(&run, c));

    // ---- random ----
    let upd = (0u8..3, any::<bool>()).prop_map(|(extra_action, note)| Upd { extra_action, note });
    let mutn = (any::<u32>(), 0u8..16).prop_map(|(sel, how)| Mutn { sel, how: if how >= 14 { how - 4 } else { how } });
    let al = asset_list.clone();
    let strat = (0..al.len(), any::<u16>(), proptest::collection::vec(upd, 0..=2), 0u8..28, any::<u8>(), proptest::option::weighted(0.7, mutn)).prop_map(|(asset, aseed, updates, breaker, variant, mutation)| Case {
        asset: asset as u8,
        aseed,
        updates,
        // half of the cases are well-formed chains
        breaker: if breaker < 14 { 0 } else { breaker - 14 },
        variant,
        mutation,
    });
    let strat = strat.prop_map(move |mut c| {
        c.asset = al[c.asset as usize % al.len()];
        c
    });
    run.drive_par("random", run.scale(160, 4800), threads, strat, |c| judge(&run, c));
    let ok = run.hist_get("wellformed_update_ok_bmff-hash") + run.hist_get("wellformed_update_ok_data-hash");
    let rej: u64 = vh::assets::KINDS.iter().map(|k| run.hist_get(&format!("wellformed_update_sign_rejected:{k}"))).sum();
    if run.replay.is_none() && (ok == 0 || rej * 4 > ok) {
        run.inconclusive(format!("only {ok} well-formed updates could be signed, {rej} were rejected"));
    }
    if run.hist_get("wellformed_update_sign_rejected:other-layout") > 0 {
        run.inconclusive("a well-formed update was rejected at sign time for a layout other than the known 'last box has size 0' one (see notes)");
    }
    run.finish();
}
